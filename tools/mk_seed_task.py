#!/usr/bin/env python3
"""Development tool: prepares a scratch git worktree of /repo for an independent seeding sub-agent.
   tools/mk_seed_task.py <Cxx> <round>   ->  /tmp/seed<round>-<Cxx>/{PROPERTY.md,TASK.md,Cargo.lock}
The sub-agent gets the property text only (nothing from /verif) and the list of ideas already used."""
import json, sys, os, glob, subprocess, shutil, ast
V = os.path.dirname(os.path.dirname(os.path.abspath(__file__)))
prop, rnd = sys.argv[1], sys.argv[2]
P = next(json.loads(l) for l in open(os.path.join(V, "properties.jsonl")) if json.loads(l)["id"] == prop)
wt = f"/tmp/seed{rnd}-{prop}"
subprocess.run(["git", "-C", "/repo", "worktree", "add", "--detach", wt, "HEAD"], check=True, stdout=subprocess.DEVNULL, stderr=subprocess.DEVNULL)
shutil.copy("/repo/Cargo.lock", wt + "/Cargo.lock")
anchors = P.get("anchors")
if isinstance(anchors, str):
    try: anchors = ast.literal_eval(anchors)
    except Exception: anchors = {"files": []}
q = P.get("quantifier") or {}
open(wt + "/PROPERTY.md", "w").write(f"# {P['title']}\n\n{P['statement']}\n\nQuantifier: {q.get('text','')}\n\nCode the property is anchored in: {', '.join((anchors or {}).get('files', []))}\n")
used = []
for m in sorted(glob.glob(os.path.join(V, "seeded", "*", "meta.json"))):
    j = json.load(open(m))
    if j["property"] == prop:
        used.append(f"{j['name']}: {j.get('breaks','')}")
task = f"""You are a software engineer helping to evaluate a test/verification effort for the scylla-rust-driver (an async Rust CQL driver). You work ONLY inside your own git worktree of the repository: {wt} (it is a checkout of the repository's current HEAD; `cargo` works offline there, there is no network). Do not read, list or touch anything outside {wt} (in particular not /repo and not /verif) except the Rust toolchain and the cargo registry.

The file {wt}/PROPERTY.md states one semantic property that the driver is supposed to guarantee. Your job: produce ONE realistic change to the driver's source (a plausible bug: a refactoring slip, a wrong comparison, a dropped step, a reordered pair of operations, a missing state update, a mishandled corner...) that BREAKS this property, while
  (1) the workspace still compiles (`cargo build -p scylla --offline`, and whatever crates you touch),
  (2) the existing offline unit tests still pass - run at least `cargo test -p scylla --lib --offline`, and also `cargo test -p scylla-cql --lib --offline` / `cargo test -p scylla-cql-core --lib --offline` / `cargo test -p scylla-macros --offline` if you touch those crates (use `CARGO_TARGET_DIR={wt}/target`; the first build takes a few minutes; 16 tests of `scylla --lib` need a live cluster and fail with "Connection refused" on the unmodified tree too - compare the failing sets),
  (3) the breakage needs something SPECIFIC to manifest - a particular interleaving, a fault at a particular point, a multi-step sequence of operations, an unusual but legal input, or two cooperating sites that each look fine alone - not something that ordinary use or a trivial smoke test would expose at once. Prefer a change that a code reviewer could plausibly miss.

Also produce a DEMONSTRATION: a test or small program (e.g. a `#[cfg(test)]` unit test added in the crate, or an integration test under `scylla/tests/`) that FAILS with your change and PASSES without it, showing that the property is really violated (not merely that some internal detail changed). If the property is about network behaviour you may write a tiny in-process TCP responder, or test the internal component directly; crate-private items can be reached from a unit test inside the crate. Note `scylla/src/verif_hooks.rs` and `#[cfg(scylla_verif)]` snippets are unrelated instrumentation that is compiled out by default; ignore them and do not rely on them.

Deliver, inside {wt}:
  * `seed/patch.diff` - the change to the driver only (unified diff, `git diff` format relative to HEAD, applies with `git apply`); keep it small (ideally < 30 changed lines); it must NOT include the demonstration.
  * `seed/demo.diff` - the demonstration as a separate diff (applies on top of HEAD with or without patch.diff), plus
  * `seed/README.md` - which property is broken and how, what exactly is needed for it to manifest, the exact commands to run the demonstration with and without the patch, the outputs you observed (fail with / pass without), and the list of test commands you ran to confirm the existing suite still passes with the patch.
Leave {wt} with NEITHER diff applied (clean `git status` apart from `seed/`, `PROPERTY.md`, `TASK.md`), and delete {wt}/target when you are done (it is large).

Quality bar: the change must genuinely violate the stated property for some execution within the property's quantifier; it must not be caught by the existing unit tests; it should be subtle. Spend your effort on finding a good one (read the anchored code first). If your first idea is caught by the existing tests, try another. Final message: a 5-line summary (what the change is, what triggers it, confirmation that suite passes and demo fails/passes, the name of the demo test and the crate it lives in).

IMPORTANT - already explored by others; do NOT reuse these ideas or close variants of them, and prefer a different code site and a different clause of the property:
""" + "\n".join(f"  - {u}" for u in used) + """

Other hints: pick the clause of the property that looks hardest to test; cooperating sites and state that survives across operations (caches, flags, counters, maps) make good hiding places. Never use `pkill`/`killall` or kill processes by name pattern (other people's builds run on this machine); only kill PIDs you started yourself. Use at most 6 parallel cargo jobs (`-j 6`).
"""
open(wt + "/TASK.md", "w").write(task)
print(wt)
