#!/bin/bash
# Development tool (not a registered check): runs one property's check against a
# scratch copy of /repo with a mutation patch applied, expecting a VIOLATION.
#   tools/selftest.sh <Cxx> <patch.diff> [--tier quick|thorough] [--scratch DIR] [--keep] [--only PART] [--harness DIR]
# exit 0: the check reported a VIOLATION (mutation caught); 1: not caught; 2: error.
set -u
PROP="$1"; PATCH="$(realpath "$2")"; shift 2
TIER=quick; SCRATCH=""; KEEP=0; ONLY=""; HSRC=/verif/harness
while [ $# -gt 0 ]; do case "$1" in
  --tier) TIER="$2"; shift 2;; --scratch) SCRATCH="$2"; shift 2;; --keep) KEEP=1; shift;; --only) ONLY="$2"; shift 2;; --harness) HSRC="$(realpath "$2")"; shift 2;;
  *) echo "unknown arg $1"; exit 2;; esac; done
[ -n "$SCRATCH" ] || SCRATCH="/var/tmp/vmut-$$"
mkdir -p "$SCRATCH"
# content-based sync without preserving mtimes: a file restored after a previous patch gets a fresh
# mtime, so cargo rebuilds exactly the crates whose sources changed (and never keeps a stale mutation)
rsync -rlp --checksum --delete --exclude target --exclude .git /repo/ "$SCRATCH/repo/"
rsync -rlp --checksum --delete --exclude 'target*' --exclude '.build-*' --exclude Cargo.toml "$HSRC/" "$SCRATCH/harness/"
cp "$HSRC/Cargo.toml" "$SCRATCH/harness/Cargo.toml"
sed -i "s#/repo/#$SCRATCH/repo/#g" "$SCRATCH/harness/Cargo.toml"
( cd "$SCRATCH/repo" && patch -p1 --no-backup-if-mismatch < "$PATCH" ) || { echo "SELFTEST-ERROR: patch did not apply"; exit 2; }
export VERIF_DEV=1 VERIF_HARNESS_DIR="$SCRATCH/harness" VERIF_STATE_DIR="$SCRATCH/state"
mkdir -p "$VERIF_STATE_DIR"
ARGS=("$PROP" --tier "$TIER"); [ -n "$ONLY" ] && ARGS+=(--only "$ONLY")
/verif/check "${ARGS[@]}" > "$SCRATCH/out.txt" 2> "$SCRATCH/err.txt"; RC=$?
grep -E "^(VIOLATION|KNOWN-FINDING|OK)" "$SCRATCH/out.txt"
grep -E "signature=|HARNESS-ERROR|INCONCLUSIVE" -A1 "$SCRATCH/err.txt" | head -20
[ $KEEP = 1 ] || rm -rf "$SCRATCH"
if [ $RC = 1 ]; then echo "SELFTEST: mutation CAUGHT"; exit 0; fi
if [ $RC = 0 ]; then echo "SELFTEST: mutation MISSED"; exit 1; fi
echo "SELFTEST-ERROR: check exited $RC"; tail -20 "$SCRATCH/err.txt" 2>/dev/null; exit 2
