#!/usr/bin/env python3
"""Regenerates /verif/MANIFEST.json from tools/registry.py and tools/not_applicable.json."""
import json, os, subprocess, sys
HERE = os.path.dirname(os.path.abspath(__file__))
VERIF = os.path.dirname(HERE)
sys.path.insert(0, HERE)
from registry import REGISTRY

props = [json.loads(l)["id"] for l in open(os.path.join(VERIF, "properties.jsonl"))]
na_path = os.path.join(HERE, "not_applicable.json")
na = json.load(open(na_path)) if os.path.exists(na_path) else {}
hook_commits = subprocess.run(["git", "-C", "/repo", "log", "--format=%H %s", "--grep=^verif hooks"], capture_output=True, text=True).stdout.strip().splitlines()

checks = []
for p in props:
    if p not in REGISTRY:
        continue
    r = REGISTRY[p]
    c = {
        "property_id": p,
        "quick_cmd": f"./check {p} --tier quick",
        "evidence_file": f"/verif/evidence/{p}.json",
        "replay_cmd_template": f"./check {p} --replay {{path}}",
        "engine": "verif-harness",
        "level_claimed": {"category": r["level"], "text": r["level_text"], "design_ref": r.get("design_ref", "DESIGN.md §4")},
        "level_note": r["level_note"],
        "technique": r["technique"],
    }
    if "thorough" in r:
        c["thorough_cmd"] = f"./check {p} --tier thorough"
    checks.append(c)

manifest = {
    "version": 1,
    "setup_cmd": "./tools/setup.sh",
    "hooks": {
        "guard": "cfg(scylla_verif)",
        "enable": "RUSTFLAGS=\"--cfg scylla_verif\" (set by ./check for every harness build; the harness depends on /repo/scylla, /repo/scylla-cql and /repo/scylla-cql-core by path)",
        "baseline_off_cmd": "cd /repo && cargo nextest run --workspace --no-fail-fast --test-threads 8 --offline || cargo test --workspace --no-fail-fast --offline",
        "source_commits": [l.split()[0] for l in hook_commits][::-1],
        "add_only": True,
    },
    "engines": [
        {"name": "verif-harness", "path": "/verif/harness", "serves_properties": [c["property_id"] for c in checks],
         "kind_free_text": "Rust harness linking the real driver crates from /repo: seeded workload generators, reference-model monitors, event-log checkers, in-process mock CQL cluster over loopback TCP, crash sentinel (child processes), run natively (debug/release) and under Miri / ThreadSanitizer / AddressSanitizer"},
    ],
    "checks": checks,
    "not_applicable": [{"property_id": p, "reason": na.get(p, "check not built yet in this session; see DESIGN.md §4 for the planned monitor")} for p in props if p not in REGISTRY],
    "notes": "All checks belong to the runtime-monitoring family: the deciding step is an oracle observing executions of the real code. ./check exits 2 (no VIOLATION line) on harness/build errors. Known findings: /verif/known_findings.json.",
}
json.dump(manifest, open(os.path.join(VERIF, "MANIFEST.json"), "w"), indent=1)
print("wrote MANIFEST.json with", len(checks), "checks;", len(manifest["not_applicable"]), "not applicable")
