#!/usr/bin/env python3
"""Regenerates seeded/README.md from seeded/*/meta.json."""
import json, glob, os
V = os.path.dirname(os.path.dirname(os.path.abspath(__file__)))
rows = []
for m in sorted(glob.glob(os.path.join(V, "seeded", "*", "meta.json"))):
    j = json.load(open(m))
    r = j["check_result"]
    rows.append((j["property"], j["name"], j.get("breaks", "")[:140], r["result"], ", ".join(r.get("signatures", [])[:3]), j.get("note", "")))
out = ["# Seeded changes (written by independent sub-agents that saw only the property text)", "",
       "Each directory holds `patch.diff` (the change), `demo.diff` (a demonstration that fails with the change and passes without it),",
       "the author's `README.md` (what is needed for it to manifest) and `meta.json` (what was re-confirmed here and what the property's check reported).",
       "Confirmation and check runs are done by `tools/verify_seed.sh` in scratch copies; none of these changes is ever applied to /repo.", "",
       "| property | seeded change | check result | signatures that fired | remark |", "|---|---|---|---|---|"]
for p, n, b, res, sig, note in rows:
    out.append(f"| {p} | `{n}` — {b} | **{res}** | {sig} | {note} |")
open(os.path.join(V, "seeded", "README.md"), "w").write("\n".join(out) + "\n")
print(f"{len(rows)} seeded changes")
