#!/bin/bash
# Development tool: re-runs the property's check (current harness) against every seeded change
# matching the pattern (default: all) in a scratch copy, and rewrites "check_result" in its meta.json.
#   tools/recheck_seeds.sh [glob-pattern] [--tier quick|thorough]
PAT="${1:-*}"; TIER=quick; [ "${2:-}" = "--tier" ] && TIER="$3"
cd /verif
for d in seeded/$PAT/; do
  d=${d%/}; [ -f "$d/patch.diff" ] || continue
  n=$(basename "$d"); P=$(python3 -c "import json;print(json.load(open('$d/meta.json'))['property'])")
  out=$(tools/selftest.sh "$P" "$d/patch.diff" --tier "$TIER" --scratch /var/tmp/vmut-recheck 2>&1)
  res=$(echo "$out" | tail -1 | sed -n 's/^SELFTEST: mutation \(CAUGHT\|MISSED\).*/\1/p' | tr A-Z a-z); [ -n "$res" ] || res=error
  sigs=$(echo "$out" | sed -n 's/^ *signature=//p' | sort -u | head -6)
  python3 - "$d/meta.json" "$res" "$TIER" "$P" "$sigs" <<'PY'
import json,sys
p,res,tier,prop,sigs=sys.argv[1:6]
j=json.load(open(p))
j["check_result"]={"cmd":f"tools/selftest.sh {prop} {p.rsplit('/',1)[0]}/patch.diff --tier {tier}","tier":tier,"result":res,"signatures":[s for s in sigs.split("\n") if s]}
json.dump(j,open(p,"w"),indent=1)
PY
  echo "$n $res"
done
python3 tools/seeded_table.py
