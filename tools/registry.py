"""Registry of checks: which workloads (harness runs) decide each property in each tier.

A "run" is one invocation of the harness binary: {variant, part, scale, workers, args, timeouts}.
variants: dbg (debug: overflow checks + debug_assert are extra oracles), rel (release),
tsan / asan (nightly sanitizers), miri.
"""

COMMON_ASSUME = [
    "the harness's reference models and independent wire codec are correct (each self-tested against vectors pinned in the repository's own tests)",
    "rustc, std, tokio and the sanitizer/Miri runtimes behave as documented",
    "the cfg(scylla_verif) hooks are pass-throughs that do not change the behaviour they expose",
]

REGISTRY = {
    "C12": {
        "level": "exploration",
        "technique": "composition of the independent token / placement / sharding models with the arranged reachability as oracle; observation of the first EXECUTE frame (node, server-assigned shard) of every request at the mock cluster",
        "rule": "cases = worlds (1..6 mock nodes x 1..3 DCs x racks, vnodes 1..4, sharded nodes with 1..8 shards / msb 0|12 / with or without shard-aware port and unsharded nodes, some nodes down from the start, keyspace Simple RF 1..3 or NTS with per-DC RF 0..3, a tablet keyspace whose tablets the nodes announce through tablets-routing-v1 payloads on misrouted requests, pool PerShard(1|2) or PerHost(2|4), preference none / DC / DC+rack, failover on/off) x 110 executions of prepared statements with single (bigint) and composite (bigint, text with bind markers NOT in key order) partition keys; "
                "executions start only after the mock has seen a full pool on every up node; one evaluation = one request whose first frame was observed; distinct = (world, request)",
        "assumptions": COMMON_ASSUME + ["requests with no reachable permitted replica, requests for tablets not yet announced (or announced less than 150 ms ago) and owning shards the pool has no connection to are not asserted, only counted"],
        "quick": [{"variant": "dbg"}],
        "thorough": [{"variant": "dbg", "timeout_t": 5400}],
        "level_text": "For every execution the first frame must arrive at a node that the independent models name as a replica of the key's token (in the preferred datacenter when it holds a reachable replica), on a connection whose server-assigned shard equals the model's shard of the token whenever the pool has one; for tablet tables the replica and shard of the announced tablet covering the token.",
        "level_note": "trusted: refmodel murmur3 + replication + sharding (each validated in its own check), the mock cluster's shard assignment (source port modulo shard count on the shard-aware port, least loaded otherwise)",
        "design_ref": "DESIGN.md §4 C12",
    },
    "C05": {
        "level": "exploration",
        "technique": "relation checker over plans of the real DefaultPolicy on real ClusterStates built from generated topologies (hooks: in-memory ClusterState, per-node connected override), recording the Option<Shard> of every target",
        "rule": "cases = worlds (C04 topology without duplicate tokens x enabled set via host filter x connected set via override; every assignment enumerated for clusters of <= 3 nodes quick / <= 4 thorough, sampled above) x 3-5 policies {token-aware, preference none/DC/DC+rack/inherited, failover, shuffling} x 3-5 requests {token or none, known/unknown keyspace, tablet table, LWT flag, 9 consistencies, serial consistency}; views judged: Plan::new output, fallback() with its Option<Shard>, pick() membership; LWT requests repeated with 8 fresh policies; "
                "one evaluation = one plan; non-trivial = plan with >= 2 targets; distinct = distinct world",
        "assumptions": COMMON_ASSUME + ["replicas are what refmodel/replication.rs (C04) says, for tablet tables the tablet's replica list", "shuffle/rotation order, size_hint and the consistency-dependent failover wording of the docs are not asserted"],
        "quick": [{"variant": "dbg", "scale": 0.5}],
        "thorough": [{"variant": "dbg", "timeout_t": 5400}],
        "level_text": "Every plan is checked against the statement's relations only: no target twice, no host-filtered node, no node outside the preferred datacenter unless failover is permitted, every other token-owning node present, live local-rack replicas before live local-DC replicas before live remote replicas before other live nodes before nodes believed down, and for LWT the replica prefix in ring order, identical across fresh policies and random states.",
        "level_note": "trusted: refmodel/plan.rs + refmodel/replication.rs; ClusterState built by the real ClusterState::new (hook), liveness through the per-node override hook",
        "design_ref": "DESIGN.md §4 C05",
    },
    "C01": {
        "level": "exploration",
        "technique": "independent CQL v4 value codec (from the spec) as reference model over generated (type, value, carrier) cases; three equations per case; debug overflow traps as extra oracle",
        "rule": "cases = (column type, value) through the dynamic CqlValue path and (carrier, column type, value) through 132 typed Rust carriers; types = seeded random trees over all 20 natives and list/set/map/tuple/UDT/vector, depth <= 3 (quick) / 5 (thorough); values from boundary pools (integer extremes, NaN payloads, subnormals, empty/multi-byte/70 KB strings, zero-length 'empty' cells for emptiable natives, date/time extremes, durations with 1..9-byte vints, non-minimal varints/decimals, collections of length 0/1/127/128/129/300, vector elements >= 128 and >= 16384 bytes, null at every tuple/UDT position, short tuples/UDTs, top-level null and unset); "
                "equations: driver bytes == model bytes; driver decode of model bytes == value (padded with nulls); re-encode == model bytes; plus SerializedValues framing; hash carriers compared as multisets; non-trivial = anything but null/unset on a native; distinct = hash of (carrier, type, value)",
        "assumptions": COMMON_ASSUME + ["a tuple given NO field at all encodes to a zero-length cell, which the dynamic CqlValue decoder reads as the 'empty' value rather than an all-null tuple; the zero-length cell is genuinely ambiguous, so that shape is not generated (--zero_field_tuples=0)"],
        "quick": [{"variant": "dbg", "args": {"zero_field_tuples": "0"}}],
        "thorough": [{"variant": "dbg", "args": {"zero_field_tuples": "0"}, "timeout_t": 5400}, {"variant": "rel", "args": {"zero_field_tuples": "0"}, "timeout_t": 5400},
                     {"variant": "miri", "args": {"zero_field_tuples": "0"}, "workers": 2, "optional": True, "timeout_t": 3000}],
        "level_text": "Every generated (type, value) is encoded by the driver and by an independent spec codec and must agree byte for byte; the bytes are decoded back by the driver and must equal the value (short tuples/UDTs padded with nulls, floats bitwise, varints numerically), and re-encoding must reproduce the bytes; the same through 132 typed Rust carriers. Sampled inputs with 219 required coverage classes (every native, every container kind at every depth, every null position, every carrier).",
        "level_note": "trusted: refmodel/cqlenc.rs (self-tested against hand-computed vectors; vector fixed-width table from Cassandra's valueLengthIfFixed)",
        "design_ref": "DESIGN.md §4 C01",
    },
    "C03": {
        "level": "exploration",
        "technique": "independent one-shot Murmur3/CDC reference model (validated against pinned Cassandra vectors) over generated keys, chunkings and prepared-statement shapes served by a mock responder",
        "rule": "part A: (hasher, key bytes, cut positions, mid-stream finish) - lengths 0..=70 and 16k-1/16k/16k+1 up to 209 x 9 byte classes x every 1-cut and 2-cut chunking (len <= 48 quick / 97 thorough), every 3-cut chunking for short keys, fixed chunk sizes, keys whose raw hash is exactly i64::MIN (built with the model's inverse), random cases; "
                "part M: crafted PREPARED bodies through the public decoder; part P: PREPAREs served to a real Session with 0..12 key components at any permutation of 1..16 bind markers with non-key markers interleaved, Murmur3/CDC/unknown partitioner tables -> compute_partition_key / calculate_token vs model; part T: ClusterState::compute_token; "
                "non-trivial = non-empty key / at least one key component; distinct = distinct (hasher, bytes, cuts, mid) or (shape, values), tracking capped per worker (lower bound)",
        "assumptions": COMMON_ASSUME + ["single empty keys, components over 65535 bytes, NULL key values and CDC keys of lengths the server never stores are not asserted"],
        "quick": [{"variant": "dbg"}],
        "thorough": [{"variant": "dbg"}, {"variant": "rel"}],
        "level_text": "Every generated key, chunking and bind-marker permutation is hashed by the real partitioner code and compared with an independently written one-shot Cassandra Murmur3 (signed tail bytes, MIN->MAX) over an independently built composite encoding in partition-key order; chunking independence and mid-stream finish are checked; debug assertions act as an extra oracle, release re-runs the same cases.",
        "level_note": "trusted: refmodel/murmur3.rs (self-test against Cassandra-generated vectors pinned in the repository, canonical MurmurHash3 digests and hand-spelled composites; a failing self-test is a harness error, not a verdict)",
        "design_ref": "DESIGN.md §4 C03",
    },
    "C20": {
        "level": "exploration",
        "technique": "history checker over mock-node logs: acknowledged keyspace of the connection at the arrival of every request vs the last successful use_keyspace; enumeration of candidate names",
        "rule": "histories = sequences of use_keyspace (one at a time; plain and case-sensitive names; scripted failures on some connections) interleaved with connection kills (pool refill), node restarts, a node added through system.peers + refresh, delayed USE acknowledgements, PerShard(1|2) pools on a sharded + a plain node, while 2-6 workers issue requests continuously; one evaluation = one request that falls in a specified window (its call started after a use_keyspace returned Ok and no later use_keyspace had started when it arrived); "
                "validation part: candidate names (length 0..60, any characters incl. quotes, ';', unicode, NUL) x case-sensitive flag; distinct = distinct history / name",
        "assumptions": COMMON_ASSUME + ["requests overlapping a use_keyspace call, or following a failed one, are unspecified and only counted"],
        "quick": [{"variant": "dbg"}],
        "thorough": [{"variant": "dbg", "timeout_t": 5400}, {"variant": "tsan", "scale": 0.05, "optional": True, "tsan_suppress": True}],
        "level_text": "Every request issued after a successful use_keyspace(K) must arrive on a connection on which the node had already acknowledged K, including connections opened afterwards (refill, reconnect, new node); invalid names must be refused locally with no frame reaching any node, valid names must appear verbatim as USE name / USE \"name\". Interleavings are sampled.",
        "level_note": "trusted: mock cluster (the acknowledged keyspace is recorded before the acknowledgement is written, so it is a lower bound of what the client may know)",
        "design_ref": "DESIGN.md §4 C20",
    },
    "C14": {
        "level": "exploration",
        "technique": "mock nodes as source of truth for (statement id, result-metadata id, column layout) + history checker over node frame logs and caller-decoded rows",
        "rule": "cases = histories of 4..18 steps over {execute, paged execute, CachingSession execute, batch, evict on one node, evict everywhere, schema change (new column layout + new result-metadata id), id change on one node, barrier} run by concurrent callers against 3 nodes, with/without SCYLLA_USE_METADATA_ID and with/without use_cached_result_metadata (schema changes are excluded when metadata is skipped without the extension: the protocol gives the client no signal there); "
                "cell values are a function of the column NAME, so rows decoded with a stale layout are visible; non-trivial = history of more than 2 steps; distinct = distinct (steps, extension, skip-metadata)",
        "assumptions": COMMON_ASSUME + ["under never-ending eviction only the faithfulness of repeats is checked, termination is not part of the statement"],
        "quick": [{"variant": "dbg"}],
        "thorough": [{"variant": "dbg", "timeout_t": 5400}, {"variant": "asan", "scale": 0.05, "optional": True}],
        "level_text": "For every history: callers get the normal result across evictions; the request repeated after UNPREPARED equals the original in id, values and parameters; a changed id on re-preparation surfaces as an error and no EXECUTE ever carries another id; every row the caller decoded equals what the node encoded for that column name under the layout it answered with; with the extension, an execution presents a result-metadata id at least as new as the one announced to any execution that had already returned.",
        "level_note": "trusted: mock cluster and wire codec; retries are disabled (Fallthrough) so that re-preparation is the only repeat mechanism observed",
        "design_ref": "DESIGN.md §4 C14",
    },
    "C15": {
        "level": "exploration",
        "technique": "reference-model monitor in lockstep with the real ClusterState tablet map (hook), exhaustive (state, insert) transitions over a small token universe, random histories with maintenance, payload-decoder fuzz",
        "rule": "cases = histories of tablet inserts (delivered as real custom payloads) and metadata refreshes (node removed / re-created / datacenter changed / unknown replica resolved or not / keyspace flipped / table dropped); exhaustive part: every (state, insert) transition over a 10-token universe in 5 placements (dense, spread, ending at i64::MAX, starting at i64::MIN+1, mixed) = 3.0M transitions, and every history up to the stated lengths; random part: long histories over full i64; decoder part: generated well-formed / truncated / mutated payloads; after EVERY step ranges are dumped and every universe token (+-1) is looked up through the public ReplicaLocator; "
                "non-trivial and distinct = distinct (history prefix) / (state, insert) / payload",
        "assumptions": COMMON_ASSUME + ["null or absent replica list, trailing bytes and negative counts in a payload are unspecified: only 'no panic' is asserted there"],
        "quick": [{"variant": "dbg"}],
        "thorough": [{"variant": "dbg", "timeout_t": 5400}],
        "level_text": "After every step the dumped ranges must be sorted and pairwise disjoint and equal the model's live set; every queried token must be answered by the most recently learnt covering tablet or by nothing; the per-DC list must be the restriction of the full list; Node objects must be the current ones. Exhaustive over all single-step transitions of a 10-token universe.",
        "level_note": "trusted: refmodel/tablets.rs (with a second literal log formulation as self-check); tablets are fed through the real RawTablet::from_custom_payload + ClusterState::update_tablets, refreshes through the real ClusterState::new_updated",
        "design_ref": "DESIGN.md §4 C15",
    },
    "C18": {
        "level": "exploration",
        "technique": "multi-threaded stress of the real generator with clock override and pause point (hooks), offline per-thread/global log checker; Miri many-seeds and TSan variants; end-to-end timestamp capture at the mock node",
        "rule": "part a: one case = one round of N threads (2..16) x M calls on one generator under one of 8 clock modes (real, stalled, repeated microsecond, backward steps of 1 us / 1 s / 1 h, before the epoch, mixed) and one of 4 pause policies between load and compare-exchange; non-trivial = the global order interleaves >= 2 threads; distinct = (mode, threads, calls, owner sequence of the global order); "
                "part b: concurrent writes through a Session using the generator, timestamps collected by the mock node (distinct; explicit statement timestamps arrive unchanged for QUERY/EXECUTE/BATCH)",
        "assumptions": COMMON_ASSUME + ["interleavings are sampled by the OS scheduler / Miri; CAS retries and owner switches observed are reported"],
        "quick": [{"variant": "dbg", "part": "a", "scale": 0.25}, {"variant": "dbg", "part": "b"}],
        "thorough": [{"variant": "dbg", "part": "a"}, {"variant": "dbg", "part": "b"},
                     {"variant": "tsan", "part": "a", "scale": 0.2, "optional": True},
                     {"variant": "miri", "part": "a", "optional": True, "miri_seeds": 16, "timeout_t": 3000}],
        "level_text": "Every value returned in every round is logged per thread; offline each thread's sequence must be strictly increasing and all values pairwise distinct, under stalled, repeating and backward-stepping clocks and with forced preemption between the load and the compare-exchange. Sampled interleavings; Miri adds weak-memory and arbitrary preemption at tiny sizes, TSan runs unsuppressed.",
        "level_note": "trusted: clock-override and pause hooks (no-ops unless installed); nothing is asserted about the relation to the clock",
        "design_ref": "DESIGN.md §4 C18",
    },
    "C19": {
        "level": "exploration",
        "technique": "poll-granularity schedule enumeration of the real merge channel with a counting waker (single thread, no runtime), re-entrant pause-point interleavings, multi-threaded stress with seeded pause points + offline log checker; Miri / TSan variants",
        "rule": "part a: A1 = every step sequence up to length 10 (quick) / 13 (thorough) over {merge(unique id appended), retract/no-op modify, drop sender, start recv, poll, cancel, drop receiver} followed by a drain that polls only when woken; A2 = the same steps where each of the four in-code pause points is also a scheduling point (the other party's steps run re-entrantly there), up to length 8 / 10; "
                "part b: producer/consumer OS threads with seeded merges, retracts, bursts before drop, cancel experiments, early receiver drop and seeded delays at the pause points; distinct = distinct schedule (a) / (plan, pause-point interleaving signature) (b); non-trivial = at least one merge and one poll",
        "assumptions": COMMON_ASSUME + ["part b samples thread interleavings (distinct pause-point signatures are counted); a consumer still parked 30 s after the producer finished is a hang only if its waker was never woken and no event was logged in the second half of the wait"],
        "quick": [{"variant": "dbg"}, {"variant": "dbg", "part": "c"}],
        "thorough": [{"variant": "dbg", "timeout_t": 5400}, {"variant": "dbg", "part": "c"},
                     {"variant": "tsan", "part": "b", "scale": 0.1, "optional": True},
                     {"variant": "miri", "part": "a", "optional": True, "timeout_t": 3000},
                     {"variant": "miri", "part": "b", "optional": True, "miri_seeds": 16, "timeout_t": 3000}],
        "level_text": "Every schedule of the bounded space is executed against the real channel and judged after every step: received vectors reconstruct exactly what was merged (each id once, in order), a Pending poll while a value is pending or the sender is gone must have been followed by a wake (lost wake-up stated logically), None only after the last value, modify fails iff the receiver is gone. Exhaustive for the stated bounds (sequentially consistent interleavings at the pause points); threads, TSan and Miri add sampled weak-memory and preemption coverage.",
        "level_note": "trusted: the inline model in checks/c19.rs; the merge_channel re-export hook and the four pause points (outside all locks); part c (user-visible): against the mock cluster, a requested refresh_metadata() must return and the published cluster state must name exactly the latest peers after bursts of topology changes with and without events",
        "design_ref": "DESIGN.md §4 C19",
    },
    "C06": {
        "level": "exploration",
        "technique": "safety-table monitor over whole error histories fed to the real RetrySession (hook constructor), exhaustive to a length bound; end-to-end frame counting against the mock cluster",
        "rule": "part a: histories of per-attempt errors (91 concrete error values in ~35 classes: every DbError variant with boundary fields, broken connection, no stream id, parse errors) fed to one RetrySession of Default / DowngradingConsistency / Fallthrough, following each decision; every history the policy lets happen up to length 4 (quick) / 5 (thorough) x idempotent x 11 initial consistencies x 3 policies, 16 identical failures per class, random histories of 5-16 attempts; non-trivial = history of >= 2 attempts; distinct = (policy, idempotent, initial CL, class sequence). "
                "part b: the same error scripts injected by mock nodes into a real Session; frames per logical request are counted per node and compared with the decisions recorded by a wrapping RetryPolicy",
        "assumptions": COMMON_ASSUME + ["the constant bounding same-target retries is taken from the documentation (Default: 2); for Downgrading only boundedness by a small constant is asserted"],
        "quick": [{"variant": "dbg", "part": "a"}, {"variant": "dbg", "part": "b"}],
        "thorough": [{"variant": "dbg", "part": "a"}, {"variant": "dbg", "part": "b"}],
        "level_text": "The statement's safety table (a non-idempotent request is re-sent only after unavailable / bootstrapping / no stream id / read timeout; Default never retries at serial consistency; bounded same-target retries; Fallthrough never) is checked on every decision of every enumerated history with the real policy sessions; end to end, the number, target and consistency of frames a node receives per request must equal 1 + the retry decisions taken.",
        "level_note": "trusted: refmodel/retry.rs (table from the statement), the RequestInfo constructor hook, the mock cluster's frame log",
        "design_ref": "DESIGN.md §4 C06",
    },
    "C07": {
        "level": "fault_enumeration",
        "technique": "scripted mock nodes (arbitrary page splits, per-page faults) + offline comparison of the delivered row stream with the script; server-side paging-state sequence monitor",
        "rule": "cases = page scripts: result sets split into 1..12 pages (empty pages, empty last page, one huge page), unique row values, arbitrary paging-state bytes, a fault per page (retryable error, non-retried error, connection cut mid-frame, delay); every fault kind at every page index 0..5 enumerated, random scripts beyond; x prepared/unprepared pager x idempotent x retry policy (Default/Fallthrough) x consumer (fast, slow, early drop); plus the control connection's pager over >1024-row system tables; "
                "non-trivial = more than one page or at least one row; distinct = distinct (page lengths, faults, state lengths, pager, idempotence, policy, consumer)",
        "assumptions": COMMON_ASSUME,
        "quick": [{"variant": "dbg"}],
        "thorough": [{"variant": "dbg", "timeout_t": 5400}],
        "level_text": "For every script the rows the stream delivered must be exactly the pages in server order, each once, then end; an error may surface only after all rows of the pages before the failing page; every page request must carry the paging state issued with the previously delivered page (none for the first), never a state the node did not issue, never a request after the last page.",
        "level_note": "trusted: mock cluster; three-node cluster so that 'retry on next target' switches coordinator; real time only for pacing",
        "design_ref": "DESIGN.md §4 C07",
    },
    "C13": {
        "level": "exploration",
        "technique": "virtual-time (paused tokio clock) schedule enumeration of the real speculative-execution loop via hook, reference-model judge; end-to-end overlap monitor on mock nodes",
        "rule": "part a: cases = (max speculative executions 0..4, interval in {10,2,0} ms, script of (completion delay, outcome kind) per started execution) with delays on a grid that hits every tie with timer ticks and between executions; outcome kinds success / definitive error / identified ignorable error / anonymous ignorable / plan exhausted; all scripts for max 0..2 (quick) / 0..4 (thorough) enumerated, random schedules for longer ones; non-trivial = at least 2 executions started; distinct = (max, interval, script). "
                "part b: real Session with mock-node delays: frames of one non-idempotent request never overlap on two nodes; idempotent: executions <= 1+max, distinct targets, first real answer returned",
        "assumptions": COMMON_ASSUME + ["ties between a timer tick and a completion (or two completions) are unspecified: every order is accepted"],
        "quick": [{"variant": "dbg", "part": "a"}, {"variant": "dbg", "part": "b"}],
        "thorough": [{"variant": "dbg", "part": "a", "timeout_t": 5400}, {"variant": "dbg", "part": "b"}],
        "level_text": "The real execute loop is run under a paused clock for every enumerated schedule and judged by a model of the statement: at most 1+max starts, only at multiples of the interval while nothing definitive arrived and the plan is not exhausted, the return value is the first non-ignorable completion (else the last ignorable error once nothing can start any more), and the call always returns: a one-virtual-hour timeout firing is a deterministic witness of waiting on nothing. Exhaustive for the stated bound.",
        "level_note": "trusted: refmodel/specexec.rs; the hook builds a real Context; tokio's paused-clock auto-advance semantics",
        "design_ref": "DESIGN.md §4 C13",
    },
    "C17": {
        "level": "exploration",
        "technique": "documentation-derived compatibility table as oracle over the complete carrier x column-type matrix; snapshot/compare rollback monitor with an independent [value] parser",
        "rule": "matrix: every catalogue carrier (123 Rust types) x every column type (20 natives; list/set/vector/tuple/UDT over each native; map/tuple/udt over native pairs; every container shape over the 180 one-level types: 3860 types), both directions (SerializeValue::serialize, SerializedValues::add_value on top of bound values; DeserializeValue::type_check, one-column row type check, TypedRowIterator::new); "
                "oracle verdict MUST_ACCEPT / MUST_REJECT / EITHER from the docs; non-trivial = verdict asserted (not EITHER); distinct = distinct (direction, carrier, type). "
                "rollback: seeded value lists of 0-9 values, 15 failure kinds at every prefix, the 65536th value, oversize cells (thorough), through add_value / from_serializable / from_closure / RowWriter",
        "assumptions": COMMON_ASSUME + ["wire-compatible extras on which the documentation is silent are listed as EITHER and only counted, not asserted"],
        "quick": [{"variant": "dbg"}],
        "thorough": [{"variant": "dbg"}, {"variant": "rel", "args": {"oversize": "0"}}],
        "level_text": "The complete carrier x column-type matrix is evaluated in both directions against a table written from the documentation (exhaustive over the bounded matrix); a rejected value must leave no bytes behind; after every failed add the bound values are compared byte-for-byte and count-for-count with a snapshot taken before, and element_count is cross-checked with an independent parser of the encoded cells.",
        "level_note": "trusted: refmodel/typecompat.rs (docs-derived table, self-tested against the docs' headline list); exhaustive refers to the matrix part, the rollback part is sampled",
        "design_ref": "DESIGN.md §4 C17",
    },
    "C02": {
        "level": "exploration",
        "technique": "model-based walks of the real handler map (hook) + end-to-end history checker over mock-node/client event logs, adversarial response order, cancellation, seeded pause points",
        "rule": "part a: random and structured operation walks (allocate/orphan/lookup/into_handlers) over the real ResponseHandlerMap compared step by step with a reference state machine, invariant walker on the live structure; "
                "part b: histories = (n concurrent requests on ONE pool connection, response order class, cancellation plan per request, withheld answers of abandoned requests, second wave of requests, write-coalescing mode, prepared/unprepared) "
                "against a mock node that echoes the id of each request; one evaluation = one client operation; non-trivial = every operation of a history with >= 2 concurrent requests; distinct = distinct (history seed, operation id, cancelled)",
        "assumptions": COMMON_ASSUME + ["thread/task interleavings are sampled (not enumerated); what was seen is reported as cancellation-stage and order classes"],
        "quick": [{"variant": "dbg", "part": "a"}, {"variant": "dbg", "part": "b"}],
        "thorough": [{"variant": "dbg", "part": "a"}, {"variant": "dbg", "part": "b", "timeout_t": 5400},
                     {"variant": "miri", "part": "a", "optional": True, "timeout_t": 3000},
                     {"variant": "tsan", "part": "b", "scale": 0.2, "optional": True, "tsan_suppress": True}],
        "level_text": "Part a: every operation of random and structured walks (incl. full exhaustion of all 32768 ids, late orphans, forced reuse) on the real handler map is compared with a reference state machine and the structure's invariants are walked. Part b: every successful result is checked to carry the id of its own request with an intact payload and to have been really sent by the node before it was delivered; the node flags any request arriving on a stream id it still owes an answer on (abandoned requests included); histories include more concurrent requests than stream ids. Interleavings are sampled: held on what was observed.",
        "level_note": "trusted: mock node + independent wire codec; cancellation stages are classified from the event log only; pause points (hook) only perturb timing",
        "design_ref": "DESIGN.md §4 C02",
    },
    "C04": {
        "level": "exploration",
        "technique": "reference-model monitor (independent SimpleStrategy/NTS walker) + metamorphic relations over generated rings, on the real ClusterState/ReplicaLocator built through a hook",
        "rule": "cases = (ring topology, replication strategy, token, datacenter restriction, pre-computed or not); rings of up to 12 nodes x 3 DCs x 4 racks incl. rack-less / DC-less nodes, vnodes, extreme and duplicate tokens; per ring every DC x RF 0..nodes+2; "
                "tokens = ring tokens, +-1, extremes, midpoints (capped at 40 quick / 96 thorough); one locator pre-computes a random subset of the strategies, a second one nothing; one evaluation = one query (token x locator x datacenter restriction); non-trivial = some token has a non-empty replica set; distinct = distinct (ring, strategy)",
        "assumptions": COMMON_ASSUME,
        "quick": [{"variant": "dbg", "scale": 0.5}, {"variant": "dbg", "part": "b"}],
        "thorough": [{"variant": "dbg", "scale": 1.0, "timeout_t": 5400}, {"variant": "dbg", "part": "b"}],
        "level_text": "Every generated (ring, strategy, token) is answered by the real ReplicaLocator and compared with a 30-line model of the servers' placement rule, plus the statement's internal relations (pre-computed == on-the-fly, DC filter, len == iteration == ordered view, choose_filtered membership, ring order). Sampled inputs, exhaustive RF range per ring.",
        "level_note": "trusted: refmodel/replication.rs; ClusterState is built by the real ClusterState::new through the ClusterProbe hook (nodes disabled by a host filter); part b (hook-free) serves generated topologies from mock nodes to a real Session and compares ClusterState::get_token_endpoints with the model, which also covers the parsing of system.peers / system_schema.keyspaces",
        "design_ref": "DESIGN.md §4 C04",
    },
    "C09": {
        "level": "exploration",
        "technique": "independent protocol parser reads back every frame the driver builds; field-by-field and byte-for-byte comparison with a spec encoder",
        "rule": "cases = request descriptions (QUERY, EXECUTE incl. result-metadata id, BATCH, PREPARE, STARTUP, REGISTER, OPTIONS, AUTH_RESPONSE) framed uncompressed / LZ4 / Snappy with and without tracing; all 64 subsets of optional fields x 4 entry points enumerated, "
                "boundary cases at the 16/32-bit limits (65535/65536 values, ids, statements, strings), random cases beyond; non-trivial = every case but OPTIONS; distinct = distinct (kind, spec body)",
        "assumptions": COMMON_ASSUME,
        "quick": [{"variant": "dbg", "part": "a"}, {"variant": "dbg", "part": "b"}],
        "thorough": [{"variant": "dbg", "part": "a", "timeout_t": 5400}, {"variant": "rel", "part": "a", "args": {"big": "0"}}, {"variant": "dbg", "part": "b"}],
        "level_text": "Each frame built through the public request API is parsed by an independent CQL v4 codec and must equal the request description (header, flags, length, every body field, values in order) and the spec encoding byte for byte; compressed bodies must decompress to the uncompressed serialization; unrepresentable inputs must be refused. Thorough adds the >4 GiB and 2 GiB-statement cases in child processes.",
        "level_note": "trusted: harness/src/wire (spec codec, self-tested), lz4_flex/snap for the compression primitive; oversize cases are skipped as inconclusive when memory is short",
        "design_ref": "DESIGN.md §4 C09",
    },
    "C10": {
        "level": "fault_enumeration",
        "technique": "fault injection at every byte offset of the response stream by a mock node + history checker (completion, no foreign/partial bytes, recovery) with a quiescence-based hang rule",
        "rule": "cases = (fault kind, requests in flight, responses attempted, cut offset): every byte offset of response streams of 1..3 (quick) / 1..5 (thorough) frames with FIN and RST, plus garbage, wrong direction/version, unknown opcode, unsolicited stream id, huge length then silence, silent stall with keep-alives, kill during request writes, and the benign negative-stream case; "
                "non-trivial = every case; distinct = distinct (fault, in-flight, responses, offset, prepared, idempotent)",
        "assumptions": COMMON_ASSUME + ["a caller that has not returned 10 s after the fault is a hang only if, for 4 further seconds, no event touches its connection or its request id (otherwise inconclusive)"],
        "quick": [{"variant": "dbg"}],
        "thorough": [{"variant": "dbg", "timeout_t": 5400}],
        "level_text": "For every cut offset and corruption kind the check observes that every request in flight completes, that a success carries exactly the complete response the node wrote for that request, that nobody is handed foreign or partial bytes, and that the session serves new requests afterwards. Bounded-progress restatement of 'no caller waits forever'.",
        "level_note": "trusted: mock node; RST may discard bytes already written, so a complete send never obliges a success; real time is used only for pacing and the watchdog",
        "design_ref": "DESIGN.md §4 C10",
    },
    "C16": {
        "level": "exploration",
        "technique": "table-driven interpreter of the documented derive-attribute semantics as reference model; exhaustive enumeration of database-side field lists for a fixed struct family",
        "rule": "cases = (struct of a 53-struct family covering flavor/rename/skip/flatten/default_when_null/allow_missing/forbid_excess_udt_fields/skip_name_checks, UDT or row, database-side list of (name,type), operation, null pattern, truncation): "
                "per struct every subset of fields missing x extra fields x all permutations (<= 6 entries quick, 7 thorough), all null patterns, every truncation length of UDT values, random values; non-trivial = anything but empty struct vs empty list; distinct = distinct (struct, target, list, op, truncation)",
        "assumptions": COMMON_ASSUME + ["combinations the documentation does not decide are not asserted (N1 allow_missing on SerializeValue, N2 repeated names, N3 enforce_order+allow_missing field listed later): only 'no panic' is checked there"],
        "quick": [{"variant": "dbg"}],
        "thorough": [{"variant": "dbg"}],
        "level_text": "The real derive macros (rebuilt from /repo) are run on every database-side ordering / subset / null pattern of a bounded struct family and compared with the documented semantics: accept/reject, emitted bytes at the database's positions, produced fields, value -> bytes -> value identity. Exhaustive over the bounded family.",
        "level_note": "trusted: refmodel/derive.rs (documented semantics, quoted in its header) and its hand-written cell codec",
        "design_ref": "DESIGN.md §4 C16",
    },
    "C11": {
        "level": "exploration",
        "technique": "reference-model monitor over generated inputs (debug overflow traps as extra oracle)",
        "rule": "cases = (shard count, msb_ignore, token) for shard_of and (shard count, shard, port range [lo,hi]) for the port API; "
                "generated as an exhaustive grid for small shard counts (all shards x a boundary family of ranges: ranges shorter than the shard count, ending at 65535, starting at every residue) plus seeded random cases up to 65535 shards; "
                "a case is non-trivial when shard count > 1 (shard_of) / always (ports); distinct = distinct parameter tuples",
        "assumptions": COMMON_ASSUME,
        "quick": [{"variant": "dbg"}, {"variant": "dbg", "part": "b"}],
        "thorough": [{"variant": "dbg"}, {"variant": "rel"}, {"variant": "dbg", "part": "b"}],
        "level_text": "Every generated (shard count, msb, token) and (shard count, shard, port range) is evaluated by the real Sharder and compared with a 10-line model of ScyllaDB's documented algorithm; small shard counts and the boundary range family are enumerated completely, the rest is sampled. Held-on-what-was-explored, not a proof.",
        "level_note": "trusted: the model in harness/src/refmodel/sharding.rs; the *_from_range functions are reached through a pass-through hook; drawn ports are random, so each draw is one sample of the draw distribution; part b (hook-free): a real pool with a custom ShardAwarePortRange against a sharded mock node - every shard-aware connection's source port must lie in the range and the pool must reach every shard",
        "design_ref": "DESIGN.md §4 C11",
    },
}
