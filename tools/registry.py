"""Registry of checks: which workloads (harness runs) decide each property in each tier.

A "run" is one invocation of the harness binary: {variant, part, scale, workers, args, timeouts}.
variants: dbg (debug: overflow checks + debug_assert are extra oracles), rel (release),
tsan / asan (nightly sanitizers), miri.
"""

COMMON_ASSUME = [
    "the harness's reference models and independent wire codec are correct (each self-tested against vectors pinned in the repository's own tests)",
    "rustc, std, tokio and the sanitizer/Miri runtimes behave as documented",
    "the cfg(scylla_verif) hooks are pass-throughs that do not change the behaviour they expose",
]

REGISTRY = {
    "C11": {
        "level": "exploration",
        "technique": "reference-model monitor over generated inputs (debug overflow traps as extra oracle)",
        "rule": "cases = (shard count, msb_ignore, token) for shard_of and (shard count, shard, port range [lo,hi]) for the port API; "
                "generated as an exhaustive grid for small shard counts (all shards x a boundary family of ranges: ranges shorter than the shard count, ending at 65535, starting at every residue) plus seeded random cases up to 65535 shards; "
                "a case is non-trivial when shard count > 1 (shard_of) / always (ports); distinct = distinct parameter tuples",
        "assumptions": COMMON_ASSUME,
        "quick": [{"variant": "dbg"}],
        "thorough": [{"variant": "dbg"}, {"variant": "rel"}],
        "level_text": "Every generated (shard count, msb, token) and (shard count, shard, port range) is evaluated by the real Sharder and compared with a 10-line model of ScyllaDB's documented algorithm; small shard counts and the boundary range family are enumerated completely, the rest is sampled. Held-on-what-was-explored, not a proof.",
        "level_note": "trusted: the model in harness/src/refmodel/sharding.rs; the *_from_range functions are reached through a pass-through hook; drawn ports are random, so each draw is one sample of the draw distribution",
        "design_ref": "DESIGN.md §4 C11",
    },
}
