#!/bin/bash
# Runs every registered check in the given tier (default quick), sequentially; prints one line per check.
cd "$(dirname "$0")/.."
TIER="${1:-quick}"; mkdir -p scratch
for p in $(python3 -c "import json;print(' '.join(c['property_id'] for c in json.load(open('MANIFEST.json'))['checks']))"); do
  /usr/bin/time -f "%es" ./check "$p" --tier "$TIER" 2> "scratch/runall-$p.err" | tail -3
  echo "   exit=${PIPESTATUS[0]} $(tail -1 scratch/runall-$p.err)"
done
