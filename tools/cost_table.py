#!/usr/bin/env python3
"""Development tool: prints the DESIGN.md §7 cost table from two run_all logs.
   tools/cost_table.py <quick.log> <thorough.log>"""
import re, sys
sys.path.insert(0, __file__.rsplit("/", 1)[0])
from registry import REGISTRY

def walls(path):
    w = {}
    for line in open(path, errors="replace"):
        m = re.search(r"property=(C\d+) tier=\w+ .*wall=([\d.]+)s", line)
        if m:
            w[m.group(1)] = float(m.group(2))
    return w

def fmt(s):
    if s is None:
        return "n/a"
    return f"{s:.0f} s" if s < 120 else f"{s/60:.0f} min"

def variants(runs):
    out = []
    for r in runs:
        v = r.get("variant", "dbg") + (f":{r['part']}" if r.get("part") else "")
        if r.get("optional"):
            v += "*"
        out.append(v)
    return ", ".join(out)

q, t = walls(sys.argv[1]), walls(sys.argv[2])
print("| | quick | thorough | runs in quick | runs in thorough (`*` = optional sanitizer / Miri run) |")
print("|---|---|---|---|---|")
for p in sorted(REGISTRY):
    r = REGISTRY[p]
    print(f"| {p} | {fmt(q.get(p))} | {fmt(t.get(p))} | {variants(r['quick'])} | {variants(r.get('thorough', r['quick']))} |")
print(f"\nwhole tier: quick {fmt(sum(q.values()))}, thorough {fmt(sum(t.values()))} (sequential, one property after the other)")
