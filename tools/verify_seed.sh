#!/bin/bash
# Development tool: confirms a seeded change independently (demo passes without / fails with the
# patch; the repository's offline unit tests are unaffected), stores it under /verif/seeded/<name>/
# and runs the property's check against it (scratch copy; /repo itself is not touched).
#   tools/verify_seed.sh <Cxx> <name> <seed-dir> <crate> <demo test filter> [--tier quick|thorough]
set -u
PROP="$1"; NAME="$2"; SEED="$3"; CRATE="$4"; FILTER="$5"; shift 5
TIER=quick; [ "${1:-}" = "--tier" ] && TIER="$2"
WT=/tmp/seedverify; export CARGO_TARGET_DIR=/var/tmp/seedverify-target CARGO_NET_OFFLINE=true
HEAD=$(git -C /repo rev-parse HEAD)
if [ ! -d "$WT" ]; then git -C /repo worktree add -q --detach "$WT" "$HEAD" || exit 2; fi
cd "$WT" || exit 2
git checkout -q -- . ; git clean -fdq -e Cargo.lock ; git checkout -q --detach "$HEAD"; cp /repo/Cargo.lock .
run_suite() { # prints sorted list of failed tests for the touched crates
  for c in "$@"; do cargo test -p "$c" --lib --offline 2>&1 | grep -E "^test .* \.\.\. FAILED" | sed "s/^/$c /"; done | sort
}
CRATES="$CRATE"; grep -q "scylla-cql-core/" "$SEED/patch.diff" && CRATES="$CRATES scylla-cql-core"; grep -q "scylla-cql/" "$SEED/patch.diff" && CRATES="$CRATES scylla-cql"
CRATES=$(echo $CRATES | tr ' ' '\n' | sort -u | tr '\n' ' ')
BASE=/var/tmp/seedverify-baseline-$(echo $CRATES | tr ' ' '_').txt
[ -f "$BASE" ] || run_suite $CRATES > "$BASE"
# FILTER "test:<name>" selects an integration-test target instead of a --lib test filter
if [ "${FILTER#test:}" != "$FILTER" ]; then DEMO_ARGS=(--test "${FILTER#test:}"); else DEMO_ARGS=(--lib "$FILTER"); fi
git apply "$SEED/demo.diff" || { echo "VERIFY-ERROR: demo.diff does not apply"; exit 2; }
cargo test -p "$CRATE" --offline "${DEMO_ARGS[@]}" > /var/tmp/seedverify-demo-without.log 2>&1; RC_WITHOUT=$?
git apply "$SEED/patch.diff" || { echo "VERIFY-ERROR: patch.diff does not apply"; exit 2; }
cargo test -p "$CRATE" --offline "${DEMO_ARGS[@]}" > /var/tmp/seedverify-demo-with.log 2>&1; RC_WITH=$?
git checkout -q -- . ; git clean -fdq -e Cargo.lock ; git apply "$SEED/patch.diff"
run_suite $CRATES > /var/tmp/seedverify-suite-with.txt
# the patch must not make any test fail that passes without it (tests that fail without it - they need a
# live cluster - may fail or not)
SUITE_SAME=no; [ -z "$(comm -13 "$BASE" /var/tmp/seedverify-suite-with.txt)" ] && SUITE_SAME=yes
if [ $SUITE_SAME = no ]; then
  # loopback tests can collide with other jobs on this machine (AddrInUse): a test only counts as
  # broken by the patch if it fails in two consecutive runs
  run_suite $CRATES > /var/tmp/seedverify-suite-with2.txt
  comm -12 /var/tmp/seedverify-suite-with.txt /var/tmp/seedverify-suite-with2.txt > /var/tmp/seedverify-suite-both.txt
  [ -z "$(comm -13 "$BASE" /var/tmp/seedverify-suite-both.txt)" ] && SUITE_SAME=yes
  [ $SUITE_SAME = no ] && { echo "tests failing only with the patch:"; comm -13 "$BASE" /var/tmp/seedverify-suite-both.txt; }
fi
git checkout -q -- . ; git clean -fdq -e Cargo.lock
echo "demo without patch: exit $RC_WITHOUT ($(grep -E '^test result' /var/tmp/seedverify-demo-without.log | tail -1))"
echo "demo with patch:    exit $RC_WITH ($(grep -E '^test result' /var/tmp/seedverify-demo-with.log | tail -1))"
echo "existing unit tests unaffected by the patch ($CRATES): $SUITE_SAME"
OK=no; [ $RC_WITHOUT = 0 ] && [ $RC_WITH != 0 ] && [ $SUITE_SAME = yes ] && OK=yes
echo "seed confirmed: $OK"
[ $OK = yes ] || exit 1
D=/verif/seeded/$NAME; mkdir -p "$D"; cp "$SEED/patch.diff" "$SEED/demo.diff" "$D/"; cp "$SEED/README.md" "$D/README.md"
/verif/tools/selftest.sh "$PROP" "$D/patch.diff" --tier "$TIER" --scratch /var/tmp/vmut-seed --keep > /var/tmp/seedverify-selftest.log 2>&1; ST=$?
tail -12 /var/tmp/seedverify-selftest.log
RES=missed; [ $ST = 0 ] && RES=caught; [ $ST = 2 ] && RES=error
SIGS=$(grep -E "^  signature=" /var/tmp/seedverify-selftest.log | sed 's/^  signature=//' | sort -u | head -8 | python3 -c "import sys,json;print(json.dumps([l.strip() for l in sys.stdin]))")
python3 - "$D" "$PROP" "$NAME" "$CRATE" "$FILTER" "$TIER" "$RES" "$SIGS" <<'PY'
import json,sys
d,prop,name,crate,flt,tier,res,sigs=sys.argv[1:9]
meta={"property":prop,"name":name,"breaks":open(d+"/README.md").read().split("\n")[0].lstrip("# "),
 "needs_to_manifest":"see README.md (written by the independent sub-agent that produced the change)",
 "confirmed":{"demo_cmd":f"cargo test -p {crate} --lib --offline {flt}","demo_without_patch":"pass","demo_with_patch":"fail","existing_unit_tests_unaffected":True},
 "check_result":{"cmd":f"tools/selftest.sh {prop} seeded/{name}/patch.diff --tier {tier}","tier":tier,"result":res,"signatures":json.loads(sigs)}}
json.dump(meta,open(d+"/meta.json","w"),indent=1)
PY
echo "check result: $RES"
