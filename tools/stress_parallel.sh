#!/bin/bash
# Development tool: N concurrent passes over all checks (quick tier) at different seeds, each with its own
# state directory, to look for verdicts that depend on machine load. Prints every non-OK line.
#   tools/stress_parallel.sh [N=3] [first_seed=11]
N="${1:-3}"; S0="${2:-11}"
cd "$(dirname "$0")/.."
# a snapshot of the harness, so that edits made meanwhile do not break the builds
rsync -rlp --checksum --delete --exclude 'target-*' --exclude '.build-*' harness/ /var/tmp/stress-harness/
export VERIF_HARNESS_DIR=/var/tmp/stress-harness VERIF_DEV=1
for k in $(seq 1 "$N"); do
  ( export VERIF_STATE_DIR=/var/tmp/stress-$k VERIF_SEED=$((S0 + k)); mkdir -p $VERIF_STATE_DIR/evidence $VERIF_STATE_DIR/replays
    for p in $(python3 -c "import json;print(' '.join(c['property_id'] for c in json.load(open('MANIFEST.json'))['checks']))"); do
      ./check "$p" --tier quick > $VERIF_STATE_DIR/$p.out 2> $VERIF_STATE_DIR/$p.err; echo "$p exit=$? $(grep -E '^(OK|VIOLATION)' $VERIF_STATE_DIR/$p.out | head -2 | tr '\n' ' ')"
    done > /var/tmp/stress-$k.log 2>&1 ) &
done
wait
grep -H -v "exit=0 OK" /var/tmp/stress-*.log || echo "all OK"
grep -h "INCONCLUSIVE" /var/tmp/stress-*/C*.err | sort | uniq -c | head -20
