#!/bin/bash
# Builds the harness (debug + release) offline against /repo's working tree with hooks on.
set -e
cd "$(dirname "$0")/../harness"
export CARGO_NET_OFFLINE=true
export RUSTFLAGS="--cfg scylla_verif"
[ -f Cargo.lock ] || cp /repo/Cargo.lock .
cargo build --offline 2>&1 | tail -3
cargo build --offline --release 2>&1 | tail -3
