// placeholder
