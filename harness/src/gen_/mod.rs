//! Seeded generators shared by checks.
