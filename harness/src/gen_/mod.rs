//! Seeded generators shared by checks.
pub mod topology;
pub mod cqlgen;
