//! Seeded generator of CQL (type, value) pairs over the model of `refmodel::cqlenc`,
//! with boundary pools (DESIGN §4 C01).
use crate::fw::Rng;
use crate::refmodel::cqlenc::{self as m, MType, MValue};

#[derive(Clone, Copy, Debug)]
pub struct TypeOpts {
    pub max_depth: usize,
    /// allow `counter` (only legal as a whole column)
    pub top_level: bool,
}

fn gen_native(rng: &mut Rng, counter_ok: bool) -> MType {
    loop {
        let t = rng.pick(&m::NATIVES).clone();
        if t == MType::Counter && !counter_ok {
            continue;
        }
        return t;
    }
}

/// Element types CQL accepts as set elements / map keys (no duration: it has no order).
fn key_ok(t: &MType) -> bool {
    match t {
        MType::Duration | MType::Counter => false,
        MType::List(e) | MType::Set(e) | MType::Vector(e, _) => key_ok(e),
        MType::Map(k, v) => key_ok(k) && key_ok(v),
        MType::Tuple(fs) => fs.iter().all(key_ok),
        MType::Udt { fields, .. } => fields.iter().all(|f| key_ok(&f.1)),
        _ => true,
    }
}

const FIELD_NAMES: [&str; 8] = ["a", "b_2", "Quoted Name", "żółć", "f", "日本", "x0", "fieldwithaverylongnamefieldwithaverylongname"];

pub fn gen_type(rng: &mut Rng, o: TypeOpts) -> MType {
    gen_type_at(rng, o.max_depth, o.top_level)
}

fn gen_type_at(rng: &mut Rng, depth_left: usize, top: bool) -> MType {
    if depth_left == 0 || rng.chance(if top { 1 } else { 2 }, 5) {
        return gen_native(rng, top);
    }
    let d = depth_left - 1;
    match rng.below(6) {
        0 => MType::List(Box::new(gen_type_at(rng, d, false))),
        1 => loop {
            let e = gen_type_at(rng, d, false);
            if key_ok(&e) {
                return MType::Set(Box::new(e));
            }
        },
        2 => loop {
            let k = gen_type_at(rng, d.min(1), false);
            if key_ok(&k) {
                return MType::Map(Box::new(k), Box::new(gen_type_at(rng, d, false)));
            }
        },
        3 => {
            let n = match rng.below(10) {
                0 => 1,
                1 => rng.usize(6, 16),
                2 => rng.usize(17, 20),
                _ => rng.usize(2, 5),
            };
            MType::Tuple((0..n).map(|i| gen_type_at(rng, if i < 3 { d } else { 0 }, false)).collect())
        }
        4 => {
            let n = match rng.below(8) {
                0 => 1,
                1 => rng.usize(6, 12),
                _ => rng.usize(2, 5),
            };
            let mut names: Vec<String> = Vec::new();
            for i in 0..n {
                let base = FIELD_NAMES[(rng.below(FIELD_NAMES.len() as u64) as usize + i) % FIELD_NAMES.len()];
                names.push(format!("{base}{i}"));
            }
            MType::Udt {
                keyspace: if rng.chance(1, 4) { "Ks ü".into() } else { "ks".into() },
                name: format!("t{}", rng.below(100)),
                fields: names.into_iter().enumerate().map(|(i, nm)| (nm, gen_type_at(rng, if i < 3 { d } else { 0 }, false))).collect(),
            }
        }
        _ => {
            let e = gen_type_at(rng, d, false);
            let dim = match rng.below(8) {
                0 => 1,
                1 => rng.usize(5, 40) as u16,
                _ => rng.usize(2, 4) as u16,
            };
            MType::Vector(Box::new(e), dim)
        }
    }
}

// ------------------------------------------------------------------ scalar pools

fn pick_i64(rng: &mut Rng, pool: &[i64], lo: i64, hi: i64) -> i64 {
    if rng.chance(2, 3) { *rng.pick(pool) } else { rng.range(lo, hi) }
}

const F32_POOL: [u32; 16] = [
    0x0000_0000, // +0
    0x8000_0000, // -0
    0x3f80_0000, // 1.0
    0xbf80_0000, // -1.0
    0x7f80_0000, // +inf
    0xff80_0000, // -inf
    0x7fc0_0000, // canonical quiet NaN
    0x7fc0_0001, // quiet NaN with payload
    0xffc1_2345, // negative quiet NaN with payload
    0x7f80_0001, // signalling NaN
    0x7fbf_ffff, // signalling NaN, max payload
    0x0000_0001, // smallest subnormal
    0x007f_ffff, // largest subnormal
    0x0080_0000, // smallest normal
    0x7f7f_ffff, // max
    0xff7f_ffff, // min
];
const F64_POOL: [u64; 16] = [
    0x0000_0000_0000_0000,
    0x8000_0000_0000_0000,
    0x3ff0_0000_0000_0000,
    0xbff0_0000_0000_0000,
    0x7ff0_0000_0000_0000,
    0xfff0_0000_0000_0000,
    0x7ff8_0000_0000_0000,
    0x7ff8_0000_0000_0001,
    0xfff8_1234_5678_9abc,
    0x7ff0_0000_0000_0001,
    0x7ff7_ffff_ffff_ffff,
    0x0000_0000_0000_0001,
    0x000f_ffff_ffff_ffff,
    0x0010_0000_0000_0000,
    0x7fef_ffff_ffff_ffff,
    0xffef_ffff_ffff_ffff,
];

const TEXT_POOL: [&str; 12] = [
    "",
    "a",
    " ",
    "\0",
    "zażółć gęślą jaźń",
    "日本語のテキスト",
    "𝄞 clef 😀",
    "\u{7f}\u{80}\u{7ff}\u{800}\u{ffff}\u{10000}\u{10ffff}",
    "line\nbreak\ttab\r",
    "'quoted' \"double\" \\ back",
    "ASCII only text with some length to it, 0123456789",
    "\u{feff}bom",
];
const ASCII_POOL: [&str; 7] = ["", "a", " ", "\0", "\u{7f}", "plain ascii 0123456789 ~!@#$%^&*()", "tab\tnl\ncr\r"];

fn text_of_len(rng: &mut Rng, n: usize, ascii: bool) -> String {
    let mut s = String::new();
    while s.len() < n {
        if ascii || rng.chance(3, 4) {
            s.push((b' ' + rng.below(95) as u8) as char);
        } else {
            let c = match rng.below(3) {
                0 => rng.range(0x80, 0x7ff) as u32,
                1 => rng.range(0x800, 0xd7ff) as u32,
                _ => rng.range(0x10000, 0x10ffff) as u32,
            };
            if let Some(c) = char::from_u32(c) {
                if s.len() + c.len_utf8() <= n {
                    s.push(c);
                } else {
                    s.push('x');
                }
            }
        }
    }
    s
}

/// byte lengths that cross the 1/2/3-byte unsigned-vint boundaries and the usual suspects
const LEN_POOL: [usize; 12] = [0, 1, 2, 63, 64, 126, 127, 128, 129, 255, 256, 300];

fn gen_len(rng: &mut Rng, big_ok: bool) -> usize {
    if big_ok && rng.chance(1, 150) {
        return *rng.pick(&[16383usize, 16384, 16385, 70000]);
    }
    if rng.chance(1, 2) { *rng.pick(&LEN_POOL) } else { rng.usize(0, 40) }
}

/// two's-complement big-endian numbers: minimal and padded with redundant sign bytes
pub fn gen_varint_bytes(rng: &mut Rng, allow_redundant: bool) -> Vec<u8> {
    let mut raw: Vec<u8> = match rng.below(8) {
        0 => m::varint_from_i128(*rng.pick(&[0i128, 1, -1, 127, 128, -128, -129, 255, 256, 32767, 32768, -32768, -32769])),
        1 => m::varint_from_i128(*rng.pick(&[i64::MAX as i128, i64::MIN as i128, i64::MAX as i128 + 1, i64::MIN as i128 - 1, i128::MAX, i128::MIN, u64::MAX as i128])),
        2 => m::varint_from_i128(rng.u64() as i64 as i128),
        3 => {
            // wider than 128 bits
            let n = rng.usize(17, 40);
            m::varint_normalize(&rng.bytes(n))
        }
        4 => {
            // 0x80 00 .. 00 / 0x7f ff .. ff of arbitrary width
            let n = rng.usize(1, 20);
            let mut v = vec![if rng.bool() { 0x00 } else { 0xff }; n];
            v[0] = if v[0] == 0 { 0x80 } else { 0x7f };
            v
        }
        _ => {
            let n = rng.usize(1, 12);
            m::varint_normalize(&rng.bytes(n))
        }
    };
    if allow_redundant && rng.chance(1, 4) {
        let fill = if raw[0] & 0x80 != 0 { 0xff } else { 0x00 };
        let k = *rng.pick(&[1usize, 1, 2, 7, 130]);
        let mut v = vec![fill; k];
        v.extend_from_slice(&raw);
        raw = v;
    }
    raw
}

pub fn gen_duration(rng: &mut Rng) -> MValue {
    // magnitudes whose zig-zag images need 1..9 vint bytes; the three parts of a CQL
    // duration share one sign (protocol spec: "all positive or all negative")
    const MAG32: [i64; 14] = [0, 1, 63, 64, 8191, 8192, 1048575, 1048576, 134217727, 134217728, 2147483646, 2147483647, 12, 365];
    const MAG64: [i64; 22] = [
        0,
        1,
        63,
        64,
        8191,
        8192,
        (1 << 20) - 1,
        1 << 20,
        (1 << 27) - 1,
        1 << 27,
        (1 << 34) - 1,
        1 << 34,
        (1 << 41) - 1,
        1 << 41,
        (1 << 48) - 1,
        1 << 48,
        (1 << 55) - 1,
        1 << 55,
        (1 << 62) - 1,
        1 << 62,
        i64::MAX - 1,
        i64::MAX,
    ];
    let neg = rng.bool();
    let m32 = |rng: &mut Rng| if rng.chance(2, 3) { *rng.pick(&MAG32) } else { rng.range(0, i32::MAX as i64) };
    let mo = m32(rng);
    let d = m32(rng);
    let n = if rng.chance(2, 3) { *rng.pick(&MAG64) } else { (rng.u64() >> rng.below(64)) as i64 & i64::MAX };
    if neg {
        // the most negative values exist only on the negative side
        let mo = if rng.chance(1, 12) { i32::MIN as i64 } else { -mo };
        let d = if rng.chance(1, 12) { i32::MIN as i64 } else { -d };
        let n = if rng.chance(1, 12) { i64::MIN } else { -n };
        MValue::Duration { months: mo as i32, days: d as i32, nanos: n }
    } else {
        MValue::Duration { months: mo as i32, days: d as i32, nanos: n }
    }
}

/// A real (non-null, non-empty-marker) value of a native type.
pub fn gen_native_value(rng: &mut Rng, t: &MType, redundant_varints: bool) -> MValue {
    match t {
        MType::Ascii => {
            if rng.chance(1, 2) {
                MValue::Ascii((*rng.pick(&ASCII_POOL)).to_string())
            } else {
                let n = gen_len(rng, true);
                MValue::Ascii(text_of_len(rng, n, true))
            }
        }
        MType::Text => {
            if rng.chance(1, 2) {
                MValue::Text((*rng.pick(&TEXT_POOL)).to_string())
            } else {
                let n = gen_len(rng, true);
                MValue::Text(text_of_len(rng, n, false))
            }
        }
        MType::Blob => {
            let n = gen_len(rng, true);
            MValue::Blob(match rng.below(4) {
                0 => vec![0u8; n],
                1 => vec![0xffu8; n],
                _ => rng.bytes(n),
            })
        }
        MType::Boolean => MValue::Boolean(rng.bool()),
        MType::TinyInt => MValue::TinyInt(pick_i64(rng, &[i8::MIN as i64, -127, -1, 0, 1, 126, 127], -128, 127) as i8),
        MType::SmallInt => MValue::SmallInt(pick_i64(rng, &[i16::MIN as i64, -32767, -256, -129, -128, -1, 0, 1, 127, 128, 255, 256, 32766, 32767], -32768, 32767) as i16),
        MType::Int => MValue::Int(pick_i64(
            rng,
            &[i32::MIN as i64, i32::MIN as i64 + 1, -65536, -32769, -1, 0, 1, 255, 256, 65535, 65536, 16777216, i32::MAX as i64 - 1, i32::MAX as i64],
            i32::MIN as i64,
            i32::MAX as i64,
        ) as i32),
        MType::BigInt => MValue::BigInt(rng.i64_boundary()),
        MType::Counter => MValue::Counter(rng.i64_boundary()),
        MType::Timestamp => MValue::Timestamp(if rng.chance(1, 2) {
            *rng.pick(&[i64::MIN, i64::MIN + 1, -1, 0, 1, 1_700_000_000_000, 253_402_300_799_999, -62_135_596_800_000, -62_135_596_800_001, 253_402_300_800_000, i64::MAX - 1, i64::MAX])
        } else {
            rng.i64_boundary()
        }),
        MType::Time => MValue::Time(pick_i64(rng, &[0, 1, 999, 1_000, 999_999_999, 1_000_000_000, 43_200_000_000_000, 86_399_999_999_998, 86_399_999_999_999, 3_600_000_000_000], 0, 86_399_999_999_999)),
        MType::Date => MValue::Date(pick_i64(
            rng,
            &[0, 1, (1i64 << 31) - 1, 1 << 31, (1 << 31) + 1, (1 << 31) - 719_162, (1 << 31) + 2_932_896, u32::MAX as i64 - 1, u32::MAX as i64, (1 << 31) + 19_000],
            0,
            u32::MAX as i64,
        ) as u32),
        MType::Float => MValue::Float(if rng.chance(1, 2) { *rng.pick(&F32_POOL) } else { rng.u32() }),
        MType::Double => MValue::Double(if rng.chance(1, 2) { *rng.pick(&F64_POOL) } else { rng.u64() }),
        MType::Uuid => MValue::Uuid(match rng.below(6) {
            0 => [0u8; 16],
            1 => [0xffu8; 16],
            _ => rng.bytes(16).try_into().unwrap(),
        }),
        MType::Timeuuid => MValue::Timeuuid(match rng.below(6) {
            0 => [0u8; 16],
            1 => [0xffu8; 16],
            _ => {
                let mut b: [u8; 16] = rng.bytes(16).try_into().unwrap();
                b[6] = (b[6] & 0x0f) | 0x10; // version 1
                b[8] = (b[8] & 0x3f) | 0x80;
                b
            }
        }),
        MType::Inet => MValue::Inet(match rng.below(8) {
            0 => vec![0, 0, 0, 0],
            1 => vec![127, 0, 0, 1],
            2 => vec![255, 255, 255, 255],
            3 => vec![0u8; 16],
            4 => {
                // ::ffff:1.2.3.4 (v4-mapped v6 must stay 16 bytes)
                let mut v = vec![0u8; 16];
                v[10] = 0xff;
                v[11] = 0xff;
                v[12..].copy_from_slice(&[1, 2, 3, 4]);
                v
            }
            5 => {
                let mut v = vec![0u8; 16];
                v[15] = 1;
                v
            }
            6 => rng.bytes(4),
            _ => rng.bytes(16),
        }),
        MType::Varint => MValue::Varint(gen_varint_bytes(rng, redundant_varints)),
        MType::Decimal => {
            let scale = pick_i64(rng, &[0, 1, -1, 3, -3, 38, 1000, -1000, i32::MAX as i64, i32::MIN as i64, i32::MIN as i64 + 1], -100, 100) as i32;
            MValue::Decimal(gen_varint_bytes(rng, redundant_varints), scale)
        }
        MType::Duration => gen_duration(rng),
        _ => unreachable!("not a native type"),
    }
}

// ------------------------------------------------------------------ values

#[derive(Clone, Copy, Debug)]
pub struct ValueOpts {
    /// varints / decimals with redundant leading sign bytes
    pub redundant_varints: bool,
    /// budget of leaf values (keeps nested collections small)
    pub budget: usize,
    /// tuples with no field at all (zero-length contents)
    pub zero_field_tuples: bool,
}

#[derive(Clone, Copy, PartialEq, Eq, Debug)]
pub enum Pos {
    /// a bound value: null / unset / empty possible
    Top,
    /// tuple or UDT field: null / empty possible
    Field,
    /// list/set element, map key or value: empty possible, no null
    Element,
    /// vector element: a real value only
    VectorElement,
}

pub fn gen_value(rng: &mut Rng, t: &MType, pos: Pos, o: &ValueOpts) -> MValue {
    let mut budget = o.budget;
    gen_value_at(rng, t, pos, o, &mut budget)
}

fn coll_len(rng: &mut Rng, budget: &mut usize, leaf: bool) -> usize {
    let n = if leaf && *budget >= 300 && rng.chance(1, 6) {
        *rng.pick(&[127usize, 128, 129, 255, 256, 300])
    } else {
        match rng.below(6) {
            0 => 0,
            1 => 1,
            _ => rng.usize(2, 5),
        }
    };
    let n = n.min(*budget);
    *budget -= n;
    n
}

fn dedupe(t: &MType, xs: Vec<MValue>) -> Vec<MValue> {
    // set elements / map keys are distinct *values*: numerically equal varints count once
    let mut seen = std::collections::HashSet::new();
    xs.into_iter().filter(|x| seen.insert(m::encode_cell(t, &m::pad(t, &m::norm_numbers(x))))).collect()
}

/// Sets and map keys of varints: every third one holds a pair 2^(8k-1) / -2^(8k-1), whose minimal
/// encodings are `00 80 00..` and `80 00..` (they differ only by the leading zero byte, so carriers
/// that compare or hash after stripping leading zeros must keep that one).
fn sign_twins(rng: &mut Rng, t: &MType, xs: &mut Vec<MValue>) {
    if *t != MType::Varint || !rng.chance(1, 3) {
        return;
    }
    let k = *rng.pick(&[1usize, 1, 2, 2, 3, 4, 8, 16, 17]);
    let mut neg = vec![0u8; k];
    neg[0] = 0x80;
    if k > 1 && rng.chance(1, 3) {
        neg[k - 1] = rng.below(256) as u8;
    }
    let mut pos = vec![0u8];
    pos.extend_from_slice(&neg);
    let at = rng.usize(0, xs.len());
    xs.insert(at, MValue::Varint(neg));
    let at = rng.usize(0, xs.len());
    xs.insert(at, MValue::Varint(pos));
}

fn gen_value_at(rng: &mut Rng, t: &MType, pos: Pos, o: &ValueOpts, budget: &mut usize) -> MValue {
    match pos {
        Pos::Top => {
            if rng.chance(1, 25) {
                return MValue::Null;
            }
            if rng.chance(1, 40) {
                return MValue::Unset;
            }
        }
        Pos::Field => {
            if rng.chance(1, 5) {
                return MValue::Null;
            }
        }
        _ => {}
    }
    if pos != Pos::VectorElement && t.emptiable() && rng.chance(1, 12) {
        return MValue::Empty;
    }
    if t.is_native() {
        *budget = budget.saturating_sub(1);
        return gen_native_value(rng, t, o.redundant_varints);
    }
    match t {
        MType::List(e) => {
            let n = coll_len(rng, budget, e.is_native());
            MValue::List((0..n).map(|_| gen_value_at(rng, e, Pos::Element, o, budget)).collect())
        }
        MType::Set(e) => {
            let n = coll_len(rng, budget, e.is_native());
            let mut xs: Vec<MValue> = (0..n).map(|_| gen_value_at(rng, e, Pos::Element, o, budget)).collect();
            sign_twins(rng, e, &mut xs);
            MValue::Set(dedupe(e, xs))
        }
        MType::Map(kt, vt) => {
            let n = coll_len(rng, budget, kt.is_native() && vt.is_native());
            let mut ks: Vec<MValue> = (0..n).map(|_| gen_value_at(rng, kt, Pos::Element, o, budget)).collect();
            sign_twins(rng, kt, &mut ks);
            let ks = dedupe(kt, ks);
            MValue::Map(ks.into_iter().map(|k| (k, gen_value_at(rng, vt, Pos::Element, o, budget))).collect())
        }
        MType::Tuple(ts) => {
            let n = given_fields(rng, ts.len(), o.zero_field_tuples);
            MValue::Tuple(ts[..n].iter().map(|ft| gen_value_at(rng, ft, Pos::Field, o, budget)).collect())
        }
        MType::Udt { fields, .. } => {
            // (a UDT value always names at least one field)
            let n = given_fields(rng, fields.len(), false);
            MValue::Udt(fields[..n].iter().map(|(_, ft)| gen_value_at(rng, ft, Pos::Field, o, budget)).collect())
        }
        MType::Vector(e, d) => MValue::Vector((0..*d).map(|_| gen_value_at(rng, e, Pos::VectorElement, o, budget)).collect()),
        _ => unreachable!(),
    }
}

fn given_fields(rng: &mut Rng, n: usize, zero_ok: bool) -> usize {
    if rng.chance(3, 4) {
        return n;
    }
    let lo = if zero_ok { 0 } else { 1 };
    rng.usize(lo.min(n), n)
}
