//! Generated cluster topologies (token ring + datacenter/rack placement) and replication
//! strategies, shared by C04 (replica sets) and C05 (load-balancing plans).
use crate::fw::Rng;
use crate::refmodel::replication::MNode;
use scylla::cluster::metadata::Strategy;
use scylla::routing::Token;
use scylla::verif_hooks::{KeyspaceDesc, PeerDesc};
use serde_json::{Value, json};
use std::collections::{BTreeMap, BTreeSet, HashMap};
use std::net::{IpAddr, Ipv4Addr, SocketAddr};
use uuid::Uuid;

pub const TABLE: &str = "t";
/// A datacenter name that no generated node ever lives in.
pub const GHOST_DC: &str = "ghost";

#[derive(Clone, Debug)]
pub struct Topology {
    pub nodes: Vec<MNode>,
}

#[derive(Clone, Debug, PartialEq, Eq)]
pub enum St {
    Simple(usize),
    Nts(BTreeMap<String, usize>),
    Local,
    Other,
}

pub fn host_id(i: usize) -> Uuid {
    Uuid::from_u128(0x5c11_0000_0000_0000_0000_0000_0000_0000 + i as u128 + 1)
}

pub fn index_of(id: Uuid) -> usize {
    (id.as_u128() - 0x5c11_0000_0000_0000_0000_0000_0000_0000 - 1) as usize
}

/// Nothing listens on these loopback addresses (connection attempts are refused at once).
pub fn address(i: usize) -> SocketAddr {
    SocketAddr::new(IpAddr::V4(Ipv4Addr::new(127, 250, (i / 200) as u8, (i % 200) as u8 + 1)), 19042)
}

/// The value a `Token` really carries (i64::MIN is normalised to i64::MAX, as the servers do).
pub fn norm(t: i64) -> i64 {
    Token::new(t).value()
}

impl Topology {
    pub fn peers(&self) -> Vec<PeerDesc> {
        self.nodes
            .iter()
            .enumerate()
            .map(|(i, n)| PeerDesc {
                host_id: host_id(i),
                address: address(i),
                datacenter: n.dc.clone(),
                rack: n.rack.clone(),
                tokens: n.tokens.clone(),
            })
            .collect()
    }

    /// Datacenters that own at least one ring entry, sorted.
    pub fn ring_dcs(&self) -> Vec<String> {
        let s: BTreeSet<String> = self.nodes.iter().filter(|n| !n.tokens.is_empty()).filter_map(|n| n.dc.clone()).collect();
        s.into_iter().collect()
    }

    pub fn ring_tokens(&self) -> Vec<i64> {
        let mut v: Vec<i64> = self.nodes.iter().flat_map(|n| n.tokens.iter().copied()).collect();
        v.sort();
        v
    }

    pub fn has_duplicate_tokens(&self) -> bool {
        self.ring_tokens().windows(2).any(|w| w[0] == w[1])
    }

    pub fn nodes_in_dc(&self, dc: &str) -> usize {
        self.nodes.iter().filter(|n| !n.tokens.is_empty() && n.dc.as_deref() == Some(dc)).count()
    }

    pub fn racks_in_dc(&self, dc: &str) -> usize {
        let s: BTreeSet<&Option<String>> =
            self.nodes.iter().filter(|n| !n.tokens.is_empty() && n.dc.as_deref() == Some(dc)).map(|n| &n.rack).collect();
        s.len()
    }

    pub fn ring_node_count(&self) -> usize {
        self.nodes.iter().filter(|n| !n.tokens.is_empty()).count()
    }

    pub fn to_json(&self) -> Value {
        json!(self.nodes.iter().map(|n| json!({"dc": n.dc, "rack": n.rack, "tokens": n.tokens})).collect::<Vec<_>>())
    }

    pub fn from_json(v: &Value) -> Option<Topology> {
        let mut nodes = Vec::new();
        for n in v.as_array()? {
            nodes.push(MNode {
                dc: n["dc"].as_str().map(str::to_owned),
                rack: n["rack"].as_str().map(str::to_owned),
                tokens: n["tokens"].as_array()?.iter().filter_map(|t| t.as_i64()).map(norm).collect(),
            });
        }
        Some(Topology { nodes })
    }
}

impl St {
    pub fn strategy(&self) -> Strategy {
        match self {
            St::Simple(rf) => Strategy::SimpleStrategy { replication_factor: *rf },
            St::Nts(m) => Strategy::NetworkTopologyStrategy {
                datacenter_repfactors: m.iter().map(|(k, v)| (k.clone(), *v)).collect::<HashMap<_, _>>(),
            },
            St::Local => Strategy::LocalStrategy,
            St::Other => Strategy::Other {
                name: "org.example.EverywhereStrategy".to_owned(),
                data: HashMap::from([("replication_factor".to_owned(), "3".to_owned())]),
            },
        }
    }

    pub fn to_json(&self) -> Value {
        match self {
            St::Simple(rf) => json!({"kind": "simple", "rf": rf}),
            St::Nts(m) => json!({"kind": "nts", "rfs": m}),
            St::Local => json!({"kind": "local"}),
            St::Other => json!({"kind": "other"}),
        }
    }

    pub fn from_json(v: &Value) -> Option<St> {
        Some(match v["kind"].as_str()? {
            "simple" => St::Simple(v["rf"].as_u64()? as usize),
            "nts" => St::Nts(v["rfs"].as_object()?.iter().map(|(k, x)| (k.clone(), x.as_u64().unwrap_or(0) as usize)).collect()),
            "local" => St::Local,
            "other" => St::Other,
            _ => return None,
        })
    }
}

pub fn keyspace_name(k: usize) -> String {
    format!("ks{k}")
}

pub fn keyspaces(strategies: &[St], listed: &[bool]) -> Vec<KeyspaceDesc> {
    strategies
        .iter()
        .enumerate()
        .filter(|(k, _)| listed[*k])
        .map(|(k, s)| KeyspaceDesc { name: keyspace_name(k), strategy: s.strategy(), tablet_based: false, tables: vec![TABLE.to_owned()] })
        .collect()
}

const DC_NAMES: [&str; 3] = ["eu", "us", "ap"];

/// `allow_dups`: with a small probability one token of a node is copied to a node of another
/// datacenter (servers never produce such rings; tie order is unspecified).
pub fn gen_topology(rng: &mut Rng, max_nodes: usize, allow_dups: bool) -> Topology {
    let n = match rng.below(40) {
        0 => 0,
        1 | 2 => 1,
        3 | 4 => 2,
        5..=7 => max_nodes,
        _ => rng.usize(1, max_nodes),
    };
    let ndc = rng.usize(1, 3);
    let racks_per_dc: Vec<usize> = (0..ndc).map(|_| rng.usize(1, 4)).collect();
    let all_rackless = rng.chance(1, 20);
    let rackless_num = *rng.pick(&[0u64, 0, 1, 3]);
    let dcless_num = *rng.pick(&[0u64, 0, 0, 1, 2]);
    let max_vnodes = rng.usize(1, 4);
    let uniform_vnodes = rng.bool();
    // token domain
    let domain = rng.below(4);
    let mut used: BTreeSet<i64> = BTreeSet::new();
    let mut draw = |rng: &mut Rng| -> i64 {
        for _ in 0..1000 {
            let t = match domain {
                0 => rng.range(-30, 30),
                1 => rng.range(-40, 40) * 100,
                2 => rng.u64() as i64,
                _ => match rng.below(6) {
                    0 => *rng.pick(&[i64::MIN, i64::MIN + 1, i64::MIN + 2, i64::MAX, i64::MAX - 1, i64::MAX - 2, 0, -1, 1]),
                    1 => i64::MAX - rng.range(0, 40),
                    2 => i64::MIN + rng.range(0, 40),
                    _ => rng.u64() as i64,
                },
            };
            let t = norm(t);
            if used.insert(t) {
                return t;
            }
        }
        unreachable!("token domain exhausted")
    };
    let mut nodes = Vec::new();
    for _ in 0..n {
        let d = rng.below(ndc as u64) as usize;
        let dc = if rng.chance(dcless_num, 12) { None } else { Some(DC_NAMES[d].to_owned()) };
        let rack = if all_rackless || rng.chance(rackless_num, 10) { None } else { Some(format!("r{}", rng.below(racks_per_dc[d] as u64))) };
        let vn = if rng.chance(1, 60) {
            0
        } else if uniform_vnodes {
            max_vnodes
        } else {
            rng.usize(1, max_vnodes)
        };
        // domain 0 holds 61 values only; 12 nodes x 4 vnodes fit
        let tokens: Vec<i64> = (0..vn).map(|_| draw(rng)).collect();
        nodes.push(MNode { dc, rack, tokens });
    }
    let mut topo = Topology { nodes };
    if allow_dups && rng.chance(1, 8) {
        // copy a token across datacenters
        let cands: Vec<(usize, usize)> = (0..n)
            .flat_map(|a| (0..n).map(move |b| (a, b)))
            .filter(|(a, b)| {
                let (x, y) = (&topo.nodes[*a], &topo.nodes[*b]);
                a != b && x.dc.is_some() && y.dc.is_some() && x.dc != y.dc && !x.tokens.is_empty()
            })
            .collect();
        if !cands.is_empty() {
            let (a, b) = *rng.pick(&cands);
            let t = *rng.pick(&topo.nodes[a].tokens);
            let pos = rng.below(topo.nodes[b].tokens.len() as u64 + 1) as usize;
            topo.nodes[b].tokens.insert(pos, t);
        }
    }
    topo
}

/// Strategies to query on one topology. The NetworkTopologyStrategy family sweeps, for every
/// datacenter of the ring, every replication factor 0..=nodes+2 (placement inside a datacenter
/// does not depend on the other datacenters); some maps leave a ring datacenter out, some name
/// a datacenter that has no node. SimpleStrategy: RF 0, 1, n, n+1, n+2 and a few in between.
pub fn gen_strategies(rng: &mut Rng, topo: &Topology) -> Vec<St> {
    let n = topo.ring_node_count();
    let dcs = topo.ring_dcs();
    let mut out = Vec::new();
    let mut simple: BTreeSet<usize> = BTreeSet::from([0, 1, n, n + 1, n + 2]);
    if n <= 5 {
        simple.extend(0..=n + 2);
    } else {
        for _ in 0..3 {
            simple.insert(rng.usize(2, n));
        }
    }
    out.extend(simple.into_iter().map(St::Simple));
    let sizes: Vec<usize> = dcs.iter().map(|d| topo.nodes_in_dc(d)).collect();
    let sweep = sizes.iter().map(|s| s + 3).max().unwrap_or(1);
    let offsets: Vec<usize> = sizes.iter().map(|s| rng.usize(0, s + 2)).collect();
    for j in 0..sweep {
        let mut m = BTreeMap::new();
        for (d, dc) in dcs.iter().enumerate() {
            if dcs.len() > 1 && rng.chance(1, 7) {
                continue; // ring datacenter absent from the strategy
            }
            m.insert(dc.clone(), (j + offsets[d]) % (sizes[d] + 3));
        }
        if rng.chance(1, 4) {
            m.insert(GHOST_DC.to_owned(), rng.usize(0, 4));
        }
        out.push(St::Nts(m));
    }
    if rng.chance(1, 6) {
        out.push(St::Nts(BTreeMap::new()));
    }
    if rng.chance(1, 2) {
        out.push(St::Local);
    }
    if rng.chance(1, 2) {
        out.push(St::Other);
    }
    out
}

/// Every ring token and its two neighbours, the extremes, the midpoints of consecutive ring
/// tokens and two random ones; sampled down to `cap` (ring tokens themselves are kept first).
pub fn query_tokens(rng: &mut Rng, topo: &Topology, cap: usize) -> Vec<i64> {
    let ring = topo.ring_tokens();
    let mut must: BTreeSet<i64> = BTreeSet::from([i64::MAX, i64::MIN + 1, 0]);
    let mut more: BTreeSet<i64> = BTreeSet::new();
    for (k, t) in ring.iter().enumerate() {
        must.insert(*t);
        more.insert(norm(t.wrapping_sub(1)));
        more.insert(norm(t.wrapping_add(1)));
        let next = ring[(k + 1) % ring.len()];
        if next > *t {
            more.insert(norm(((*t as i128 + next as i128) / 2) as i64));
        }
    }
    more.insert(norm(rng.u64() as i64));
    more.insert(norm(rng.u64() as i64));
    let mut must: Vec<i64> = must.into_iter().collect();
    let mut more: Vec<i64> = more.into_iter().filter(|t| !must.contains(t)).collect();
    rng.shuffle(&mut must);
    rng.shuffle(&mut more);
    // interleave so that a cap keeps both kinds
    let mut out = Vec::new();
    let (mut a, mut b) = (must.into_iter(), more.into_iter());
    loop {
        let (x, y) = (a.next(), b.next());
        if x.is_none() && y.is_none() {
            break;
        }
        out.extend(x);
        out.extend(y);
    }
    out.truncate(cap);
    out
}
