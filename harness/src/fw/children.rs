//! Child-process runner: work that may abort / overflow the stack / exhaust
//! memory runs in children of this same binary so the parent can classify how
//! they ended.

use std::io::Read;
use std::process::{Command, Stdio};
use std::time::{Duration, Instant};

#[derive(Debug)]
pub enum ChildEnd {
    /// exited normally with this code
    Exit(i32),
    /// killed by this signal
    Signal(i32),
    /// watchdog fired (harness limit, inconclusive)
    Timeout,
}

pub struct ChildResult {
    pub end: ChildEnd,
    pub stdout: Vec<u8>,
    pub stderr: String,
    pub wall: Duration,
}

/// Runs this binary again with `args`; `stdin_data` is fed on stdin.
/// `mem_limit_bytes` sets RLIMIT_AS in the child (0 = none).
pub fn run_self(args: &[String], stdin_data: &[u8], timeout: Duration, mem_limit_bytes: u64) -> ChildResult {
    use std::io::Write;
    use std::os::unix::process::{CommandExt, ExitStatusExt};
    let exe = std::env::current_exe().expect("current_exe");
    let mut cmd = Command::new(exe);
    cmd.args(args)
        .stdin(Stdio::piped())
        .stdout(Stdio::piped())
        .stderr(Stdio::piped());
    if mem_limit_bytes > 0 {
        unsafe {
            cmd.pre_exec(move || {
                let lim = libc::rlimit {
                    rlim_cur: mem_limit_bytes,
                    rlim_max: mem_limit_bytes,
                };
                libc::setrlimit(libc::RLIMIT_AS, &lim);
                Ok(())
            });
        }
    }
    let start = Instant::now();
    let mut child = cmd.spawn().expect("spawn child");
    let mut stdin = child.stdin.take().unwrap();
    let data = stdin_data.to_vec();
    let writer = std::thread::spawn(move || {
        let _ = stdin.write_all(&data);
    });
    let mut so = child.stdout.take().unwrap();
    let mut se = child.stderr.take().unwrap();
    let t_out = std::thread::spawn(move || {
        let mut b = Vec::new();
        let _ = so.read_to_end(&mut b);
        b
    });
    let t_err = std::thread::spawn(move || {
        let mut b = Vec::new();
        let _ = se.read_to_end(&mut b);
        b
    });
    let end;
    loop {
        match child.try_wait() {
            Ok(Some(st)) => {
                end = if let Some(c) = st.code() {
                    ChildEnd::Exit(c)
                } else {
                    ChildEnd::Signal(st.signal().unwrap_or(-1))
                };
                break;
            }
            Ok(None) => {
                if start.elapsed() > timeout {
                    let _ = child.kill();
                    let _ = child.wait();
                    end = ChildEnd::Timeout;
                    break;
                }
                std::thread::sleep(Duration::from_millis(5));
            }
            Err(_) => {
                end = ChildEnd::Exit(-1);
                break;
            }
        }
    }
    let _ = writer.join();
    let stdout = t_out.join().unwrap_or_default();
    let stderr = String::from_utf8_lossy(&t_err.join().unwrap_or_default()).into_owned();
    ChildResult {
        end,
        stdout,
        stderr,
        wall: start.elapsed(),
    }
}
