//! Shared framework: context, seeded RNG, outcome accumulation, parallel and
//! child-process runners. Every check is `fn run(&Ctx) -> Outcome`.

use rand::{Rng as _, RngCore, SeedableRng};
use rand_chacha::ChaCha8Rng;
use serde_json::{Value, json};
use std::collections::{BTreeMap, HashSet};
use std::time::Instant;

pub mod children;

#[derive(Clone, Copy, Debug, PartialEq, Eq)]
pub enum Tier {
    Quick,
    Thorough,
}

#[derive(Clone, Debug)]
pub struct Ctx {
    pub prop: String,
    pub tier: Tier,
    pub seed: u64,
    pub variant: String,
    pub workers: usize,
    /// scale factor applied to volume knobs (sanitizer / miri variants shrink it)
    pub scale: f64,
    pub replay: Option<String>,
    pub part: Option<String>,
    pub extra: BTreeMap<String, String>,
    pub started: Instant,
}

impl Ctx {
    pub fn quick(&self) -> bool {
        self.tier == Tier::Quick
    }
    /// `q` in quick tier, `t` in thorough, scaled by the variant's factor (min 1).
    pub fn vol(&self, q: u64, t: u64) -> u64 {
        let v = if self.quick() { q } else { t };
        ((v as f64 * self.scale) as u64).max(1)
    }
    pub fn rng(&self, stream: u64) -> Rng {
        Rng::new(self.seed, stream)
    }
    pub fn miri(&self) -> bool {
        self.variant == "miri"
    }
    pub fn elapsed(&self) -> f64 {
        self.started.elapsed().as_secs_f64()
    }
}

pub struct Rng(pub ChaCha8Rng);

impl Rng {
    pub fn new(seed: u64, stream: u64) -> Self {
        let mut r = ChaCha8Rng::seed_from_u64(seed ^ 0x9e37_79b9_7f4a_7c15u64.wrapping_mul(stream.wrapping_add(1)));
        r.set_stream(stream);
        Rng(r)
    }
    pub fn u64(&mut self) -> u64 {
        self.0.next_u64()
    }
    pub fn u32(&mut self) -> u32 {
        self.0.next_u32()
    }
    /// uniform in [0, n)
    pub fn below(&mut self, n: u64) -> u64 {
        if n == 0 { 0 } else { self.0.random_range(0..n) }
    }
    pub fn range(&mut self, lo: i64, hi_incl: i64) -> i64 {
        self.0.random_range(lo..=hi_incl)
    }
    pub fn usize(&mut self, lo: usize, hi_incl: usize) -> usize {
        self.0.random_range(lo..=hi_incl)
    }
    pub fn bool(&mut self) -> bool {
        self.0.next_u32() & 1 == 1
    }
    /// true with probability num/den
    pub fn chance(&mut self, num: u64, den: u64) -> bool {
        self.below(den) < num
    }
    pub fn pick<'a, T>(&mut self, xs: &'a [T]) -> &'a T {
        &xs[self.below(xs.len() as u64) as usize]
    }
    pub fn bytes(&mut self, n: usize) -> Vec<u8> {
        let mut v = vec![0u8; n];
        self.0.fill_bytes(&mut v);
        v
    }
    pub fn shuffle<T>(&mut self, xs: &mut [T]) {
        for i in (1..xs.len()).rev() {
            let j = self.below(i as u64 + 1) as usize;
            xs.swap(i, j);
        }
    }
    pub fn i64_boundary(&mut self) -> i64 {
        const B: [i64; 12] = [
            i64::MIN,
            i64::MIN + 1,
            -1,
            0,
            1,
            i64::MAX - 1,
            i64::MAX,
            i32::MAX as i64,
            i32::MIN as i64,
            255,
            256,
            -129,
        ];
        if self.chance(1, 3) { *self.pick(&B) } else { self.u64() as i64 }
    }
}

pub fn hash64(data: &[u8]) -> u64 {
    // FNV-1a 64 with a final avalanche; only used to count distinct cases.
    let mut h: u64 = 0xcbf29ce484222325;
    for b in data {
        h ^= *b as u64;
        h = h.wrapping_mul(0x100000001b3);
    }
    h ^= h >> 32;
    h = h.wrapping_mul(0xd6e8feb86659fd93);
    h ^ (h >> 32)
}

pub fn hash_str(s: &str) -> u64 {
    hash64(s.as_bytes())
}

#[derive(Clone, Debug)]
pub struct Violation {
    /// stable signature used for known-finding matching and de-duplication
    pub signature: String,
    pub message: String,
    pub replay: Value,
}

#[derive(Default)]
pub struct Outcome {
    pub evaluations: u64,
    pub distinct: HashSet<u64>,
    pub classes: BTreeMap<String, u64>,
    pub samples: Vec<Value>,
    pub violations: Vec<Violation>,
    pub inconclusive: Vec<String>,
    pub notes: BTreeMap<String, Value>,
    pub exhaustive: Option<bool>,
    pub required_classes: Vec<String>,
}

const MAX_SAMPLES: usize = 6;
const MAX_VIOLATIONS: usize = 40;

impl Outcome {
    pub fn new() -> Self {
        Self::default()
    }
    /// Registers one evaluated case; `key` identifies it for distinctness,
    /// `nontrivial` says whether it counts as a non-trivial case.
    pub fn case(&mut self, key: u64, nontrivial: bool) {
        self.evaluations += 1;
        if nontrivial {
            self.distinct.insert(key);
        }
    }
    pub fn evals(&mut self, n: u64) {
        self.evaluations += n;
    }
    pub fn class(&mut self, name: &str) {
        *self.classes.entry(name.to_owned()).or_insert(0) += 1;
    }
    pub fn class_n(&mut self, name: &str, n: u64) {
        *self.classes.entry(name.to_owned()).or_insert(0) += n;
    }
    pub fn require_class(&mut self, name: &str) {
        if !self.required_classes.iter().any(|c| c == name) {
            self.required_classes.push(name.to_owned());
        }
    }
    pub fn sample(&mut self, v: Value) {
        if self.samples.len() < MAX_SAMPLES {
            self.samples.push(v);
        }
    }
    pub fn want_sample(&self) -> bool {
        self.samples.len() < MAX_SAMPLES
    }
    /// Something a mock node reported about the traffic it received (`ProtocolViolation` events). Only
    /// two properties are about that: C02 (a stream id reused while the node still owes the answer) and
    /// C09 (request frames that are not valid CQL). Elsewhere it is evidence of a broken tree but not of
    /// THIS property being violated: recorded as inconclusive, never as a violation of another property.
    pub fn node_violation(&mut self, prop: &str, what: &str, replay: Value) {
        let reuse = what.contains("reused while");
        let p = prop.to_ascii_lowercase();
        if p.starts_with("c02") || p == "e2e" {
            if reuse {
                self.violation("e2e:stream-id-double-booked", format!("the node received a request on a stream id it had not answered yet: {what}"), replay);
            } else {
                self.inconclusive(format!("a node received a malformed request frame (that is C09's business): {what}"));
            }
        } else if p.starts_with("c09") {
            if reuse {
                self.inconclusive(format!("a node saw a stream id reused while unanswered (that is C02's business): {what}"));
            } else {
                self.violation(format!("{prop}:malformed-frame-seen-by-node"), what.to_string(), replay);
            }
        } else {
            self.inconclusive(format!("a node reported a protocol violation ({}): {what}", if reuse { "stream id reuse, C02's business" } else { "malformed frame, C09's business" }));
        }
    }
    pub fn violation(&mut self, signature: impl Into<String>, message: impl Into<String>, replay: Value) {
        let signature = signature.into();
        if self.violations.iter().any(|v| v.signature == signature) {
            return;
        }
        if self.violations.len() < MAX_VIOLATIONS {
            self.violations.push(Violation {
                signature,
                message: message.into(),
                replay,
            });
        }
    }
    pub fn inconclusive(&mut self, msg: impl Into<String>) {
        let m = msg.into();
        if self.inconclusive.len() < 20 && !self.inconclusive.contains(&m) {
            self.inconclusive.push(m);
        }
    }
    pub fn note(&mut self, k: &str, v: Value) {
        self.notes.insert(k.to_owned(), v);
    }
    pub fn note_add(&mut self, k: &str, n: u64) {
        let cur = self.notes.get(k).and_then(|v| v.as_u64()).unwrap_or(0);
        self.notes.insert(k.to_owned(), json!(cur + n));
    }
    pub fn merge(&mut self, o: Outcome) {
        self.evaluations += o.evaluations;
        self.distinct.extend(o.distinct);
        for (k, v) in o.classes {
            *self.classes.entry(k).or_insert(0) += v;
        }
        for s in o.samples {
            self.sample(s);
        }
        for v in o.violations {
            self.violation(v.signature, v.message, v.replay);
        }
        for i in o.inconclusive {
            self.inconclusive(i);
        }
        for (k, v) in o.notes {
            match (self.notes.get(&k).and_then(|x| x.as_u64()), v.as_u64()) {
                (Some(a), Some(b)) => {
                    self.notes.insert(k, json!(a + b));
                }
                _ => {
                    self.notes.insert(k, v);
                }
            }
        }
        if let Some(e) = o.exhaustive {
            self.exhaustive = Some(self.exhaustive.unwrap_or(true) && e);
        }
        for c in o.required_classes {
            self.require_class(&c);
        }
    }
    pub fn to_json(&self) -> Value {
        let missing: Vec<&String> = self
            .required_classes
            .iter()
            .filter(|c| self.classes.get(*c).copied().unwrap_or(0) == 0)
            .collect();
        json!({
            "evaluations": self.evaluations,
            "distinct_nontrivial": self.distinct.len(),
            "classes": self.classes,
            "required_classes": self.required_classes,
            "missing_classes": missing,
            "samples": self.samples,
            "violations": self.violations.iter().map(|v| json!({
                "signature": v.signature, "message": v.message, "replay": v.replay
            })).collect::<Vec<_>>(),
            "inconclusive": self.inconclusive,
            "notes": self.notes,
            "exhaustive": self.exhaustive,
        })
    }
    pub fn from_json(v: &Value) -> Outcome {
        let mut o = Outcome::new();
        o.evaluations = v["evaluations"].as_u64().unwrap_or(0);
        if let Some(h) = v["distinct_hashes"].as_array() {
            for x in h {
                if let Some(x) = x.as_u64() {
                    o.distinct.insert(x);
                }
            }
        }
        if let Some(c) = v["classes"].as_object() {
            for (k, n) in c {
                o.classes.insert(k.clone(), n.as_u64().unwrap_or(0));
            }
        }
        if let Some(s) = v["samples"].as_array() {
            o.samples = s.iter().take(MAX_SAMPLES).cloned().collect();
        }
        if let Some(vs) = v["violations"].as_array() {
            for x in vs {
                o.violation(
                    x["signature"].as_str().unwrap_or("?"),
                    x["message"].as_str().unwrap_or(""),
                    x["replay"].clone(),
                );
            }
        }
        if let Some(i) = v["inconclusive"].as_array() {
            for x in i {
                o.inconclusive(x.as_str().unwrap_or(""));
            }
        }
        if let Some(n) = v["notes"].as_object() {
            for (k, x) in n {
                o.notes.insert(k.clone(), x.clone());
            }
        }
        if let Some(r) = v["required_classes"].as_array() {
            for x in r {
                o.require_class(x.as_str().unwrap_or(""));
            }
        }
        o.exhaustive = v["exhaustive"].as_bool();
        o
    }
    /// JSON for child → parent transport (includes the distinct-hash set).
    pub fn to_json_full(&self) -> Value {
        let mut j = self.to_json();
        let hashes: Vec<u64> = self.distinct.iter().copied().collect();
        j["distinct_hashes"] = json!(hashes);
        j
    }
}

/// Runs `f(worker_index, rng)` on `n` OS threads and merges the outcomes.
/// A panic inside a worker is a harness error unless the check catches it itself.
pub fn par<F>(ctx: &Ctx, n: usize, f: F) -> Outcome
where
    F: Fn(usize, Rng) -> Outcome + Sync,
{
    let n = n.max(1);
    let mut out = Outcome::new();
    let results: Vec<Outcome> = std::thread::scope(|s| {
        let hs: Vec<_> = (0..n)
            .map(|i| {
                let f = &f;
                let rng = ctx.rng(1000 + i as u64);
                std::thread::Builder::new()
                    .stack_size(16 << 20)
                    .spawn_scoped(s, move || f(i, rng))
                    .unwrap()
            })
            .collect();
        hs.into_iter()
            .map(|h| match h.join() {
                Ok(o) => o,
                Err(e) => {
                    let msg = e
                        .downcast_ref::<String>()
                        .cloned()
                        .or_else(|| e.downcast_ref::<&str>().map(|s| s.to_string()))
                        .unwrap_or_else(|| "panic".into());
                    let mut o = Outcome::new();
                    o.violation(
                        format!("worker-panic:{}", first_line(&msg)),
                        format!("a worker thread panicked: {msg}"),
                        json!({"panic": msg}),
                    );
                    o
                }
            })
            .collect()
    });
    for r in results {
        out.merge(r);
    }
    out
}

pub fn first_line(s: &str) -> String {
    let l = s.lines().next().unwrap_or("");
    l.chars().take(160).collect()
}

pub fn hex(b: &[u8]) -> String {
    let mut s = String::with_capacity(b.len() * 2);
    for x in b {
        s.push_str(&format!("{x:02x}"));
    }
    s
}

pub fn unhex(s: &str) -> Vec<u8> {
    (0..s.len() / 2)
        .map(|i| u8::from_str_radix(&s[2 * i..2 * i + 2], 16).unwrap_or(0))
        .collect()
}

/// Runs a closure catching panics; returns Err(message) on panic.
pub fn catch<T>(f: impl FnOnce() -> T) -> Result<T, String> {
    match std::panic::catch_unwind(std::panic::AssertUnwindSafe(f)) {
        Ok(v) => Ok(v),
        Err(e) => Err(e
            .downcast_ref::<String>()
            .cloned()
            .or_else(|| e.downcast_ref::<&str>().map(|s| s.to_string()))
            .unwrap_or_else(|| "panic".into())),
    }
}

/// Enumerating checks call this after every batch of cases: once a violation has been
/// recorded, one more batch is run (to collect other signatures) and then the enumeration
/// stops — a violating tree must fail fast, the witnesses found are enough.
pub fn stop_early(o: &mut Outcome) -> bool {
    if o.violations.is_empty() {
        return false;
    }
    let seen = o.notes.get("batches_after_first_violation").and_then(|v| v.as_u64()).unwrap_or(0);
    o.notes.insert("batches_after_first_violation".into(), json!(seen + 1));
    seen >= 1
}
