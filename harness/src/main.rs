//! verif-harness: runtime-monitoring checks for scylla-rust-driver.
//! Usage: verif-harness <Cxx> [--tier quick|thorough] [--seed N] [--variant V]
//!        [--workers N] [--scale F] [--out partial.json] [--replay file] [--part name] [--k=v ...]
//! Internal: verif-harness child <name> ...  (crash-isolated sub-work, see fw::children)

pub mod checks;
pub mod fw;
pub mod refmodel;
pub mod wire;
pub mod mock;
pub mod gen_;

use fw::{Ctx, Tier};

// The binary's single global allocator: a pass-through (one relaxed load per allocation) unless a
// C08 decode thread armed it to measure what a single decode allocates.
#[global_allocator]
static GLOBAL: checks::c08::CountingAlloc = checks::c08::CountingAlloc;
use std::collections::BTreeMap;
use std::time::Instant;

fn main() {
    let args: Vec<String> = std::env::args().skip(1).collect();
    if args.is_empty() {
        eprintln!("usage: verif-harness <Cxx> [--tier quick|thorough] [--seed N] ...");
        std::process::exit(2);
    }
    if std::env::var_os("VERIF_VERBOSE_PANICS").is_none() {
        // Monitors catch panics and report them as violations with the message; the default
        // hook's stderr spam (thousands of lines under mutation) is only noise.
        std::panic::set_hook(Box::new(|_| {}));
    }
    if args[0] == "child" {
        std::process::exit(checks::child_main(&args[1..]));
    }
    let prop = args[0].clone();
    let mut tier = Tier::Quick;
    let mut seed: u64 = 1;
    let mut variant = "dbg".to_string();
    let mut workers = std::thread::available_parallelism().map(|n| n.get()).unwrap_or(4);
    let mut scale = 1.0f64;
    let mut out: Option<String> = None;
    let mut replay = None;
    let mut part = None;
    let mut extra = BTreeMap::new();
    let mut i = 1;
    while i < args.len() {
        let a = &args[i];
        let mut val = || {
            i += 1;
            args.get(i).cloned().unwrap_or_default()
        };
        match a.as_str() {
            "--tier" => {
                tier = if val() == "thorough" { Tier::Thorough } else { Tier::Quick }
            }
            "--seed" => seed = val().parse().unwrap_or(1),
            "--variant" => variant = val(),
            "--workers" => workers = val().parse().unwrap_or(workers),
            "--scale" => scale = val().parse().unwrap_or(1.0),
            "--out" => out = Some(val()),
            "--replay" => replay = Some(val()),
            "--part" => part = Some(val()),
            s if s.starts_with("--") && s.contains('=') => {
                let (k, v) = s[2..].split_once('=').unwrap();
                extra.insert(k.to_string(), v.to_string());
            }
            _ => {
                eprintln!("unknown argument {a}");
                std::process::exit(2);
            }
        }
        i += 1;
    }
    let ctx = Ctx {
        prop: prop.clone(),
        tier,
        seed,
        variant,
        workers,
        scale,
        replay,
        part,
        extra,
        started: Instant::now(),
    };
    let Some(outcome) = checks::dispatch(&ctx) else {
        eprintln!("unknown check {prop}");
        std::process::exit(2);
    };
    let mut j = outcome.to_json();
    j["property_id"] = serde_json::json!(prop);
    j["seed"] = serde_json::json!(seed);
    j["variant"] = serde_json::json!(ctx.variant);
    j["part"] = serde_json::json!(ctx.part);
    j["wall_s"] = serde_json::json!(ctx.elapsed());
    let text = serde_json::to_string_pretty(&j).unwrap();
    match out {
        Some(p) => std::fs::write(&p, text).expect("write partial outcome"),
        None => println!("{text}"),
    }
    // The orchestrator (./check) decides the verdict from the partial file;
    // exit code here only says "the harness ran to completion".
    std::process::exit(0);
}
