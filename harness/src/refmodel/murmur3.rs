//! Cassandra / ScyllaDB partitioner tokens, written from the algorithms' definitions
//! (not from the driver):
//!
//! * `MurmurHash3_x64_128` (Austin Appleby's public-domain reference, seed 0), of
//!   which Cassandra's `Murmur3Partitioner` keeps the first 64-bit half. Cassandra's
//!   Java port differs from the reference in one place: the 1..15 tail bytes are read
//!   with `(long) key.get(i)`, i.e. as *signed* bytes that are sign-extended before
//!   being shifted and xor-ed in (full 16-byte blocks are read as unsigned
//!   little-endian words in both). ScyllaDB reproduces that behaviour bit for bit.
//!   Finally `Long.MIN_VALUE` is mapped to `Long.MAX_VALUE` (`normalize`).
//! * the composite partition-key encoding (`CompositeType`): a single component is the
//!   raw value; two or more components are each written as 2-byte big-endian length,
//!   the bytes, and one zero "end of component" byte.
//! * ScyllaDB's CDC partitioner: the token is the first 8 bytes of the key read as a
//!   big-endian signed integer (normalised like every token); a key too short to hold
//!   8 bytes gets the "minimum token" sentinel, whose integer value is `i64::MIN`.
//!
//! The model is deliberately one-shot (index arithmetic over the whole slice, no
//! buffer, no state) so that it shares no structure with a streaming implementation.
//! It also contains the *inverse* of the hash for inputs whose last 16-byte block is
//! free, which is how keys hashing to exactly `Long.MIN_VALUE` are produced.
//!
//! `self_test()` validates the forward model against pinned known-good vectors before
//! any verdict is derived from it.

const C1: u64 = 0x87c3_7b91_1142_53d5;
const C2: u64 = 0x4cf5_ad43_2745_937f;
const N1: u64 = 0x52dc_e729;
const N2: u64 = 0x3849_5ab5;
const F1: u64 = 0xff51_afd7_ed55_8ccd;
const F2: u64 = 0xc4ce_b9fe_1a85_ec53;

#[derive(Clone, Copy, PartialEq, Eq, Debug)]
pub enum Tail {
    /// Cassandra / ScyllaDB: tail bytes are sign-extended.
    Signed,
    /// Reference MurmurHash3 (only used by the self-test, to validate the skeleton of
    /// the model against the canonical public vectors).
    Unsigned,
}

fn mix_k1(k: u64) -> u64 {
    k.wrapping_mul(C1).rotate_left(31).wrapping_mul(C2)
}
fn mix_k2(k: u64) -> u64 {
    k.wrapping_mul(C2).rotate_left(33).wrapping_mul(C1)
}
fn fmix64(mut k: u64) -> u64 {
    k ^= k >> 33;
    k = k.wrapping_mul(F1);
    k ^= k >> 33;
    k = k.wrapping_mul(F2);
    k ^= k >> 33;
    k
}

fn le64(b: &[u8]) -> u64 {
    let mut v = 0u64;
    for i in 0..8 {
        v |= (b[i] as u64) << (8 * i);
    }
    v
}

/// One body round: mixes block (k1, k2) into (h1, h2).
fn round(h1: u64, h2: u64, k1: u64, k2: u64) -> (u64, u64) {
    let mut h1 = h1 ^ mix_k1(k1);
    h1 = h1.rotate_left(27).wrapping_add(h2).wrapping_mul(5).wrapping_add(N1);
    let mut h2 = h2 ^ mix_k2(k2);
    h2 = h2.rotate_left(31).wrapping_add(h1).wrapping_mul(5).wrapping_add(N2);
    (h1, h2)
}

/// Tail words: byte j of the tail (0-based) goes to bit 8*j of k1 (j < 8) or bit
/// 8*(j-8) of k2, xor-ed in; `Signed` sign-extends the byte to 64 bits first.
fn tail_words(tail: &[u8], mode: Tail) -> (u64, u64) {
    let mut k1 = 0u64;
    let mut k2 = 0u64;
    for (j, b) in tail.iter().enumerate() {
        let w: u64 = match mode {
            Tail::Signed => (*b as i8) as i64 as u64,
            Tail::Unsigned => *b as u64,
        };
        if j < 8 {
            k1 ^= w << (8 * j);
        } else {
            k2 ^= w << (8 * (j - 8));
        }
    }
    (k1, k2)
}

fn finalize(mut h1: u64, mut h2: u64, len: u64) -> (u64, u64) {
    h1 ^= len;
    h2 ^= len;
    h1 = h1.wrapping_add(h2);
    h2 = h2.wrapping_add(h1);
    h1 = fmix64(h1);
    h2 = fmix64(h2);
    h1 = h1.wrapping_add(h2);
    h2 = h2.wrapping_add(h1);
    (h1, h2)
}

/// MurmurHash3_x64_128 with the given seed; returns (h1, h2).
pub fn hash128(data: &[u8], seed: u64, mode: Tail) -> (u64, u64) {
    let nblocks = data.len() / 16;
    let (mut h1, mut h2) = (seed, seed);
    for i in 0..nblocks {
        let k1 = le64(&data[16 * i..16 * i + 8]);
        let k2 = le64(&data[16 * i + 8..16 * i + 16]);
        (h1, h2) = round(h1, h2, k1, k2);
    }
    let tail = &data[16 * nblocks..];
    let (k1, k2) = tail_words(tail, mode);
    if tail.len() > 8 {
        h2 ^= mix_k2(k2);
    }
    if !tail.is_empty() {
        h1 ^= mix_k1(k1);
    }
    finalize(h1, h2, data.len() as u64)
}

/// The raw (un-normalised) first half, as a signed 64-bit integer.
pub fn raw_hash(data: &[u8]) -> i64 {
    hash128(data, 0, Tail::Signed).0 as i64
}

pub fn normalize(v: i64) -> i64 {
    if v == i64::MIN { i64::MAX } else { v }
}

/// Token the Murmur3Partitioner assigns to the (already composite-encoded) key.
pub fn murmur3_token(data: &[u8]) -> i64 {
    normalize(raw_hash(data))
}

/// Composite partition-key encoding. `None` when a component of a multi-component key
/// does not fit the 2-byte length (no such key exists on a server).
pub fn composite(components: &[&[u8]]) -> Option<Vec<u8>> {
    if components.len() == 1 {
        return Some(components[0].to_vec());
    }
    let mut out = Vec::new();
    for c in components {
        if c.len() > 0xffff {
            return None;
        }
        out.push((c.len() >> 8) as u8);
        out.push((c.len() & 0xff) as u8);
        out.extend_from_slice(c);
        out.push(0);
    }
    Some(out)
}

/// Result of the CDC partitioner model.
#[derive(Clone, Copy, PartialEq, Eq, Debug)]
pub enum CdcToken {
    /// key holds at least 8 bytes: big-endian i64 of the first 8, normalised.
    Key(i64),
    /// key shorter than 8 bytes: ScyllaDB's `minimum_token()`, integer value i64::MIN.
    Minimum,
}

impl CdcToken {
    pub fn value(self) -> i64 {
        match self {
            CdcToken::Key(v) => v,
            CdcToken::Minimum => i64::MIN,
        }
    }
}

pub fn cdc_token(key: &[u8]) -> CdcToken {
    if key.len() < 8 {
        return CdcToken::Minimum;
    }
    let mut v: u64 = 0;
    for b in &key[..8] {
        v = (v << 8) | *b as u64;
    }
    CdcToken::Key(normalize(v as i64))
}

// ---------------------------------------------------------------------------
// Inverse (every step of MurmurHash3 is a bijection on 64-bit words)
// ---------------------------------------------------------------------------

/// Multiplicative inverse of an odd number modulo 2^64 (Newton iteration).
fn inv_odd(a: u64) -> u64 {
    let mut x = a; // correct to 3 bits
    for _ in 0..6 {
        x = x.wrapping_mul(2u64.wrapping_sub(a.wrapping_mul(x)));
    }
    x
}

fn unfmix64(mut k: u64) -> u64 {
    // x ^= x >> 33 is an involution (2*33 > 64)
    k ^= k >> 33;
    k = k.wrapping_mul(inv_odd(F2));
    k ^= k >> 33;
    k = k.wrapping_mul(inv_odd(F1));
    k ^= k >> 33;
    k
}

fn unmix_k1(m: u64) -> u64 {
    m.wrapping_mul(inv_odd(C2)).rotate_right(31).wrapping_mul(inv_odd(C1))
}
fn unmix_k2(m: u64) -> u64 {
    m.wrapping_mul(inv_odd(C1)).rotate_right(33).wrapping_mul(inv_odd(C2))
}

/// Builds `prefix ‖ block ‖ tail` (prefix length a multiple of 16, block 16 bytes, tail
/// < 16 bytes) whose Cassandra hash is exactly `(want_h1, want_h2)`.
pub fn preimage(prefix: &[u8], tail: &[u8], want_h1: u64, want_h2: u64) -> Option<Vec<u8>> {
    if prefix.len() % 16 != 0 || tail.len() >= 16 {
        return None;
    }
    let total = (prefix.len() + 16 + tail.len()) as u64;
    // undo the finalisation
    let mut h2 = want_h2.wrapping_sub(want_h1);
    let mut h1 = want_h1.wrapping_sub(h2);
    h1 = unfmix64(h1);
    h2 = unfmix64(h2);
    h2 = h2.wrapping_sub(h1);
    h1 = h1.wrapping_sub(h2);
    h1 ^= total;
    h2 ^= total;
    // undo the tail
    let (tk1, tk2) = tail_words(tail, Tail::Signed);
    if tail.len() > 8 {
        h2 ^= mix_k2(tk2);
    }
    if !tail.is_empty() {
        h1 ^= mix_k1(tk1);
    }
    // state before the free block
    let (mut b1, mut b2) = (0u64, 0u64);
    for i in 0..prefix.len() / 16 {
        (b1, b2) = round(b1, b2, le64(&prefix[16 * i..]), le64(&prefix[16 * i + 8..]));
    }
    // undo one round: (b1, b2) --(k1, k2)--> (h1, h2)
    let inv5 = inv_odd(5);
    let h2c = h2.wrapping_sub(N2).wrapping_mul(inv5);
    let h2a = h2c.wrapping_sub(h1).rotate_right(31);
    let k2 = unmix_k2(h2a ^ b2);
    let h1c = h1.wrapping_sub(N1).wrapping_mul(inv5);
    let h1a = h1c.wrapping_sub(b2).rotate_right(27);
    let k1 = unmix_k1(h1a ^ b1);
    let mut out = prefix.to_vec();
    out.extend_from_slice(&k1.to_le_bytes());
    out.extend_from_slice(&k2.to_le_bytes());
    out.extend_from_slice(tail);
    Some(out)
}

// ---------------------------------------------------------------------------
// Self-test
// ---------------------------------------------------------------------------

/// Known-good vectors. `tables/murmur3.json` carries the same list for humans; the
/// in-source copy keeps the binary self-contained.
///
/// (a) produced by a real Cassandra and pinned in the driver's own unit tests
///     (`scylla/src/routing/partitioner.rs`, `test_murmur3_partitioner`); "kremówki"
///     has two bytes >= 0x80 in its 9-byte tail, so it pins the signed-byte quirk;
/// (b) the DataStax Python driver's murmur3 unit-test vectors (tests/unit/test_metadata.py;
///     its C and pure-Python hashers are both checked against them); they cover a 50-byte
///     input with a two-byte all-negative tail after three blocks and an 8-byte all-0xfe
///     tail. The sandbox has no network: these five were written down from memory of
///     that file, and are kept because the independently written model reproduces all
///     five 64-bit values (a coincidence is out of the question), not the other way round.
pub const CASSANDRA_VECTORS: &[(&[u8], i64)] = &[
    (b"test", -6017608668500074083),
    (b"xd", 4507812186440344727),
    (b"primary_key", -1632642444691073360),
    ("kremówki".as_bytes(), 4354931215268080151),
    (b"123", -7468325962851647638),
    (
        b"\x00\xff\x10\xfa\x99\x00\xff\x10\xfa\x99\x00\xff\x10\xfa\x99\x00\xff\x10\xfa\x99\x00\xff\x10\xfa\x99\x00\xff\x10\xfa\x99\x00\xff\x10\xfa\x99\x00\xff\x10\xfa\x99\x00\xff\x10\xfa\x99\x00\xff\x10\xfa\x99",
        5837342703291459765,
    ),
    (b"\xfe\xfe\xfe\xfe\xfe\xfe\xfe\xfe", -8927430733708461935),
    (b"\x10\x10\x10\x10\x10\x10\x10\x10", 1446172840243228796),
    (b"9223372036854775807", 7162290910810015547),
];

/// Canonical MurmurHash3_x64_128 vectors (reference C++ implementation, seed 0),
/// rendered as the 16 output bytes in hex (h1 little-endian, then h2 little-endian is
/// how the reference writes them; the well-known hex digests print h1 then h2 as
/// big-endian numbers). They validate the block loop / finaliser skeleton.
pub const REFERENCE_VECTORS: &[(&[u8], u64, u64)] = &[
    (b"", 0, 0),
    (b"hello", 0xcbd8a7b341bd9b02, 0x5b1e906a48ae1d19),
    (
        b"The quick brown fox jumps over the lazy dog",
        0xe34bbc7bbc071b6c,
        0x7a433ca9c49a9347,
    ),
];

/// CDC vectors pinned in the driver's unit tests (`test_cdc_partitioner`).
pub const CDC_VECTORS: &[(&[u8], i64)] = &[
    (b"test", i64::MIN),
    (b"xd", i64::MIN),
    (b"primary_key", 8102654598100187487),
    ("kremówki".as_bytes(), 7742362231512463211),
];

pub fn self_test() -> Result<(), String> {
    for (inp, want) in CASSANDRA_VECTORS {
        let got = murmur3_token(inp);
        if got != *want {
            return Err(format!("murmur3 model: token({:02x?}) = {got}, pinned Cassandra value {want}", inp));
        }
    }
    for (inp, w1, w2) in REFERENCE_VECTORS {
        let got = hash128(inp, 0, Tail::Unsigned);
        if got != (*w1, *w2) {
            return Err(format!("murmur3 model: reference hash128({:?}) = {:016x}{:016x}, expected {w1:016x}{w2:016x}", String::from_utf8_lossy(inp), got.0, got.1));
        }
        // ASCII-only inputs: both tail modes agree
        if hash128(inp, 0, Tail::Signed) != got {
            return Err("murmur3 model: signed/unsigned tails disagree on ASCII input".into());
        }
    }
    // the quirk must matter exactly when a tail byte is >= 0x80 below the top position
    if hash128(&[0x80, 0x01], 0, Tail::Signed) == hash128(&[0x80, 0x01], 0, Tail::Unsigned) {
        return Err("murmur3 model: signed tail has no effect on [0x80,0x01]".into());
    }
    if hash128(&[0x80u8; 16], 0, Tail::Signed) != hash128(&[0x80u8; 16], 0, Tail::Unsigned) {
        return Err("murmur3 model: tail mode changed a whole-block input".into());
    }
    for (inp, want) in CDC_VECTORS {
        if cdc_token(inp).value() != *want {
            return Err(format!("cdc model: token({:02x?}) = {}, pinned {want}", inp, cdc_token(inp).value()));
        }
    }
    // composite encoding, spelled out by hand
    if composite(&[b"ab"]).as_deref() != Some(&b"ab"[..])
        || composite(&[b"ab", b""]).as_deref() != Some(&[0, 2, b'a', b'b', 0, 0, 0, 0][..])
        || composite(&[&[7u8; 300][..], b"x"]).map(|v| (v[0], v[1], v.len())) != Some((1, 44, 2 + 300 + 1 + 2 + 1 + 1))
        || composite(&[&vec![0u8; 65536][..], b"x"]).is_some()
    {
        return Err("composite model: hand-written expectations failed".into());
    }
    // inverse: forward(preimage) must hit the requested value for several shapes
    let shapes: [(&[u8], &[u8]); 4] = [(b"", b""), (b"", b"\xff\x80\x01"), (&[0xa5; 32], b""), (&[0x11; 16], &[0x9c; 15])];
    for (p, t) in shapes {
        for (w1, w2) in [(1u64 << 63, 0u64), (1 << 63, 0xdead_beef_0bad_f00d), (0, 0), (u64::MAX, 42)] {
            let Some(k) = preimage(p, t, w1, w2) else {
                return Err("murmur3 inverse: refused a valid shape".into());
            };
            if hash128(&k, 0, Tail::Signed) != (w1, w2) {
                return Err(format!("murmur3 inverse: forward(preimage) != target for prefix {} tail {}", p.len(), t.len()));
            }
        }
    }
    Ok(())
}
