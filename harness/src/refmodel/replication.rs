//! Replica placement as the servers define it, written from the property statement:
//!  * SimpleStrategy: the first RF distinct nodes clockwise from the token;
//!  * NetworkTopologyStrategy: per datacenter, walk that datacenter's nodes clockwise and take
//!    a node if its rack is new or if rack repeats are still allowed (RF minus the number of
//!    racks of the datacenter, when positive), until min(RF, nodes of the datacenter) are found.
//! "Clockwise from the token" starts at the first ring entry whose token is >= the token and
//! wraps to the lowest one. A node without a rack lives in the rack "None" (one more rack).
use std::collections::BTreeMap;

#[derive(Clone, Debug, PartialEq, Eq)]
pub struct MNode {
    pub dc: Option<String>,
    pub rack: Option<String>,
    pub tokens: Vec<i64>,
}

/// Distinct nodes (indexes into `nodes`) accepted by `keep`, in the order in which a clockwise
/// walk starting at `token` meets them for the first time.
pub fn clockwise(nodes: &[MNode], token: i64, keep: impl Fn(&MNode) -> bool) -> Vec<usize> {
    let mut ring: Vec<(i64, usize)> = Vec::new();
    for (i, n) in nodes.iter().enumerate().filter(|(_, n)| keep(n)) {
        ring.extend(n.tokens.iter().map(|t| (*t, i)));
    }
    ring.sort();
    let start = ring.iter().position(|e| e.0 >= token).unwrap_or(0);
    ring.rotate_left(start);
    let mut out: Vec<usize> = Vec::new();
    for (_, i) in ring {
        if !out.contains(&i) {
            out.push(i);
        }
    }
    out
}

pub fn simple(nodes: &[MNode], token: i64, rf: usize) -> Vec<usize> {
    let mut w = clockwise(nodes, token, |_| true);
    w.truncate(rf);
    w
}

/// Replicas inside one datacenter, in the order they are taken.
pub fn nts_dc(nodes: &[MNode], token: i64, dc: &str, rf: usize) -> Vec<usize> {
    let walk = clockwise(nodes, token, |n| n.dc.as_deref() == Some(dc));
    let mut racks: Vec<&Option<String>> = walk.iter().map(|i| &nodes[*i].rack).collect();
    racks.sort();
    racks.dedup();
    let want = rf.min(walk.len());
    let mut repeats_left = rf.saturating_sub(racks.len());
    let (mut seen, mut out): (Vec<&Option<String>>, Vec<usize>) = (Vec::new(), Vec::new());
    for i in walk {
        if out.len() == want {
            break;
        }
        let rack = &nodes[i].rack;
        if !seen.contains(&rack) {
            seen.push(rack);
            out.push(i);
        } else if repeats_left > 0 {
            repeats_left -= 1;
            out.push(i);
        }
    }
    out
}

/// `members` in global ring order starting from the token.
pub fn ring_order(nodes: &[MNode], token: i64, members: &[usize]) -> Vec<usize> {
    clockwise(nodes, token, |_| true).into_iter().filter(|i| members.contains(i)).collect()
}

/// All replicas of a NetworkTopologyStrategy keyspace, in global ring order from the token.
pub fn nts(nodes: &[MNode], token: i64, rfs: &BTreeMap<String, usize>) -> Vec<usize> {
    let mut members = Vec::new();
    for (dc, rf) in rfs {
        members.extend(nts_dc(nodes, token, dc, *rf));
    }
    ring_order(nodes, token, &members)
}
