//! Reference model for C13 part A (speculative-execution loop), written from the
//! property statement and the documentation of `SpeculativeExecutionPolicy`
//! ("maximum number of speculative executions … does not include the initial
//! request", "the delay between each speculative execution"), not from the loop.
//!
//! The model is a *judge of one observed run* in virtual time (milliseconds since
//! the call): given the scenario (what every started execution will answer and
//! after which delay) and what the harness saw (when the generator was called,
//! what the call returned and when), it lists every clause of the statement that
//! the run contradicts. Where the statement leaves an order open - events at the
//! same virtual instant - every order is accepted.

/// What an execution answers.
#[derive(Clone, Copy, Debug, PartialEq, Eq, Hash)]
pub enum Kind {
    /// `Some(Ok(id))`
    Success,
    /// `Some(Err(e))`, `e` says the request itself is wrong (same answer on any node)
    Definitive,
    /// `Some(Err(e))`, `e` only concerns this node/connection and carries an identity
    Ignorable,
    /// as `Ignorable`, but the error value has no payload to identify it by
    IgnorableAnon,
    /// `None`: the shared plan had no target left for this execution
    Exhausted,
}

impl Kind {
    pub const ALL: [Kind; 5] = [Kind::Success, Kind::Definitive, Kind::Ignorable, Kind::IgnorableAnon, Kind::Exhausted];
    pub fn is_answer(self) -> bool {
        matches!(self, Kind::Success | Kind::Definitive)
    }
    pub fn is_ignorable(self) -> bool {
        matches!(self, Kind::Ignorable | Kind::IgnorableAnon)
    }
    pub fn name(self) -> &'static str {
        match self {
            Kind::Success => "success",
            Kind::Definitive => "definitive",
            Kind::Ignorable => "ignorable",
            Kind::IgnorableAnon => "ignorable-anon",
            Kind::Exhausted => "exhausted",
        }
    }
    pub fn from_name(s: &str) -> Option<Kind> {
        Kind::ALL.into_iter().find(|k| k.name() == s)
    }
}

#[derive(Clone, Copy, Debug, PartialEq, Eq, Hash)]
pub struct Exec {
    /// completes this many ms after it was started
    pub delay: u64,
    pub kind: Kind,
}

#[derive(Clone, Debug, PartialEq, Eq, Hash)]
pub struct Scenario {
    /// the policy's maximum number of speculative executions (initial one not included)
    pub max: usize,
    /// the policy's interval, ms
    pub interval: u64,
    /// answer of the j-th started execution; executions beyond the script find the
    /// plan exhausted at once
    pub script: Vec<Exec>,
}

impl Scenario {
    pub fn exec(&self, j: usize) -> Exec {
        self.script.get(j).copied().unwrap_or(Exec { delay: 0, kind: Kind::Exhausted })
    }
}

#[derive(Clone, Copy, Debug, PartialEq, Eq)]
pub struct Call {
    pub at: u64,
    pub speculative: bool,
}

#[derive(Clone, Debug, PartialEq, Eq)]
pub enum Returned {
    /// the value produced by execution `exec` (identity carried inside the value)
    Of { exec: usize, kind: Kind },
    /// the payload-less ignorable error
    Anon,
    /// an error that no execution produced and that says "no plan"
    EmptyPlan,
    /// anything else (text for the report)
    Other(String),
}

#[derive(Clone, Debug, PartialEq, Eq)]
pub enum Observed {
    Returned { at: u64, what: Returned },
    /// one virtual hour passed with nothing runnable and no timer pending earlier
    Hung,
    Panicked(String),
}

#[derive(Default, Debug)]
pub struct Verdict {
    /// (stable signature, message)
    pub violations: Vec<(&'static str, String)>,
    pub classes: Vec<&'static str>,
}

impl Verdict {
    fn bad(&mut self, sig: &'static str, msg: String) {
        self.violations.push((sig, msg));
    }
}

pub fn judge(sc: &Scenario, calls: &[Call], obs: &Observed) -> Verdict {
    let mut v = Verdict::default();
    let i = sc.interval;

    // ---- starting executions: how many, when ---------------------------------
    if calls.is_empty() {
        v.bad("start:none", "no execution was started".into());
    } else {
        if calls[0].at != 0 {
            v.bad("start:first-not-at-0", format!("the initial execution was started at t={}", calls[0].at));
        }
        if calls[0].speculative {
            v.bad("start:flag", "the initial execution was announced as speculative".into());
        }
    }
    if calls.len() > 1 + sc.max {
        v.bad("start:too-many", format!("{} executions started, policy allows 1 + {}", calls.len(), sc.max));
    }
    for (j, c) in calls.iter().enumerate().skip(1) {
        if !c.speculative {
            v.bad("start:flag", format!("execution #{j} (t={}) was not announced as speculative", c.at));
        }
        let on_tick = if i == 0 { c.at == 0 } else { c.at > 0 && c.at % i == 0 };
        if !on_tick {
            v.bad("start:off-tick", format!("execution #{j} started at t={}, not a multiple of the interval {i}", c.at));
        }
        if i > 0 && c.at < calls[j - 1].at + i {
            v.bad("start:interval-not-kept", format!("execution #{j} started at t={}, previous one at t={}, interval {i}", c.at, calls[j - 1].at));
        }
    }

    // ---- what the started executions will do -----------------------------------
    let done: Vec<(u64, Exec)> = calls.iter().enumerate().map(|(j, c)| (c.at + sc.exec(j).delay, sc.exec(j))).collect();
    let first_answer: Option<u64> = done.iter().filter(|(_, e)| e.kind.is_answer()).map(|(t, _)| *t).min();
    let exhausted_at: Option<u64> = done.iter().filter(|(_, e)| e.kind == Kind::Exhausted).map(|(t, _)| *t).min();
    let all_finished: u64 = done.iter().map(|(t, _)| *t).max().unwrap_or(0);

    for (j, c) in calls.iter().enumerate().skip(1) {
        if let Some(t) = first_answer {
            if c.at > t {
                v.bad("start:after-answer", format!("execution #{j} started at t={} although a success/definitive error arrived at t={t}", c.at));
            }
        }
        if let Some(t) = exhausted_at {
            if c.at > t {
                v.bad("start:after-plan-exhausted", format!("execution #{j} started at t={} although the plan was found exhausted at t={t}", c.at));
            }
        }
    }

    // ---- classes (independent of the verdict) ---------------------------------------
    if calls.len() == 1 + sc.max && sc.max > 0 {
        v.classes.push("all-allowed-executions-started");
    }
    if i > 0 {
        for (j, (t, e)) in done.iter().enumerate() {
            if *t > 0 && *t % i == 0 && *t / i <= sc.max as u64 + 1 {
                v.classes.push(match e.kind {
                    Kind::Success | Kind::Definitive => "tie:answer-with-tick",
                    Kind::Ignorable | Kind::IgnorableAnon => "tie:ignorable-with-tick",
                    Kind::Exhausted => "tie:exhausted-with-tick",
                });
            }
            if done.iter().enumerate().any(|(k, (t2, _))| k != j && t2 == t) {
                v.classes.push("tie:two-completions");
            }
        }
    } else {
        v.classes.push("interval-zero");
    }

    // ---- the returned value ----------------------------------------------------------
    let (at, what) = match obs {
        Observed::Hung => {
            v.bad("return:never", "the call did not return: after the last event nothing was runnable for one virtual hour".into());
            return v;
        }
        Observed::Panicked(p) => {
            v.bad("return:panic", format!("the call panicked: {p}"));
            return v;
        }
        Observed::Returned { at, what } => (*at, what),
    };
    if calls.is_empty() {
        return v;
    }

    match first_answer {
        Some(t) => {
            v.classes.push("returns-first-answer");
            let ok = matches!(what, Returned::Of { exec, kind } if *exec < done.len() && done[*exec].0 == t && done[*exec].1.kind == *kind && kind.is_answer());
            if ok && at == t {
                if done.iter().filter(|(t2, e)| *t2 == t && e.kind.is_answer()).count() > 1 {
                    v.classes.push("tie:two-answers");
                }
                if done.iter().any(|(t2, e)| *t2 < t && e.kind.is_ignorable()) {
                    v.classes.push("answer-after-ignorable-error");
                }
                if done.iter().any(|(t2, _)| *t2 > t) {
                    v.classes.push("answer-while-others-running");
                }
            } else if ok {
                v.bad("return:answer-late", format!("first success/definitive error was available at t={t}, the call returned it at t={at}"));
            } else {
                match what {
                    Returned::Of { kind, .. } if kind.is_answer() => v.bad(
                        "return:not-first-answer",
                        format!("returned {what:?} at t={at}; the first success/definitive error completed at t={t}"),
                    ),
                    _ if at < t => v.bad(
                        "return:error-while-running",
                        format!("returned {what:?} at t={at} while a started execution was still running (it answers at t={t})"),
                    ),
                    _ => v.bad(
                        "return:ignorable-instead-of-answer",
                        format!("returned {what:?} at t={at} although a success/definitive error completed at t={t}"),
                    ),
                }
            }
        }
        None => {
            let may_start_more = calls.len() < 1 + sc.max && exhausted_at.is_none();
            if may_start_more {
                v.bad(
                    "return:while-more-may-start",
                    format!(
                        "returned {what:?} at t={at} after {} of 1 + {} executions, none of which answered or found the plan exhausted",
                        calls.len(),
                        sc.max
                    ),
                );
                return v;
            }
            if at < all_finished {
                v.bad("return:error-while-running", format!("returned {what:?} at t={at}; started executions finish at t={all_finished}"));
                return v;
            }
            if at > all_finished {
                v.bad("return:last-error-late", format!("every started execution had finished at t={all_finished} and none could be started; the call returned at t={at}"));
                return v;
            }
            let last_ign: Option<u64> = done.iter().filter(|(_, e)| e.kind.is_ignorable()).map(|(t, _)| *t).max();
            match last_ign {
                None => {
                    v.classes.push("returns-no-answer-at-all");
                    match what {
                        Returned::EmptyPlan => {}
                        _ => v.bad("return:invented-value", format!("no execution produced a value, yet the call returned {what:?}")),
                    }
                }
                Some(t) => {
                    v.classes.push("returns-last-ignorable-error");
                    if exhausted_at.is_some() {
                        v.classes.push("last-error-after-plan-exhausted");
                    }
                    if calls.len() == 1 + sc.max && exhausted_at.is_none() {
                        v.classes.push("last-error-after-all-retries-used");
                    }
                    let ok = match what {
                        Returned::Of { exec, kind } => *exec < done.len() && done[*exec].0 == t && done[*exec].1.kind == *kind && *kind == Kind::Ignorable,
                        Returned::Anon => done.iter().any(|(t2, e)| *t2 == t && e.kind == Kind::IgnorableAnon),
                        _ => false,
                    };
                    if !ok {
                        v.bad("return:not-last-error", format!("returned {what:?}; the last ignorable error completed at t={t}"));
                    }
                }
            }
        }
    }
    v
}

#[cfg(test)]
mod tests {
    use super::*;
    fn sc(max: usize, interval: u64, s: &[(u64, Kind)]) -> Scenario {
        Scenario { max, interval, script: s.iter().map(|(d, k)| Exec { delay: *d, kind: *k }).collect() }
    }
    #[test]
    fn accepts_the_three_upstream_patterns() {
        // all ignorable, 5 s each, 1 s interval, max 5: last finishes at 10 s
        let s = sc(5, 1000, &[(5000, Kind::Ignorable); 6]);
        let calls: Vec<Call> = (0..6).map(|k| Call { at: k * 1000, speculative: k > 0 }).collect();
        let v = judge(&s, &calls, &Observed::Returned { at: 10000, what: Returned::Of { exec: 5, kind: Kind::Ignorable } });
        assert!(v.violations.is_empty(), "{v:?}");
        let v = judge(&s, &calls, &Observed::Returned { at: 9000, what: Returned::Of { exec: 4, kind: Kind::Ignorable } });
        assert_eq!(v.violations[0].0, "return:error-while-running");
    }
}
