//! Reference model for C16: a table-driven interpreter of the DOCUMENTED semantics of the
//! `SerializeValue` / `DeserializeValue` / `SerializeRow` / `DeserializeRow` derive macros
//! (rustdoc of the four derives in scylla-macros/src/lib.rs, docs/source/data-types/udt.md,
//! docs/source/statements/{values,result}.md), plus a hand-written mini CQL value codec.
//!
//! Nothing in this file calls the driver. Given
//!   * a struct description (fields in declaration order, CQL names after `rename`, flags),
//!   * the database-side description (ordered list of (name, type)),
//!   * the Rust field values (serialization) or the cell contents (deserialization),
//! it predicts accept / reject and, when accepted, the exact bytes or the exact field values.
//!
//! Documented rules implemented here (D = derive rustdoc, U = udt.md, R = result.md, V = values.md):
//!  S1 (D SerializeValue) "Serialization will fail if there are some fields in the Rust struct that
//!     don't match to any of the UDT fields."
//!  S2 (D SerializeValue) UDT fields absent from the Rust struct: match_by_name succeeds, "Missing fields
//!     in the middle of UDT will be sent as NULLs, missing fields at the end will not be sent at all";
//!     enforce_order succeeds only "if suffix of UDT fields is missing. If there are missing fields in
//!     the middle it will fail."
//!  S3 (D) `forbid_excess_udt_fields`: "Forces Rust struct to have all the fields present in UDT,
//!     otherwise serialization fails."
//!  S4 (D, all four) match_by_name "does not require the fields in the Rust struct to be in the same order";
//!     values are emitted "in the order which the database expects"; enforce_order "requires the fields
//!     in the Rust struct to be in the same order ... If the order is incorrect, type checking /
//!     (de)serialization will fail."
//!  S5 (D) `skip_name_checks`: i-th field bound to i-th DB field whatever the names; "Fields are still
//!     being type-checked."
//!  S6 (D) `rename`: the field is bound to the DB name given instead of its Rust name.
//!  S7 (D) `skip`: "Don't use the field during serialization" / "completely ignored during deserialization
//!     and will be initialized with Default::default()".
//!  S8 (D SerializeRow) "Serialization will fail if there are some bind markers/columns in the statement
//!     that don't match to any of the Rust struct fields, or vice versa."
//!  S9 (D SerializeRow) `flatten`: the field's own SerializeRow fields are inlined; its name is ignored.
//!  D1 (D DeserializeValue) excess UDT fields: "enforce_order flavour ignores excess UDT fields in the
//!     suffix of the UDT definition, and the default unordered flavour ignores excess UDT fields
//!     anywhere"; `forbid_excess_udt_fields` "makes sure that no excess fields are present".
//!  D2 (D DeserializeValue) `allow_missing`: "If the UDT definition does not contain this field, it will
//!     be initialized with Default::default()" (hence without it a missing field is an error).
//!  D3 (D) `default_when_null`: "If the value of the field received from DB is null, the field will be
//!     initialized with Default::default()".
//!  D4 (R) "NULL values will return an error when parsed as a Rust type. To properly handle NULL values
//!     parse column as an Option<>".
//!  D5 (D DeserializeRow, R) "the struct must match the queried names and types"; "have the same number of
//!     fields as the number of queried columns" (skipped fields do not take part, S7).
//!  P1 (CQL protocol) a serialized UDT value may stop early; the remaining fields are null.
//!
//! NOT ASSERTED (returned as `Pred::Unspecified`, only "no panic" is checked by the monitor):
//!  N1 `allow_missing` on `SerializeValue`: the attribute is accepted by the derive but not documented
//!     for it. A case is asserted only when reading the attribute as "absent" and reading it as
//!     "drop the field when the UDT does not contain it" (the DeserializeValue wording) agree.
//!  N3 `enforce_order` + `allow_missing` when the UDT lists that field at a LATER position: the docs'
//!     "order is incorrect ⇒ fail" and "UDT does not contain this field ⇒ Default" readings disagree
//!     (the implementation takes the second one and treats the later occurrence as an excess field).
//!  N2 database-side lists with a repeated name for UDTs and for bind markers (cannot be produced by
//!     CREATE TYPE; the docs say nothing about repeated bind-marker names). For result rows a
//!     repeated column cannot be a bijection with the struct's fields (D5) and is asserted REJECT.

use serde_json::{Value, json};

#[derive(Clone, Copy, PartialEq, Eq, Debug, Hash)]
pub enum CqlT {
    Int,
    BigInt,
    Text,
    Boolean,
    Double,
    Blob,
}

impl CqlT {
    pub fn tag(self) -> &'static str {
        match self {
            CqlT::Int => "int",
            CqlT::BigInt => "bigint",
            CqlT::Text => "text",
            CqlT::Boolean => "boolean",
            CqlT::Double => "double",
            CqlT::Blob => "blob",
        }
    }
    pub fn from_tag(s: &str) -> Option<CqlT> {
        Some(match s {
            "int" => CqlT::Int,
            "bigint" => CqlT::BigInt,
            "text" => CqlT::Text,
            "boolean" => CqlT::Boolean,
            "double" => CqlT::Double,
            "blob" => CqlT::Blob,
            _ => return None,
        })
    }
    /// A type that is certainly not wire-compatible with `self` for any Rust carrier used in the family.
    pub fn mismatching(self) -> CqlT {
        match self {
            CqlT::Int => CqlT::Text,
            CqlT::BigInt => CqlT::Boolean,
            CqlT::Text => CqlT::Int,
            CqlT::Boolean => CqlT::Double,
            CqlT::Double => CqlT::Blob,
            CqlT::Blob => CqlT::BigInt,
        }
    }
}

/// A non-null CQL value of one of the native types used by the family.
#[derive(Clone, PartialEq, Debug)]
pub enum Scalar {
    Int(i32),
    BigInt(i64),
    Text(String),
    Boolean(bool),
    /// bit pattern (so that NaNs compare by identity)
    Double(u64),
    Blob(Vec<u8>),
}

impl Scalar {
    pub fn ty(&self) -> CqlT {
        match self {
            Scalar::Int(_) => CqlT::Int,
            Scalar::BigInt(_) => CqlT::BigInt,
            Scalar::Text(_) => CqlT::Text,
            Scalar::Boolean(_) => CqlT::Boolean,
            Scalar::Double(_) => CqlT::Double,
            Scalar::Blob(_) => CqlT::Blob,
        }
    }
    /// Rust's `Default::default()` of the carrier of this CQL type (i32/i64/String/bool/f64/Vec<u8>,
    /// and the borrowed &str / &[u8]).
    pub fn default_of(t: CqlT) -> Scalar {
        match t {
            CqlT::Int => Scalar::Int(0),
            CqlT::BigInt => Scalar::BigInt(0),
            CqlT::Text => Scalar::Text(String::new()),
            CqlT::Boolean => Scalar::Boolean(false),
            CqlT::Double => Scalar::Double(0f64.to_bits()),
            CqlT::Blob => Scalar::Blob(Vec::new()),
        }
    }
    /// CQL binary protocol encoding of the value body (without the [bytes] length prefix).
    pub fn encode_body(&self, out: &mut Vec<u8>) {
        match self {
            Scalar::Int(v) => out.extend_from_slice(&v.to_be_bytes()),
            Scalar::BigInt(v) => out.extend_from_slice(&v.to_be_bytes()),
            Scalar::Text(s) => out.extend_from_slice(s.as_bytes()),
            Scalar::Boolean(b) => out.push(if *b { 1 } else { 0 }),
            Scalar::Double(bits) => out.extend_from_slice(&bits.to_be_bytes()),
            Scalar::Blob(b) => out.extend_from_slice(b),
        }
    }
    pub fn to_json(&self) -> Value {
        match self {
            Scalar::Int(v) => json!({"int": v}),
            Scalar::BigInt(v) => json!({"bigint": v}),
            Scalar::Text(s) => json!({"text": s}),
            Scalar::Boolean(b) => json!({"boolean": b}),
            Scalar::Double(bits) => json!({"double_bits": bits}),
            Scalar::Blob(b) => json!({"blob": b}),
        }
    }
    pub fn from_json(v: &Value) -> Option<Scalar> {
        let o = v.as_object()?;
        let (k, x) = o.iter().next()?;
        Some(match k.as_str() {
            "int" => Scalar::Int(x.as_i64()? as i32),
            "bigint" => Scalar::BigInt(x.as_i64()?),
            "text" => Scalar::Text(x.as_str()?.to_owned()),
            "boolean" => Scalar::Boolean(x.as_bool()?),
            "double_bits" => Scalar::Double(x.as_u64()?),
            "blob" => Scalar::Blob(x.as_array()?.iter().map(|b| b.as_u64().unwrap_or(0) as u8).collect()),
            _ => return None,
        })
    }
}

/// The value of one Rust leaf field: `None` is only legal for `Option<T>` carriers.
pub type MV = Option<Scalar>;

pub fn mv_to_json(v: &MV) -> Value {
    match v {
        None => Value::Null,
        Some(s) => s.to_json(),
    }
}
pub fn mv_from_json(v: &Value) -> MV {
    if v.is_null() { None } else { Scalar::from_json(v) }
}

/// `[bytes]`: i32 length + body, or -1 for null.
pub fn encode_cell(v: &MV, out: &mut Vec<u8>) {
    match v {
        None => out.extend_from_slice(&(-1i32).to_be_bytes()),
        Some(s) => {
            let mut body = Vec::new();
            s.encode_body(&mut body);
            out.extend_from_slice(&(body.len() as i32).to_be_bytes());
            out.extend_from_slice(&body);
        }
    }
}

#[derive(Clone, Copy, PartialEq, Eq, Debug)]
pub enum Flavor {
    ByName,
    Ordered,
}

#[derive(Clone, Debug)]
pub enum FieldKind {
    Leaf { ty: CqlT, optional: bool },
    /// `#[scylla(flatten)]` (SerializeRow only)
    Flatten(Box<StructDesc>),
}

#[derive(Clone, Debug)]
pub struct FieldDesc {
    pub rust: &'static str,
    /// name on the database side (`rename` applied)
    pub cql: String,
    pub renamed: bool,
    pub kind: FieldKind,
    pub skip: bool,
    pub allow_missing: bool,
    pub default_when_null: bool,
}

#[derive(Clone, Debug)]
pub struct StructDesc {
    pub name: &'static str,
    pub flavor: Flavor,
    pub skip_name_checks: bool,
    pub forbid_excess: bool,
    pub fields: Vec<FieldDesc>,
}

/// One leaf of the (possibly flattened) struct, in declaration (pre-)order.
#[derive(Clone, Debug)]
pub struct LeafDesc {
    pub rust: &'static str,
    pub cql: String,
    pub renamed: bool,
    pub ty: CqlT,
    pub optional: bool,
    pub skip: bool,
    pub allow_missing: bool,
    pub default_when_null: bool,
    /// false when the struct that owns the leaf has `skip_name_checks`
    pub name_checked: bool,
    pub depth: usize,
}

impl StructDesc {
    /// All leaves in pre-order (skipped ones included: values are indexed by this list).
    pub fn leaves(&self) -> Vec<LeafDesc> {
        let mut out = Vec::new();
        self.leaves_into(&mut out, 0, false);
        out
    }
    fn leaves_into(&self, out: &mut Vec<LeafDesc>, depth: usize, parent_skipped: bool) {
        for f in &self.fields {
            match &f.kind {
                FieldKind::Leaf { ty, optional } => out.push(LeafDesc {
                    rust: f.rust,
                    cql: f.cql.clone(),
                    renamed: f.renamed,
                    ty: *ty,
                    optional: *optional,
                    skip: f.skip || parent_skipped,
                    allow_missing: f.allow_missing,
                    default_when_null: f.default_when_null,
                    name_checked: !self.skip_name_checks,
                    depth,
                }),
                FieldKind::Flatten(inner) => inner.leaves_into(out, depth + 1, parent_skipped || f.skip),
            }
        }
    }
    pub fn has_flatten(&self) -> bool {
        self.fields.iter().any(|f| matches!(f.kind, FieldKind::Flatten(_)))
    }
    pub fn default_of_leaf(l: &LeafDesc) -> MV {
        if l.optional { None } else { Some(Scalar::default_of(l.ty)) }
    }
}

#[derive(Clone, PartialEq, Eq, Debug, Hash)]
pub struct DbField {
    pub name: String,
    pub ty: CqlT,
}

/// Content of one database cell handed to deserialization.
#[derive(Clone, PartialEq, Debug)]
pub enum Cell {
    Null,
    Val(Scalar),
}

#[derive(Clone, PartialEq, Debug)]
pub enum Pred<T> {
    Accept(T),
    /// `rule` names the documented rule that forces the rejection (stable, used in signatures)
    Reject(&'static str),
    Unspecified(&'static str),
}

impl<T> Pred<T> {
    pub fn tag(&self) -> &'static str {
        match self {
            Pred::Accept(_) => "accept",
            Pred::Reject(_) => "reject",
            Pred::Unspecified(_) => "unspecified",
        }
    }
}

fn has_dup_names(db: &[DbField]) -> bool {
    for i in 0..db.len() {
        for j in 0..i {
            if db[i].name == db[j].name {
                return true;
            }
        }
    }
    false
}

/// How the (non-skipped) fields bind to database positions: `bind[i] = Some(position)`.
struct Binding {
    /// per active field: db position
    pos: Vec<usize>,
}

/// Metadata-level matching shared by all four entry points.
///
/// `fields`: the active (non-skipped, not dropped) leaves in declaration order.
/// `excess_ok`: what to do with database entries bound to no field:
///   by-name: allowed anywhere iff `excess_anywhere`; ordered: allowed as a suffix iff `excess_suffix`.
fn bind(
    flavor: Flavor,
    fields: &[&LeafDesc],
    db: &[DbField],
    excess_allowed: bool,
) -> Result<Binding, &'static str> {
    match flavor {
        Flavor::ByName => {
            let mut pos = Vec::with_capacity(fields.len());
            for f in fields {
                match db.iter().position(|d| d.name == f.cql) {
                    None => return Err("field-without-db-counterpart"),
                    Some(p) => {
                        if db[p].ty != f.ty {
                            return Err("type-mismatch");
                        }
                        pos.push(p);
                    }
                }
            }
            if !excess_allowed && db.len() > fields.len() {
                return Err("excess-db-field");
            }
            Ok(Binding { pos })
        }
        Flavor::Ordered => {
            if db.len() < fields.len() {
                return Err("field-without-db-counterpart");
            }
            for (i, f) in fields.iter().enumerate() {
                if f.name_checked && db[i].name != f.cql {
                    return Err("order-or-name-mismatch");
                }
                if db[i].ty != f.ty {
                    return Err("type-mismatch");
                }
            }
            if !excess_allowed && db.len() > fields.len() {
                return Err("excess-db-field");
            }
            Ok(Binding { pos: (0..fields.len()).collect() })
        }
    }
}

/// Fields that take part after `skip` and (when `apply_allow_missing`) after dropping
/// `allow_missing` fields the database side "does not contain" (D2): by name when names are
/// checked, by position (trailing fields beyond the database's length) under `skip_name_checks`.
fn active_fields<'l>(desc: &StructDesc, leaves: &'l [LeafDesc], db: &[DbField], apply_allow_missing: bool) -> (Vec<&'l LeafDesc>, Vec<usize>) {
    let mut act: Vec<&LeafDesc> = Vec::new();
    let mut idx: Vec<usize> = Vec::new();
    for (i, l) in leaves.iter().enumerate() {
        if l.skip {
            continue;
        }
        if apply_allow_missing && l.allow_missing && l.name_checked && !db.iter().any(|d| d.name == l.cql) {
            continue;
        }
        act.push(l);
        idx.push(i);
    }
    if apply_allow_missing && desc.flavor == Flavor::Ordered && desc.skip_name_checks {
        while act.len() > db.len() && act.last().map(|l| l.allow_missing).unwrap_or(false) {
            act.pop();
            idx.pop();
        }
    }
    (act, idx)
}

/// Only used to NAME a rejection (signature tag), never to decide one: would the list be accepted
/// if an `allow_missing` field could be treated as missing although the database side does list it
/// (at another position), its entry then counting as an excess suffix entry? The documentation
/// rejects such lists (S4 "If the order is incorrect ... will fail"; D2 applies only when "the UDT
/// definition does not contain this field"); the tag keeps this family of rejections apart.
fn displaced_allow_missing(desc: &StructDesc, leaves: &[LeafDesc], db: &[DbField], excess_allowed: bool) -> bool {
    if desc.flavor != Flavor::Ordered || desc.skip_name_checks {
        return false;
    }
    let mut p = 0usize;
    let mut displaced = false;
    for l in leaves.iter().filter(|l| !l.skip) {
        match db.get(p) {
            Some(d) if d.name == l.cql => {
                if d.ty != l.ty {
                    return false;
                }
                p += 1;
            }
            _ if l.allow_missing => {
                if db.iter().any(|d| d.name == l.cql) {
                    displaced = true;
                }
            }
            _ => return false,
        }
    }
    displaced && (excess_allowed || p == db.len())
}

const DISPLACED: &str = "order(allow_missing-field-listed-at-another-position)";
/// N3 (not asserted): `enforce_order` + `allow_missing` where the UDT does list the field, but at a later
/// position. The docs say both "if the order is incorrect … will fail" and "if the UDT definition does
/// not contain this field (at the expected place?) it is initialised with Default"; the implementation
/// reads the field as missing and the later occurrence as an excess field. The two readings disagree,
/// so only "no panic" is checked for this shape.
const N3: &str = "N3: enforce_order + allow_missing field listed at another position";

// ---------------------------------------------------------------------------------------------
// SerializeValue (UDT)
// ---------------------------------------------------------------------------------------------

fn ser_udt_under(desc: &StructDesc, leaves: &[LeafDesc], db: &[DbField], vals: &[MV], apply_am: bool) -> Pred<Vec<u8>> {
    let (act, idx) = active_fields(desc, leaves, db, apply_am);
    let b = match bind(desc.flavor, &act, db, !desc.forbid_excess) {
        Ok(b) => b,
        Err(_) if displaced_allow_missing(desc, leaves, db, !desc.forbid_excess) => return Pred::Unspecified(N3),
        // (tag only) S1 violated for a field WITHOUT allow_missing in a struct that also has allow_missing fields
        Err("field-without-db-counterpart") if leaves.iter().any(|l| !l.skip && l.allow_missing) => {
            return Pred::Reject("field-without-db-counterpart(struct-has-allow_missing-fields)");
        }
        Err(r) => return Pred::Reject(r),
    };
    // S2: db entries without a field are NULL in the middle and not sent at the end.
    let mut by_pos: Vec<Option<usize>> = vec![None; db.len()];
    for (k, p) in b.pos.iter().enumerate() {
        by_pos[*p] = Some(idx[k]);
    }
    let last = by_pos.iter().rposition(|x| x.is_some());
    let mut body = Vec::new();
    if let Some(last) = last {
        for p in 0..=last {
            match by_pos[p] {
                Some(vi) => encode_cell(&vals[vi], &mut body),
                None => encode_cell(&None, &mut body),
            }
        }
    }
    let mut out = Vec::with_capacity(body.len() + 4);
    out.extend_from_slice(&(body.len() as i32).to_be_bytes());
    out.extend_from_slice(&body);
    Pred::Accept(out)
}

/// Bytes a `CellWriter` must contain after serializing the struct as a UDT of the given definition.
pub fn predict_ser_udt(desc: &StructDesc, db: &[DbField], vals: &[MV]) -> Pred<Vec<u8>> {
    let leaves = desc.leaves();
    assert_eq!(leaves.len(), vals.len());
    if desc.flavor == Flavor::ByName && has_dup_names(db) {
        return Pred::Unspecified("N2: repeated UDT field name");
    }
    let strict = ser_udt_under(desc, &leaves, db, vals, false);
    if leaves.iter().any(|l| !l.skip && l.allow_missing) {
        let lenient = ser_udt_under(desc, &leaves, db, vals, true);
        let same = match (&strict, &lenient) {
            (Pred::Accept(a), Pred::Accept(b)) => a == b,
            (Pred::Reject(_), Pred::Reject(_)) => true,
            _ => false,
        };
        if !same {
            return Pred::Unspecified("N1: allow_missing is not documented for SerializeValue");
        }
    }
    strict
}

// ---------------------------------------------------------------------------------------------
// SerializeRow
// ---------------------------------------------------------------------------------------------

/// (bytes written into the RowWriter's buffer, number of values)
pub fn predict_ser_row(desc: &StructDesc, db: &[DbField], vals: &[MV]) -> Pred<(Vec<u8>, usize)> {
    let leaves = desc.leaves();
    assert_eq!(leaves.len(), vals.len());
    if desc.flavor == Flavor::ByName && has_dup_names(db) {
        return Pred::Unspecified("N2: repeated bind marker name");
    }
    let (act, idx) = active_fields(desc, &leaves, db, false);
    // S8: exact correspondence in both directions.
    let b = match bind(desc.flavor, &act, db, false) {
        Ok(b) => b,
        Err(r) => return Pred::Reject(r),
    };
    let mut by_pos: Vec<Option<usize>> = vec![None; db.len()];
    for (k, p) in b.pos.iter().enumerate() {
        by_pos[*p] = Some(idx[k]);
    }
    let mut out = Vec::new();
    for p in by_pos {
        match p {
            Some(vi) => encode_cell(&vals[vi], &mut out),
            None => unreachable!("bijection"),
        }
    }
    Pred::Accept((out, db.len()))
}

// ---------------------------------------------------------------------------------------------
// Deserialization
// ---------------------------------------------------------------------------------------------

/// What the metadata alone (type_check) must decide, and the binding when accepted.
fn de_bind(desc: &StructDesc, leaves: &[LeafDesc], db: &[DbField], udt: bool) -> Result<(Vec<usize>, Vec<usize>), &'static str> {
    let (act, idx) = active_fields(desc, leaves, db, udt);
    let excess_allowed = udt && !desc.forbid_excess;
    match bind(desc.flavor, &act, db, excess_allowed) {
        Ok(b) => Ok((idx, b.pos)),
        Err(_) if udt && displaced_allow_missing(desc, leaves, db, excess_allowed) => Err(DISPLACED),
        Err(r) => Err(r),
    }
}

fn fill(leaves: &[LeafDesc], idx: &[usize], pos: &[usize], cells: &[Cell]) -> Pred<Vec<MV>> {
    let mut out: Vec<MV> = leaves.iter().map(StructDesc::default_of_leaf).collect();
    for (k, li) in idx.iter().enumerate() {
        let l = &leaves[*li];
        // P1: positions past the end of a truncated UDT value are null
        let cell = cells.get(pos[k]).unwrap_or(&Cell::Null);
        out[*li] = match cell {
            Cell::Val(s) => Some(s.clone()),
            Cell::Null => {
                if l.default_when_null {
                    StructDesc::default_of_leaf(l) // D3
                } else if l.optional {
                    None
                } else {
                    return Pred::Reject("null-into-non-option"); // D4
                }
            }
        };
    }
    Pred::Accept(out)
}

/// `cells.len() <= db.len()` (a UDT value may stop early, P1).
pub fn predict_de_udt(desc: &StructDesc, db: &[DbField], cells: &[Cell]) -> Pred<Vec<MV>> {
    let leaves = desc.leaves();
    if desc.flavor == Flavor::ByName && has_dup_names(db) {
        return Pred::Unspecified("N2: repeated UDT field name");
    }
    match de_bind(desc, &leaves, db, true) {
        Err(r) if r == DISPLACED => Pred::Unspecified(N3),
        Err(r) => Pred::Reject(r),
        Ok((idx, pos)) => fill(&leaves, &idx, &pos, cells),
    }
}

/// Verdict of the metadata stage only (what `type_check` may at most know).
pub fn predict_typecheck_udt(desc: &StructDesc, db: &[DbField]) -> Pred<()> {
    let leaves = desc.leaves();
    if desc.flavor == Flavor::ByName && has_dup_names(db) {
        return Pred::Unspecified("N2: repeated UDT field name");
    }
    match de_bind(desc, &leaves, db, true) {
        Err(r) if r == DISPLACED => Pred::Unspecified(N3),
        Err(r) => Pred::Reject(r),
        Ok(_) => Pred::Accept(()),
    }
}

/// `cells.len() == db.len()`.
pub fn predict_de_row(desc: &StructDesc, db: &[DbField], cells: &[Cell]) -> Pred<Vec<MV>> {
    let leaves = desc.leaves();
    if desc.flavor == Flavor::ByName && has_dup_names(db) {
        return Pred::Reject("repeated-column(D5)");
    }
    match de_bind(desc, &leaves, db, false) {
        Err(r) => Pred::Reject(r),
        Ok((idx, pos)) => fill(&leaves, &idx, &pos, cells),
    }
}

pub fn predict_typecheck_row(desc: &StructDesc, db: &[DbField]) -> Pred<()> {
    let leaves = desc.leaves();
    if desc.flavor == Flavor::ByName && has_dup_names(db) {
        return Pred::Reject("repeated-column(D5)");
    }
    match de_bind(desc, &leaves, db, false) {
        Err(r) => Pred::Reject(r),
        Ok(_) => Pred::Accept(()),
    }
}

/// Encodes cells as a UDT value body / a row (identical layout: a sequence of [bytes]).
pub fn encode_cells(cells: &[Cell]) -> Vec<u8> {
    let mut out = Vec::new();
    for c in cells {
        match c {
            Cell::Null => encode_cell(&None, &mut out),
            Cell::Val(s) => encode_cell(&Some(s.clone()), &mut out),
        }
    }
    out
}

/// Independent decoder of a sequence of [bytes] typed by `db` (used for the round-trip equation:
/// the bytes the driver's serializer produced are split here, not by the driver).
pub fn decode_cells(db: &[DbField], mut b: &[u8]) -> Option<Vec<Cell>> {
    let mut out = Vec::new();
    for d in db {
        if b.is_empty() {
            break; // truncated UDT
        }
        if b.len() < 4 {
            return None;
        }
        let n = i32::from_be_bytes([b[0], b[1], b[2], b[3]]);
        b = &b[4..];
        if n < 0 {
            out.push(Cell::Null);
            continue;
        }
        let n = n as usize;
        if b.len() < n {
            return None;
        }
        let body = &b[..n];
        b = &b[n..];
        let s = match d.ty {
            CqlT::Int => Scalar::Int(i32::from_be_bytes(body.try_into().ok()?)),
            CqlT::BigInt => Scalar::BigInt(i64::from_be_bytes(body.try_into().ok()?)),
            CqlT::Text => Scalar::Text(String::from_utf8(body.to_vec()).ok()?),
            CqlT::Boolean => Scalar::Boolean(*body.first()? != 0),
            CqlT::Double => Scalar::Double(u64::from_be_bytes(body.try_into().ok()?)),
            CqlT::Blob => Scalar::Blob(body.to_vec()),
        };
        out.push(Cell::Val(s));
    }
    if !b.is_empty() {
        return None;
    }
    Some(out)
}

#[cfg(test)]
mod tests {
    use super::*;
    #[test]
    fn cell_vectors() {
        let mut o = Vec::new();
        encode_cell(&Some(Scalar::Int(1)), &mut o);
        encode_cell(&None, &mut o);
        encode_cell(&Some(Scalar::Text("ab".into())), &mut o);
        assert_eq!(o, vec![0, 0, 0, 4, 0, 0, 0, 1, 255, 255, 255, 255, 0, 0, 0, 2, b'a', b'b']);
    }
}
