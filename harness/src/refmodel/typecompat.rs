//! Type-compatibility oracle for C17, written from the DOCUMENTATION only:
//!
//! * `/repo/docs/source/data-types/data-types.md` ("Database types and their Rust
//!   equivalents") and the per-type pages next to it (primitive, text, counter, blob,
//!   inet, uuid, timeuuid, date, time, timestamp, duration, decimal, varint,
//!   collections, tuple, udt, vector),
//! * `/repo/docs/source/statements/values.md` (`Option::None` = NULL, `Unset`,
//!   `MaybeUnset`),
//! * the rustdoc of the derive macros `SerializeValue` / `DeserializeValue`
//!   (`/repo/scylla-macros/src/lib.rs`) for the UDT rules,
//! * the rustdoc of `value::MaybeEmpty`, `value::CqlValue`, and the feature comments in
//!   `Cargo.toml` ("support for CQL ser/de of Secrecy type") for the wrappers.
//!
//! Nothing here looks at a `SerializeValue` / `DeserializeValue` impl and the module
//! does not use any driver type: column types are the model's own [`Ty`], carriers
//! are described by the carrier expression [`Car`].
//!
//! Three verdicts:
//! * `Accept`  – the documentation lists the pair (MUST_ACCEPT);
//! * `Reject`  – the value/target does not fit the column (MUST_REJECT);
//! * `Either`  – wire-compatible extra on which the documentation is silent; every
//!               such rule carries its own justification and is reported as
//!               "not asserted" in the evidence.

use serde_json::{Value, json};

#[derive(Clone, Copy, Debug, PartialEq, Eq, Hash, PartialOrd, Ord)]
pub enum Nat {
    Ascii,
    BigInt,
    Blob,
    Boolean,
    Counter,
    Date,
    Decimal,
    Double,
    Duration,
    Float,
    Inet,
    Int,
    SmallInt,
    Text,
    Time,
    Timestamp,
    Timeuuid,
    TinyInt,
    Uuid,
    Varint,
}

pub const NATIVES: [Nat; 20] = [
    Nat::Ascii,
    Nat::BigInt,
    Nat::Blob,
    Nat::Boolean,
    Nat::Counter,
    Nat::Date,
    Nat::Decimal,
    Nat::Double,
    Nat::Duration,
    Nat::Float,
    Nat::Inet,
    Nat::Int,
    Nat::SmallInt,
    Nat::Text,
    Nat::Time,
    Nat::Timestamp,
    Nat::Timeuuid,
    Nat::TinyInt,
    Nat::Uuid,
    Nat::Varint,
];

impl Nat {
    pub fn name(self) -> &'static str {
        match self {
            Nat::Ascii => "ascii",
            Nat::BigInt => "bigint",
            Nat::Blob => "blob",
            Nat::Boolean => "boolean",
            Nat::Counter => "counter",
            Nat::Date => "date",
            Nat::Decimal => "decimal",
            Nat::Double => "double",
            Nat::Duration => "duration",
            Nat::Float => "float",
            Nat::Inet => "inet",
            Nat::Int => "int",
            Nat::SmallInt => "smallint",
            Nat::Text => "text",
            Nat::Time => "time",
            Nat::Timestamp => "timestamp",
            Nat::Timeuuid => "timeuuid",
            Nat::TinyInt => "tinyint",
            Nat::Uuid => "uuid",
            Nat::Varint => "varint",
        }
    }
    pub fn from_name(s: &str) -> Option<Nat> {
        NATIVES.iter().copied().find(|n| n.name() == s)
    }
}

/// A CQL column type (the model's own representation).
#[derive(Clone, Debug, PartialEq, Eq, Hash)]
pub enum Ty {
    Nat(Nat),
    List(Box<Ty>),
    Set(Box<Ty>),
    Map(Box<Ty>, Box<Ty>),
    Vector(Box<Ty>, u16),
    Tuple(Vec<Ty>),
    Udt { ks: String, name: String, fields: Vec<(String, Ty)> },
}

impl Ty {
    pub fn list(t: Ty) -> Ty {
        Ty::List(Box::new(t))
    }
    pub fn set(t: Ty) -> Ty {
        Ty::Set(Box::new(t))
    }
    pub fn map(k: Ty, v: Ty) -> Ty {
        Ty::Map(Box::new(k), Box::new(v))
    }
    pub fn vector(t: Ty, d: u16) -> Ty {
        Ty::Vector(Box::new(t), d)
    }
    pub fn udt(ks: &str, name: &str, fields: Vec<(&str, Ty)>) -> Ty {
        Ty::Udt { ks: ks.into(), name: name.into(), fields: fields.into_iter().map(|(n, t)| (n.to_string(), t)).collect() }
    }
    /// nesting depth: natives 0, container of natives 1, ...
    pub fn depth(&self) -> usize {
        match self {
            Ty::Nat(_) => 0,
            Ty::List(t) | Ty::Set(t) | Ty::Vector(t, _) => 1 + t.depth(),
            Ty::Map(k, v) => 1 + k.depth().max(v.depth()),
            Ty::Tuple(ts) => 1 + ts.iter().map(|t| t.depth()).max().unwrap_or(0),
            Ty::Udt { fields, .. } => 1 + fields.iter().map(|(_, t)| t.depth()).max().unwrap_or(0),
        }
    }
    pub fn kind(&self) -> &'static str {
        match self {
            Ty::Nat(_) => "native",
            Ty::List(_) => "list",
            Ty::Set(_) => "set",
            Ty::Map(..) => "map",
            Ty::Vector(..) => "vector",
            Ty::Tuple(_) => "tuple",
            Ty::Udt { .. } => "udt",
        }
    }
    pub fn show(&self) -> String {
        match self {
            Ty::Nat(n) => n.name().to_string(),
            Ty::List(t) => format!("list<{}>", t.show()),
            Ty::Set(t) => format!("set<{}>", t.show()),
            Ty::Map(k, v) => format!("map<{},{}>", k.show(), v.show()),
            Ty::Vector(t, d) => format!("vector<{},{}>", t.show(), d),
            Ty::Tuple(ts) => format!("tuple<{}>", ts.iter().map(|t| t.show()).collect::<Vec<_>>().join(",")),
            Ty::Udt { ks, name, fields } => {
                format!("{}.{}{{{}}}", ks, name, fields.iter().map(|(n, t)| format!("{}:{}", n, t.show())).collect::<Vec<_>>().join(","))
            }
        }
    }
    pub fn to_json(&self) -> Value {
        match self {
            Ty::Nat(n) => json!(n.name()),
            Ty::List(t) => json!({"list": t.to_json()}),
            Ty::Set(t) => json!({"set": t.to_json()}),
            Ty::Map(k, v) => json!({"map": [k.to_json(), v.to_json()]}),
            Ty::Vector(t, d) => json!({"vector": [t.to_json(), d]}),
            Ty::Tuple(ts) => json!({"tuple": ts.iter().map(|t| t.to_json()).collect::<Vec<_>>()}),
            Ty::Udt { ks, name, fields } => json!({"udt": {"ks": ks, "name": name,
                "fields": fields.iter().map(|(n, t)| json!([n, t.to_json()])).collect::<Vec<_>>()}}),
        }
    }
    pub fn from_json(v: &Value) -> Option<Ty> {
        if let Some(s) = v.as_str() {
            return Nat::from_name(s).map(Ty::Nat);
        }
        let o = v.as_object()?;
        if let Some(t) = o.get("list") {
            return Some(Ty::list(Ty::from_json(t)?));
        }
        if let Some(t) = o.get("set") {
            return Some(Ty::set(Ty::from_json(t)?));
        }
        if let Some(t) = o.get("map") {
            return Some(Ty::map(Ty::from_json(&t[0])?, Ty::from_json(&t[1])?));
        }
        if let Some(t) = o.get("vector") {
            return Some(Ty::vector(Ty::from_json(&t[0])?, t[1].as_u64()? as u16));
        }
        if let Some(t) = o.get("tuple") {
            return t.as_array()?.iter().map(Ty::from_json).collect::<Option<Vec<_>>>().map(Ty::Tuple);
        }
        if let Some(t) = o.get("udt") {
            let fields = t["fields"]
                .as_array()?
                .iter()
                .map(|f| Some((f[0].as_str()?.to_string(), Ty::from_json(&f[1])?)))
                .collect::<Option<Vec<_>>>()?;
            return Some(Ty::Udt { ks: t["ks"].as_str()?.into(), name: t["name"].as_str()?.into(), fields });
        }
        None
    }
}

// ---------------------------------------------------------------------------------
// The table proper: scalar carriers and the CQL natives the documentation pairs them
// with. One row per Rust leaf type; `doc` says where the pairing is written down.
// ---------------------------------------------------------------------------------

#[derive(Clone, Copy, Debug, PartialEq, Eq, Hash)]
pub enum Leaf {
    Bool,
    I8,
    I16,
    I32,
    I64,
    F32,
    F64,
    /// `&str`, `String`, `Box<str>`, `Arc<str>`, `Cow<str>`, secret strings
    Str,
    /// `&[u8]`, `Vec<u8>`, `Bytes`, `[u8; N]`
    Bytes,
    IpAddr,
    Uuid,
    CqlTimeuuid,
    /// `CqlDate`, `chrono::NaiveDate`, `time::Date`
    DateLike,
    /// `CqlTime`, `chrono::NaiveTime`, `time::Time`
    TimeLike,
    /// `CqlTimestamp`, `chrono::DateTime<Utc>`, `time::OffsetDateTime`
    TimestampLike,
    CqlDuration,
    /// `CqlDecimal`, `CqlDecimalBorrowed`, `bigdecimal::BigDecimal`
    DecimalLike,
    /// `CqlVarint`, `CqlVarintBorrowed`, `num_bigint::BigInt` 0.3 / 0.4
    VarintLike,
    Counter,
    /// dynamic `CqlValue::Ascii(String)` (serialization only)
    DynAscii,
    /// dynamic `CqlValue::Text(String)` (serialization only)
    DynText,
}

pub struct LeafRow {
    pub leaf: Leaf,
    pub doc: &'static str,
    /// MUST_ACCEPT (both directions unless noted in `either_*`)
    pub accept: &'static [Nat],
    /// EITHER, serialization direction: (column type, justification)
    pub either_ser: &'static [(Nat, &'static str)],
    /// EITHER, deserialization (`type_check`) direction
    pub either_de: &'static [(Nat, &'static str)],
}

const E_I64_COUNTER: &str = "[i64~counter] counter.md documents `Counter` as `struct Counter(pub i64)`: the wire form is the identical 8-byte big-endian integer and the meaning is the same number; data-types.md neither lists nor excludes plain i64 for counter";
const E_I64_TIMESTAMP: &str = "[i64~timestamp] timestamp.md: 'Internally timestamp is represented as i64 describing number of milliseconds since unix epoch' and `CqlTimestamp` 'is an i64 wrapper'; identical wire form, docs silent on the bare i64";
const E_I64_TIME: &str = "[i64~time] time.md: 'CqlTime ... is an i64 wrapper and it matches the internal time representation'; identical 8-byte wire form, docs silent on the bare i64";
const E_TIMEUUID_AS_UUID: &str = "[timeuuid~uuid] timeuuid.md: '`CqlTimeuuid` is a wrapper for `uuid::Uuid`'; every timeuuid is a valid uuid with the identical 16-byte wire form; docs silent on the cross pairing";
const E_DYN_ASCII_TEXT: &str = "[CqlValue::Ascii->text] an ASCII string is a valid `text` value with the identical wire form (ascii is a subset of UTF-8); CqlValue rustdoc does not say whether the Ascii variant may feed a text column";
const E_DYN_TEXT_ASCII: &str = "[CqlValue::Text->ascii] text.md pairs `String` with ascii, text and varchar alike and `CqlValue::Text` wraps a `String`; the CqlValue rustdoc is silent on feeding an ascii column from the Text variant";

pub const LEAF_TABLE: &[LeafRow] = &[
    LeafRow { leaf: Leaf::Bool, doc: "primitive.md: `Bool` is represented as rust `bool`", accept: &[Nat::Boolean], either_ser: &[], either_de: &[] },
    LeafRow { leaf: Leaf::I8, doc: "primitive.md: `Tinyint` is represented as rust `i8`", accept: &[Nat::TinyInt], either_ser: &[], either_de: &[] },
    LeafRow { leaf: Leaf::I16, doc: "primitive.md: `Smallint` is represented as rust `i16`", accept: &[Nat::SmallInt], either_ser: &[], either_de: &[] },
    LeafRow { leaf: Leaf::I32, doc: "primitive.md: `Int` is represented as rust `i32`", accept: &[Nat::Int], either_ser: &[], either_de: &[] },
    LeafRow {
        leaf: Leaf::I64,
        doc: "primitive.md: `Bigint` is represented as rust `i64`",
        accept: &[Nat::BigInt],
        either_ser: &[(Nat::Counter, E_I64_COUNTER), (Nat::Timestamp, E_I64_TIMESTAMP), (Nat::Time, E_I64_TIME)],
        either_de: &[(Nat::Counter, E_I64_COUNTER), (Nat::Timestamp, E_I64_TIMESTAMP), (Nat::Time, E_I64_TIME)],
    },
    LeafRow { leaf: Leaf::F32, doc: "primitive.md: `Float` is represented as rust `f32`", accept: &[Nat::Float], either_ser: &[], either_de: &[] },
    LeafRow { leaf: Leaf::F64, doc: "primitive.md: `Double` is represented as rust `f64`", accept: &[Nat::Double], either_ser: &[], either_de: &[] },
    LeafRow {
        leaf: Leaf::Str,
        doc: "text.md: `Ascii`, `Text` and `Varchar` are represented as any of `&str`, `String`, `Box<str>`, `Arc<str>` (varchar is an alias of text); data-types.md: Box/Arc/Cow supported for all",
        accept: &[Nat::Ascii, Nat::Text],
        either_ser: &[],
        either_de: &[],
    },
    LeafRow { leaf: Leaf::Bytes, doc: "blob.md: `Blob` is represented as `&[u8]`, `Vec<u8>`, `bytes::Bytes`, `[u8; N]` (serialization only)", accept: &[Nat::Blob], either_ser: &[], either_de: &[] },
    LeafRow { leaf: Leaf::IpAddr, doc: "inet.md: `Inet` is represented as `std::net::IpAddr`", accept: &[Nat::Inet], either_ser: &[], either_de: &[] },
    LeafRow {
        leaf: Leaf::Uuid,
        doc: "uuid.md: `Uuid` is represented as `uuid::Uuid`",
        accept: &[Nat::Uuid],
        // binding an arbitrary Uuid to a timeuuid column is a mismatch (not every uuid is version 1): MUST_REJECT
        either_ser: &[],
        // reading a timeuuid column into a plain Uuid loses nothing
        either_de: &[(Nat::Timeuuid, E_TIMEUUID_AS_UUID)],
    },
    LeafRow {
        leaf: Leaf::CqlTimeuuid,
        doc: "timeuuid.md: the `Timeuuid` type is represented as `value::CqlTimeuuid`",
        accept: &[Nat::Timeuuid],
        either_ser: &[(Nat::Uuid, E_TIMEUUID_AS_UUID)],
        // reading an arbitrary uuid column as a timeuuid is a mismatch: MUST_REJECT
        either_de: &[],
    },
    LeafRow { leaf: Leaf::DateLike, doc: "date.md: `value::CqlDate`, `chrono::NaiveDate`, `time::Date`", accept: &[Nat::Date], either_ser: &[], either_de: &[] },
    LeafRow { leaf: Leaf::TimeLike, doc: "time.md: `value::CqlTime`, `chrono::NaiveTime`, `time::Time`", accept: &[Nat::Time], either_ser: &[], either_de: &[] },
    LeafRow { leaf: Leaf::TimestampLike, doc: "timestamp.md: `value::CqlTimestamp`, `chrono::DateTime<Utc>`, `time::OffsetDateTime`", accept: &[Nat::Timestamp], either_ser: &[], either_de: &[] },
    LeafRow { leaf: Leaf::CqlDuration, doc: "duration.md: `Duration` is represented as `CqlDuration`", accept: &[Nat::Duration], either_ser: &[], either_de: &[] },
    LeafRow { leaf: Leaf::DecimalLike, doc: "decimal.md: `value::CqlDecimal`, `value::CqlDecimalBorrowed`, `bigdecimal::BigDecimal`", accept: &[Nat::Decimal], either_ser: &[], either_de: &[] },
    LeafRow { leaf: Leaf::VarintLike, doc: "varint.md: `value::CqlVarint`, `value::CqlVarintBorrowed`, `num_bigint::BigInt` (v0.3 and v0.4)", accept: &[Nat::Varint], either_ser: &[], either_de: &[] },
    LeafRow { leaf: Leaf::Counter, doc: "counter.md: `Counter` is represented as `struct Counter(pub i64)`", accept: &[Nat::Counter], either_ser: &[], either_de: &[] },
    LeafRow { leaf: Leaf::DynAscii, doc: "CqlValue rustdoc: variant Ascii holds an ascii column value", accept: &[Nat::Ascii], either_ser: &[(Nat::Text, E_DYN_ASCII_TEXT)], either_de: &[] },
    LeafRow { leaf: Leaf::DynText, doc: "CqlValue rustdoc: variant Text holds a text column value", accept: &[Nat::Text], either_ser: &[(Nat::Ascii, E_DYN_TEXT_ASCII)], either_de: &[] },
];

pub fn leaf_row(l: Leaf) -> &'static LeafRow {
    LEAF_TABLE.iter().find(|r| r.leaf == l).expect("leaf row")
}

// Justifications of the structural EITHER rules (containers).
pub const E_SET_CARRIER_INTO_LIST: &str = "[set-carrier->list] collections.md pairs HashSet/BTreeSet with `Set` only; a set value is a valid list value with the identical wire form (count + elements) and nothing is lost, docs silent";
pub const E_SHORT_TUPLE: &str = "[short-tuple] tuple.md does not discuss arity; a CQL tuple value may legally carry fewer elements than its type (missing trailing elements read as null), so a shorter Rust tuple is wire-compatible";
pub const E_DYN_SEQ_CROSS: &str = "[CqlValue-seq-cross-kind] CqlValue::List / ::Set / ::Vector all hold a `Vec<CqlValue>` and data-types.md pairs `Vec<T>` with list, set and vector alike; the CqlValue rustdoc is silent on feeding a different sequence kind";
pub const E_DYN_UDT_MISSING_FIELD: &str = "[CqlValue-udt-missing-field] a UDT value may omit fields (they are read as null, cf. the SerializeValue derive doc 'missing fields ... will be sent as NULLs / not sent at all'); the CqlValue rustdoc is silent for the dynamic variant";

/// How the `SerializeValue` / `DeserializeValue` derive was configured.
#[derive(Clone, Copy, Debug, PartialEq, Eq)]
pub enum UdtFlavor {
    /// default `match_by_name`
    ByName,
    /// `#[scylla(flavor = "enforce_order")]`
    Ordered,
}

/// Carrier expression: what the Rust side looks like, as far as the documentation's
/// pairing rules care. Container carriers in the catalogue always hold at least one
/// element at every level (an empty `Vec<i64>` is a perfectly good empty `list<int>`,
/// nothing mismatched is ever written, so emptiness would make the verdict undefined).
#[derive(Clone, Debug)]
pub enum Car {
    Leaf(Leaf),
    /// transparent wrappers: `Option::Some`, `MaybeUnset::Set`, `MaybeEmpty::Value`,
    /// `Box`, `Arc`, `&`, `Cow`, `Secret` / `SecretBox`
    Wrap(Box<Car>),
    /// `None`, `Unset`, `MaybeUnset::Unset` — values.md: sent as NULL / not set, for any column
    NullLike,
    /// `Vec<T>`, `[T]`, `&[T]` with `n` elements
    Seq(Box<Car>, usize),
    /// `HashSet<T>` / `BTreeSet<T>`
    SetOf(Box<Car>),
    /// `HashMap<K, V>` / `BTreeMap<K, V>`
    MapOf(Box<Car>, Box<Car>),
    /// Rust tuple
    Tuple(Vec<Car>),
    /// struct with `#[derive(SerializeValue, DeserializeValue)]`
    Udt { fields: Vec<(&'static str, Car)>, flavor: UdtFlavor },
    /// `CqlValue::List` / `::Set` / `::Vector` holding `n` elements of the given shape
    DynSeq { kind: SeqKind, elem: Box<Car>, n: usize },
    /// `CqlValue::Map`
    DynMap(Box<Car>, Box<Car>),
    /// `CqlValue::Tuple` (`None` = null element)
    DynTuple(Vec<Option<Car>>),
    /// `CqlValue::UserDefinedType`
    DynUdt { ks: &'static str, name: &'static str, fields: Vec<(&'static str, Option<Car>)> },
    /// `CqlValue` as a deserialization target: "CqlValue accepts all possible CQL types"
    DynAny,
}

#[derive(Clone, Copy, Debug, PartialEq, Eq)]
pub enum SeqKind {
    List,
    Set,
    Vector,
}

#[derive(Clone, Copy, Debug, PartialEq, Eq)]
pub enum Verdict {
    Accept,
    /// `depth` = nesting level at which the mismatch sits (0 = the column itself)
    Reject { depth: usize },
    Either(&'static str),
}

impl Verdict {
    fn deeper(self) -> Verdict {
        match self {
            Verdict::Reject { depth } => Verdict::Reject { depth: depth + 1 },
            v => v,
        }
    }
    /// conjunction: a reject anywhere rejects; otherwise an unasserted part makes the whole unasserted
    fn and(self, o: Verdict) -> Verdict {
        match (self, o) {
            (Verdict::Reject { depth: a }, Verdict::Reject { depth: b }) => Verdict::Reject { depth: a.max(b) },
            (r @ Verdict::Reject { .. }, _) | (_, r @ Verdict::Reject { .. }) => r,
            (e @ Verdict::Either(_), _) | (_, e @ Verdict::Either(_)) => e,
            _ => Verdict::Accept,
        }
    }
    pub fn is_reject(self) -> bool {
        matches!(self, Verdict::Reject { .. })
    }
    /// short id of an EITHER rule (the bracketed prefix of its justification)
    pub fn either_id(self) -> Option<&'static str> {
        match self {
            Verdict::Either(why) => Some(why.split(']').next().unwrap_or(why).trim_start_matches('[')),
            _ => None,
        }
    }
    pub fn label(self) -> &'static str {
        match self {
            Verdict::Accept => "accept",
            Verdict::Reject { .. } => "reject",
            Verdict::Either(_) => "either",
        }
    }
}

const TOP_REJECT: Verdict = Verdict::Reject { depth: 0 };

#[derive(Clone, Copy, Debug, PartialEq, Eq)]
pub enum Dir {
    /// `SerializeValue::serialize` of a value of the carrier
    Ser,
    /// `DeserializeValue::type_check` of the carrier type
    De,
}

fn leaf_verdict(l: Leaf, n: Nat, dir: Dir) -> Verdict {
    let row = leaf_row(l);
    if row.accept.contains(&n) {
        return Verdict::Accept;
    }
    let either = match dir {
        Dir::Ser => row.either_ser,
        Dir::De => row.either_de,
    };
    match either.iter().find(|(x, _)| *x == n) {
        Some((_, why)) => Verdict::Either(why),
        None => TOP_REJECT,
    }
}

fn all(vs: impl Iterator<Item = Verdict>) -> Verdict {
    vs.fold(Verdict::Accept, |a, b| a.and(b))
}

/// The oracle.
pub fn verdict(car: &Car, ty: &Ty, dir: Dir) -> Verdict {
    match car {
        Car::Leaf(l) => match ty {
            Ty::Nat(n) => leaf_verdict(*l, *n, dir),
            _ => TOP_REJECT,
        },
        Car::Wrap(c) => verdict(c, ty, dir),
        Car::NullLike => Verdict::Accept,
        Car::DynAny => Verdict::Accept,
        // data-types.md: List <-> Vec<T>, Set <-> Vec<T>, Vector <-> Vec<T>
        Car::Seq(c, n) => match ty {
            Ty::List(e) | Ty::Set(e) => verdict(c, e, dir).deeper(),
            Ty::Vector(e, d) => {
                if dir == Dir::Ser && *d as usize != *n {
                    TOP_REJECT // a vector<_, d> value has exactly d elements
                } else {
                    verdict(c, e, dir).deeper()
                }
            }
            _ => TOP_REJECT,
        },
        // collections.md: Set <-> Vec<T>, HashSet<T>, BTreeSet<T>; List <-> Vec<T> only
        Car::SetOf(c) => match ty {
            Ty::Set(e) => verdict(c, e, dir).deeper(),
            Ty::List(e) => match dir {
                Dir::Ser => Verdict::Either(E_SET_CARRIER_INTO_LIST).and(verdict(c, e, dir).deeper()),
                // a list may hold duplicates and has an order: reading it into a set does not fit
                Dir::De => TOP_REJECT,
            },
            _ => TOP_REJECT,
        },
        // collections.md: Map <-> HashMap<K, V> / BTreeMap<K, V>
        Car::MapOf(k, v) => match ty {
            Ty::Map(kt, vt) => verdict(k, kt, dir).deeper().and(verdict(v, vt, dir).deeper()),
            _ => TOP_REJECT,
        },
        // tuple.md: Tuple <-> Rust tuples
        Car::Tuple(cs) => match ty {
            Ty::Tuple(ts) => {
                let inner = all(cs.iter().zip(ts.iter()).map(|(c, t)| verdict(c, t, dir).deeper()));
                if cs.len() == ts.len() {
                    inner
                } else if cs.len() < ts.len() && dir == Dir::Ser {
                    Verdict::Either(E_SHORT_TUPLE).and(inner)
                } else {
                    // more Rust elements than the CQL tuple has (either direction), or reading a
                    // longer CQL tuple into a shorter Rust tuple: a different type
                    TOP_REJECT
                }
            }
            _ => TOP_REJECT,
        },
        // udt.md + derive rustdoc
        Car::Udt { fields, flavor } => match ty {
            Ty::Udt { fields: tfields, .. } => match flavor {
                UdtFlavor::ByName => {
                    // every Rust field must name a UDT field ("Serialization will fail if there are some
                    // fields in the Rust struct that don't match to any of the UDT fields"; for
                    // deserialization a missing UDT field needs `allow_missing`, which the catalogue
                    // structs do not use); UDT fields unknown to the struct are fine by default in both
                    // directions; order is irrelevant.
                    all(fields.iter().map(|(n, c)| match tfields.iter().find(|(tn, _)| tn == n) {
                        Some((_, t)) => verdict(c, t, dir).deeper(),
                        None => TOP_REJECT,
                    }))
                }
                UdtFlavor::Ordered => {
                    // "requires the fields in the Rust struct to be in the same order as the fields in
                    // the UDT"; only a missing/excess *suffix* of UDT fields is tolerated.
                    if fields.len() > tfields.len() {
                        TOP_REJECT
                    } else {
                        all(fields.iter().zip(tfields.iter()).map(|((n, c), (tn, t))| if tn == n { verdict(c, t, dir).deeper() } else { TOP_REJECT }))
                    }
                }
            },
            _ => TOP_REJECT,
        },
        Car::DynSeq { kind, elem, n } => {
            let (tkind, e, dim) = match ty {
                Ty::List(e) => (SeqKind::List, e, None),
                Ty::Set(e) => (SeqKind::Set, e, None),
                Ty::Vector(e, d) => (SeqKind::Vector, e, Some(*d as usize)),
                _ => return TOP_REJECT,
            };
            if let Some(d) = dim {
                if d != *n {
                    return TOP_REJECT;
                }
            }
            let inner = verdict(elem, e, dir).deeper();
            if tkind == *kind { inner } else { Verdict::Either(E_DYN_SEQ_CROSS).and(inner) }
        }
        Car::DynMap(k, v) => match ty {
            Ty::Map(kt, vt) => verdict(k, kt, dir).deeper().and(verdict(v, vt, dir).deeper()),
            _ => TOP_REJECT,
        },
        Car::DynTuple(cs) => match ty {
            Ty::Tuple(ts) => {
                if cs.len() > ts.len() {
                    return TOP_REJECT;
                }
                let inner = all(cs.iter().zip(ts.iter()).map(|(c, t)| match c {
                    Some(c) => verdict(c, t, dir).deeper(),
                    None => Verdict::Accept,
                }));
                if cs.len() == ts.len() { inner } else { Verdict::Either(E_SHORT_TUPLE).and(inner) }
            }
            _ => TOP_REJECT,
        },
        Car::DynUdt { ks, name, fields } => match ty {
            Ty::Udt { ks: tks, name: tname, fields: tfields } => {
                // a value of UDT type ks.a does not fit a column of UDT type ks.b
                if tks != ks || tname != name {
                    return TOP_REJECT;
                }
                let inner = all(fields.iter().map(|(n, c)| match tfields.iter().find(|(tn, _)| tn == n) {
                    Some((_, t)) => match c {
                        Some(c) => verdict(c, t, dir).deeper(),
                        None => Verdict::Accept,
                    },
                    None => TOP_REJECT,
                }));
                let all_present = tfields.iter().all(|(tn, _)| fields.iter().any(|(n, _)| n == tn));
                if all_present { inner } else { Verdict::Either(E_DYN_UDT_MISSING_FIELD).and(inner) }
            }
            _ => TOP_REJECT,
        },
    }
}

/// Self-test of the table against the documentation's headline list (data-types.md); a
/// wrong table must not silently weaken the check.
pub fn self_test() -> Result<(), String> {
    use Nat::*;
    let expect_accept: &[(Leaf, &[Nat])] = &[
        (Leaf::Bool, &[Boolean]),
        (Leaf::I8, &[TinyInt]),
        (Leaf::I16, &[SmallInt]),
        (Leaf::I32, &[Int]),
        (Leaf::I64, &[BigInt]),
        (Leaf::F32, &[Float]),
        (Leaf::F64, &[Double]),
        (Leaf::Str, &[Ascii, Text]),
        (Leaf::Counter, &[Counter]),
        (Leaf::Bytes, &[Blob]),
        (Leaf::IpAddr, &[Inet]),
        (Leaf::Uuid, &[Uuid]),
        (Leaf::CqlTimeuuid, &[Timeuuid]),
        (Leaf::DateLike, &[Date]),
        (Leaf::TimeLike, &[Time]),
        (Leaf::TimestampLike, &[Timestamp]),
        (Leaf::CqlDuration, &[Duration]),
        (Leaf::DecimalLike, &[Decimal]),
        (Leaf::VarintLike, &[Varint]),
    ];
    for (l, acc) in expect_accept {
        for n in NATIVES {
            for dir in [Dir::Ser, Dir::De] {
                let v = verdict(&Car::Leaf(*l), &Ty::Nat(n), dir);
                if acc.contains(&n) != (v == Verdict::Accept) {
                    return Err(format!("leaf table disagrees with data-types.md for {l:?} x {}", n.name()));
                }
            }
        }
    }
    // every native is accepted by at least one leaf in both directions
    for n in NATIVES {
        if !LEAF_TABLE.iter().any(|r| r.accept.contains(&n)) {
            return Err(format!("no carrier documented for {}", n.name()));
        }
    }
    // a few structural spot checks taken from the task statement / docs
    let vec_i32 = Car::Seq(Box::new(Car::Leaf(Leaf::I32)), 2);
    let vec_i64 = Car::Seq(Box::new(Car::Leaf(Leaf::I64)), 2);
    let checks: Vec<(Verdict, bool)> = vec![
        (verdict(&vec_i32, &Ty::set(Ty::Nat(Text)), Dir::Ser), false),
        (verdict(&vec_i64, &Ty::list(Ty::Nat(Int)), Dir::Ser), false),
        (verdict(&vec_i64, &Ty::list(Ty::Nat(Int)), Dir::De), false),
        (verdict(&vec_i32, &Ty::list(Ty::Nat(Int)), Dir::Ser), true),
        (verdict(&vec_i32, &Ty::set(Ty::Nat(Int)), Dir::De), true),
        (verdict(&vec_i32, &Ty::vector(Ty::Nat(Int), 2), Dir::Ser), true),
        (verdict(&vec_i32, &Ty::vector(Ty::Nat(Int), 3), Dir::Ser), false),
        (verdict(&Car::Leaf(Leaf::I32), &Ty::Nat(BigInt), Dir::Ser), false),
        (verdict(&Car::Leaf(Leaf::Str), &Ty::Nat(Int), Dir::Ser), false),
        (verdict(&Car::Tuple(vec![Car::Leaf(Leaf::I32), Car::Leaf(Leaf::I32), Car::Leaf(Leaf::I32)]), &Ty::Tuple(vec![Ty::Nat(Int), Ty::Nat(Int)]), Dir::Ser), false),
        (verdict(&Car::NullLike, &Ty::Nat(Duration), Dir::Ser), true),
    ];
    for (i, (v, want_accept)) in checks.iter().enumerate() {
        let ok = if *want_accept { *v == Verdict::Accept } else { v.is_reject() };
        if !ok {
            return Err(format!("structural spot check #{i} failed: {v:?}"));
        }
    }
    Ok(())
}
