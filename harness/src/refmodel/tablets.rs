//! Reference model of the per-table tablet map (C15), written from the property
//! statement:
//!
//!  * a table's tablets are a set of live tablets `{first, last, replicas, seq}`
//!    (both bounds inclusive);
//!  * learning a tablet first discards every live tablet that shares at least one
//!    token with it, then the new one becomes live;
//!  * a token is answered by the live tablet covering it (there is at most one),
//!    otherwise by nothing;
//!  * a metadata refresh discards tablets naming a host that is not part of the new
//!    topology (removed, or never resolved), resolves the others completely, drops
//!    tables that are gone or whose keyspace is not tablet based, and creates an
//!    empty entry for every table of a tablet-based keyspace;
//!  * the replica list restricted to a datacenter is the full (visible) list filtered
//!    by the *current* datacenter of each host.
//!
//! Nothing here is sorted and nothing uses binary search: the live set is kept in
//! learning order and every lookup is a linear scan, so the model shares no
//! mechanism with the driver's `partition_point` based implementation.
//! `Literal` is a second, even more literal formulation of the statement (a log of
//! every tablet ever learnt with a "discarded" mark) used to cross-check the model
//! itself on short histories.

use std::collections::{BTreeMap, BTreeSet};

pub type Host = u128;
pub type Replica = (Host, u32);

pub const PAYLOAD_KEY: &str = "tablets-routing-v1";

#[derive(Clone, Debug, PartialEq, Eq)]
pub struct MTablet {
    pub first: i64,
    pub last: i64,
    /// replica list exactly as learnt
    pub full: Vec<Replica>,
    /// the part of `full` whose hosts were known when the tablet was learnt (or all of
    /// it once a refresh resolved the tablet)
    pub visible: Vec<Replica>,
    pub unresolved: bool,
    pub seq: u64,
}

impl MTablet {
    pub fn covers(&self, t: i64) -> bool {
        self.first <= t && t <= self.last
    }
    pub fn overlaps(&self, first: i64, last: i64) -> bool {
        // two inclusive ranges share a token
        !(self.last < first || last < self.first)
    }
}

#[derive(Clone, Debug, PartialEq, Eq)]
pub struct MNode {
    pub dc: Option<String>,
    pub rack: Option<String>,
    pub addr: std::net::SocketAddr,
}

#[derive(Clone, Debug)]
pub struct MKeyspace {
    pub tablet_based: bool,
    pub tables: BTreeSet<String>,
}

#[derive(Clone, Debug, PartialEq, Eq)]
pub enum Refusal {
    /// last <= first (first being the exclusive lower bound as sent by the server)
    EmptyOrInvertedRange,
    NegativeShard,
}

/// The decision rule of the payload: `(first_exclusive, last_inclusive, replicas)`.
pub fn admit(first_excl: i64, last: i64, replicas: &[(Host, i32)]) -> Result<(i64, i64, Vec<Replica>), Refusal> {
    if last <= first_excl {
        return Err(Refusal::EmptyOrInvertedRange);
    }
    if replicas.iter().any(|(_, s)| *s < 0) {
        return Err(Refusal::NegativeShard);
    }
    // last > first_excl  =>  first_excl < i64::MAX, no overflow
    Ok((first_excl + 1, last, replicas.iter().map(|(h, s)| (*h, *s as u32)).collect()))
}

#[derive(Clone, Debug, Default)]
pub struct Model {
    pub nodes: BTreeMap<Host, MNode>,
    /// `None` entry never exists: a key is present iff the driver is expected to know
    /// the table as a tablet table.
    pub tables: BTreeMap<(String, String), Vec<MTablet>>,
    pub seq: u64,
    /// tablets discarded by the last operation (for "nothing rather than stale" queries)
    pub last_discarded: Vec<MTablet>,
}

impl Model {
    pub fn new(nodes: BTreeMap<Host, MNode>, keyspaces: &BTreeMap<String, MKeyspace>) -> Self {
        let mut m = Model { nodes: BTreeMap::new(), tables: BTreeMap::new(), seq: 0, last_discarded: Vec::new() };
        m.refresh(nodes, keyspaces);
        m
    }

    /// Learns a tablet (already admitted). Returns the number of discarded tablets.
    pub fn learn(&mut self, ks: &str, table: &str, first: i64, last: i64, full: Vec<Replica>) -> usize {
        self.seq += 1;
        let visible: Vec<Replica> = full.iter().copied().filter(|(h, _)| self.nodes.contains_key(h)).collect();
        let unresolved = visible.len() != full.len();
        let live = self.tables.entry((ks.to_owned(), table.to_owned())).or_default();
        let mut discarded = Vec::new();
        let mut keep = Vec::with_capacity(live.len() + 1);
        for t in live.drain(..) {
            if t.overlaps(first, last) {
                discarded.push(t);
            } else {
                keep.push(t);
            }
        }
        keep.push(MTablet { first, last, full, visible, unresolved, seq: self.seq });
        *live = keep;
        let n = discarded.len();
        self.last_discarded = discarded;
        n
    }

    /// A metadata refresh with the given new topology and schema.
    pub fn refresh(&mut self, nodes: BTreeMap<Host, MNode>, keyspaces: &BTreeMap<String, MKeyspace>) {
        self.last_discarded.clear();
        let mut discarded = Vec::new();
        // tables that disappeared / are not tablet tables any more
        let keys: Vec<(String, String)> = self.tables.keys().cloned().collect();
        for k in keys {
            let keep = match keyspaces.get(&k.0) {
                Some(ksd) => ksd.tablet_based && ksd.tables.contains(&k.1),
                None => false,
            };
            if !keep {
                if let Some(v) = self.tables.remove(&k) {
                    discarded.extend(v);
                }
            }
        }
        for (name, ksd) in keyspaces {
            if ksd.tablet_based {
                for t in &ksd.tables {
                    self.tables.entry((name.clone(), t.clone())).or_default();
                }
            }
        }
        // tablets naming a host that is not in the new topology go away; the others are
        // completely resolved now
        for live in self.tables.values_mut() {
            let mut keep = Vec::with_capacity(live.len());
            for mut t in live.drain(..) {
                if t.full.iter().all(|(h, _)| nodes.contains_key(h)) {
                    t.visible = t.full.clone();
                    t.unresolved = false;
                    keep.push(t);
                } else {
                    discarded.push(t);
                }
            }
            *live = keep;
        }
        self.nodes = nodes;
        self.last_discarded = discarded;
    }

    pub fn table(&self, ks: &str, table: &str) -> Option<&Vec<MTablet>> {
        self.tables.get(&(ks.to_owned(), table.to_owned()))
    }

    /// `None`: not a (known) tablet table. `Some(None)`: answered by nothing.
    pub fn lookup(&self, ks: &str, table: &str, token: i64) -> Option<Option<&MTablet>> {
        let live = self.table(ks, table)?;
        Some(lookup_in(live, token))
    }

    pub fn restrict<'a>(&'a self, t: &'a MTablet, dc: &'a str) -> impl Iterator<Item = Replica> + 'a {
        t.visible
            .iter()
            .copied()
            .filter(move |(h, _)| self.nodes.get(h).and_then(|n| n.dc.as_deref()) == Some(dc))
    }

    /// The live tablets of a table ordered by first token (what a dump must equal).
    pub fn sorted(&self, ks: &str, table: &str) -> Option<Vec<MTablet>> {
        let mut v = self.table(ks, table)?.clone();
        v.sort_by_key(|t| t.first);
        Some(v)
    }
}

/// Covering live tablet: the most recently learnt one among those covering the token
/// (the model's own invariant is that there is at most one).
pub fn lookup_in(live: &[MTablet], token: i64) -> Option<&MTablet> {
    let mut best: Option<&MTablet> = None;
    for t in live {
        if t.covers(token) && best.is_none_or(|b| b.seq < t.seq) {
            best = Some(t);
        }
    }
    best
}

/// Model self-check: live tablets are pairwise disjoint.
pub fn live_disjoint(live: &[MTablet]) -> bool {
    for (i, a) in live.iter().enumerate() {
        for b in &live[i + 1..] {
            if a.overlaps(b.first, b.last) {
                return false;
            }
        }
    }
    true
}

/// The statement read literally, for one table and inserts only: "a token is answered
/// by the most recently learnt tablet that covers it, unless a later update overlapped
/// that tablet, in which case it is answered by nothing".
#[derive(Clone, Debug, Default)]
pub struct Literal {
    /// (first, last, seq) in learning order
    pub log: Vec<(i64, i64, u64)>,
}

impl Literal {
    pub fn learn(&mut self, first: i64, last: i64, seq: u64) {
        self.log.push((first, last, seq));
    }
    pub fn truncate(&mut self, n: usize) {
        self.log.truncate(n);
    }
    /// seq of the answering tablet
    pub fn lookup(&self, token: i64) -> Option<u64> {
        let (idx, cand) = self.log.iter().enumerate().rev().find(|(_, (f, l, _))| *f <= token && token <= *l)?;
        let overlapped_later = self.log[idx + 1..].iter().any(|(f, l, _)| !(*l < cand.0 || cand.1 < *f));
        if overlapped_later { None } else { Some(cand.2) }
    }
}

// ---------------------------------------------------------------------------
// Independent wire encoding of the payload value and a reference verdict for
// arbitrary bytes.
// ---------------------------------------------------------------------------

fn put_i32(b: &mut Vec<u8>, v: i32) {
    b.extend_from_slice(&v.to_be_bytes());
}

/// tuple<uuid,int> value body
pub fn enc_replica(host: Host, shard: i32) -> Vec<u8> {
    let mut e = Vec::with_capacity(28);
    put_i32(&mut e, 16);
    e.extend_from_slice(&host.to_be_bytes());
    put_i32(&mut e, 4);
    e.extend_from_slice(&shard.to_be_bytes());
    e
}

/// list<tuple<uuid,int>> value body
pub fn enc_replica_list(replicas: &[(Host, i32)]) -> Vec<u8> {
    let mut l = Vec::with_capacity(4 + replicas.len() * 32);
    put_i32(&mut l, replicas.len() as i32);
    for (h, s) in replicas {
        let e = enc_replica(*h, *s);
        put_i32(&mut l, e.len() as i32);
        l.extend_from_slice(&e);
    }
    l
}

/// tuple<bigint, bigint, list<tuple<uuid,int>>> value body
pub fn enc_tablet(first_excl: i64, last: i64, replicas: &[(Host, i32)]) -> Vec<u8> {
    let mut b = Vec::with_capacity(32 + replicas.len() * 32);
    put_i32(&mut b, 8);
    b.extend_from_slice(&first_excl.to_be_bytes());
    put_i32(&mut b, 8);
    b.extend_from_slice(&last.to_be_bytes());
    let l = enc_replica_list(replicas);
    put_i32(&mut b, l.len() as i32);
    b.extend_from_slice(&l);
    b
}

#[derive(Clone, Debug, PartialEq, Eq)]
pub enum Verdict {
    /// well-formed and admissible: must be accepted with exactly this content
    Accept { first: i64, last: i64, replicas: Vec<Replica> },
    /// must be refused
    Refuse(&'static str),
    /// the value has content a tolerant decoder may ignore (bytes after the last
    /// field of a tuple / after the last list element, negative element count): the
    /// spec does not settle it. If accepted, the content must be this.
    Either { first: i64, last: i64, replicas: Vec<Replica>, why: &'static str },
}

struct Cur<'a>(&'a [u8]);

enum Field<'a> {
    /// no bytes left at all where the field should start
    Absent,
    Null,
    Bytes(&'a [u8]),
    Truncated,
}

impl<'a> Cur<'a> {
    fn field(&mut self) -> Field<'a> {
        if self.0.is_empty() {
            return Field::Absent;
        }
        if self.0.len() < 4 {
            return Field::Truncated;
        }
        let n = i32::from_be_bytes([self.0[0], self.0[1], self.0[2], self.0[3]]);
        self.0 = &self.0[4..];
        if n < 0 {
            return Field::Null;
        }
        let n = n as usize;
        if self.0.len() < n {
            return Field::Truncated;
        }
        let (a, b) = self.0.split_at(n);
        self.0 = b;
        Field::Bytes(a)
    }
}

/// Reference reading of a payload value. The bounds, the replica tuples, the host ids
/// and the shards are mandatory (a bigint / tuple / uuid / int cannot be null here), so
/// a missing or null one, a field of the wrong width and any truncation are refusals
/// whatever the decoder's tolerance for trailing bytes is. Only the list itself may
/// legitimately be read as empty when null / absent.
pub fn verdict(value: &[u8]) -> Verdict {
    let mut either: Option<&'static str> = None;
    let mut c = Cur(value);
    let mut longs = [0i64; 2];
    for l in longs.iter_mut() {
        match c.field() {
            Field::Bytes(b) if b.len() == 8 => *l = i64::from_be_bytes(b.try_into().unwrap()),
            Field::Bytes(_) => return Verdict::Refuse("bigint field is not 8 bytes"),
            Field::Absent | Field::Null => return Verdict::Refuse("bigint field missing or null"),
            Field::Truncated => return Verdict::Refuse("truncated"),
        }
    }
    let list = match c.field() {
        Field::Bytes(b) => b,
        // CQL does not distinguish a null collection from an empty one, and tuple values
        // may omit trailing (null) fields: a decoder may read this as "no replicas".
        Field::Absent | Field::Null => {
            if !c.0.is_empty() {
                either = Some("bytes after the third tuple field");
            }
            return match admit(longs[0], longs[1], &[]) {
                Err(_) => Verdict::Refuse("last <= first"),
                Ok((first, last, replicas)) => Verdict::Either { first, last, replicas, why: either.unwrap_or("null or absent replica list") },
            };
        }
        Field::Truncated => return Verdict::Refuse("truncated"),
    };
    if !c.0.is_empty() {
        either = Some("bytes after the third tuple field");
    }
    if list.len() < 4 {
        return Verdict::Refuse("list without element count");
    }
    let count = i32::from_be_bytes([list[0], list[1], list[2], list[3]]);
    let mut lc = Cur(&list[4..]);
    let mut replicas: Vec<(Host, i32)> = Vec::new();
    if count < 0 {
        either = Some("negative element count");
    }
    for _ in 0..count.max(0) {
        let elt = match lc.field() {
            Field::Bytes(b) => b,
            Field::Null => return Verdict::Refuse("null list element"),
            Field::Absent | Field::Truncated => return Verdict::Refuse("list shorter than its count"),
        };
        let mut ec = Cur(elt);
        let host = match ec.field() {
            Field::Bytes(b) if b.len() == 16 => u128::from_be_bytes(b.try_into().unwrap()),
            Field::Bytes(_) => return Verdict::Refuse("uuid field is not 16 bytes"),
            Field::Absent | Field::Null => return Verdict::Refuse("uuid missing or null"),
            Field::Truncated => return Verdict::Refuse("truncated"),
        };
        let shard = match ec.field() {
            Field::Bytes(b) if b.len() == 4 => i32::from_be_bytes(b.try_into().unwrap()),
            Field::Bytes(_) => return Verdict::Refuse("int field is not 4 bytes"),
            Field::Absent | Field::Null => return Verdict::Refuse("shard missing or null"),
            Field::Truncated => return Verdict::Refuse("truncated"),
        };
        if !ec.0.is_empty() {
            either = Some("bytes after the second field of a replica tuple");
        }
        replicas.push((host, shard));
    }
    if count >= 0 && !lc.0.is_empty() {
        either = Some("bytes after the last list element");
    }
    match admit(longs[0], longs[1], &replicas) {
        Err(Refusal::EmptyOrInvertedRange) => Verdict::Refuse("last <= first"),
        Err(Refusal::NegativeShard) => Verdict::Refuse("negative shard"),
        Ok((first, last, replicas)) => match either {
            None => Verdict::Accept { first, last, replicas },
            Some(why) => Verdict::Either { first, last, replicas, why },
        },
    }
}
