//! Reference models (oracles). Each is written from the property statement /
//! protocol spec, independently of the driver code.
pub mod sharding;
pub mod replication;
pub mod derive;
pub mod typecompat;
pub mod retry;
pub mod specexec;
pub mod tablets;
pub mod streams;
pub mod murmur3;
pub mod cqlenc;
pub mod plan;
