//! What the documentation of the default load-balancing policy promises about a plan
//! (docs/source/load-balancing/default-policy.md, "Node order in produced plans"), as relations
//! over one observed plan — not a list of expected groups:
//!  (1) no target twice (same node, and equal shards or a shard left open);
//!  (2) no node rejected by the host filter;
//!  (3) no node outside the preferred datacenter unless failover is permitted;
//!  (4) every other token-owning node is present;
//!  (5) ranks never decrease along the plan: live replicas in the local rack < live replicas in
//!      the local datacenter < live remote replicas < live local-rack nodes < live local nodes <
//!      live remote nodes < enabled nodes believed down;
//!  (6) LWT: inside each replica rank the replicas come in ring order.
//! Nothing is said about the order inside a rank otherwise (shuffling / random rotation).

#[derive(Clone, Debug)]
pub struct PNode {
    pub dc: Option<String>,
    pub rack: Option<String>,
    pub owns_tokens: bool,
    pub enabled: bool,
    pub connected: bool,
}

#[derive(Clone, Debug, PartialEq, Eq)]
pub enum Pref {
    Any,
    Dc(String),
    DcRack(String, String),
}

#[derive(Clone, Debug)]
pub struct Req {
    /// Replicas of the request's token in ring order; `None` when token awareness does not
    /// apply (policy not token-aware, no token, no table, or a keyspace the driver does not know).
    pub replicas: Option<Vec<usize>>,
    pub lwt: bool,
    /// the effective preference (policy-level overrides session-level)
    pub pref: Pref,
    pub failover: bool,
    /// LOCAL_* consistency: the documentation lets failover depend on "consistency
    /// constraints" without saying how, so remote nodes are then neither required nor banned.
    pub local_consistency: bool,
}

/// 0: preferred rack of the preferred datacenter, 1: preferred datacenter (every node when
/// nothing is preferred), 2: remote.
pub fn location(n: &PNode, pref: &Pref) -> u8 {
    match pref {
        Pref::Any => 1,
        Pref::Dc(dc) => {
            if n.dc.as_deref() == Some(dc) { 1 } else { 2 }
        }
        Pref::DcRack(dc, rack) => {
            if n.dc.as_deref() != Some(dc) {
                2
            } else if n.rack.as_deref() == Some(rack) {
                0
            } else {
                1
            }
        }
    }
}

pub const RANK_DOWN: u8 = 6;

/// `None`: the node must never be named.
pub fn rank(n: &PNode, is_replica: bool, req: &Req) -> Option<u8> {
    if !n.enabled {
        return None;
    }
    let loc = location(n, &req.pref);
    if loc == 2 && !req.failover {
        return None;
    }
    Some(if !n.connected {
        RANK_DOWN
    } else if is_replica {
        loc
    } else {
        3 + loc
    })
}

/// Returns (signature suffix, explanation) for every relation the plan breaks.
pub fn check(plan: &[(usize, Option<u32>)], nodes: &[PNode], req: &Req) -> Vec<(&'static str, String)> {
    let mut bad = Vec::new();
    let is_replica = |i: usize| req.replicas.as_ref().is_some_and(|r| r.contains(&i));
    // (1)
    for (a, (na, sa)) in plan.iter().enumerate() {
        for (nb, sb) in &plan[a + 1..] {
            if na == nb && (sa.is_none() || sb.is_none() || sa == sb) {
                bad.push(("duplicate-target", format!("node {na} is named twice (shards {sa:?} and {sb:?})")));
            }
        }
    }
    // (2), (3)
    for (i, _) in plan {
        let n = &nodes[*i];
        if !n.enabled {
            bad.push(("host-filtered-node", format!("node {i} was rejected by the host filter")));
        } else if location(n, &req.pref) == 2 && !req.failover {
            bad.push(("remote-node-without-failover", format!("node {i} (datacenter {:?}) is outside the preferred datacenter and failover is not permitted", n.dc)));
        }
    }
    // (4)
    for (i, n) in nodes.iter().enumerate() {
        let remote = location(n, &req.pref) == 2;
        let required = n.enabled && n.owns_tokens && (!remote || (req.failover && !req.local_consistency));
        if required && !plan.iter().any(|(p, _)| *p == i) {
            bad.push(("node-missing", format!("token-owning enabled node {i} (datacenter {:?}) is not in the plan", n.dc)));
        }
    }
    // (5)
    let ranks: Vec<Option<u8>> = plan.iter().map(|(i, _)| rank(&nodes[*i], is_replica(*i), req)).collect();
    let known: Vec<(usize, u8)> = plan.iter().zip(&ranks).filter_map(|((i, _), r)| r.map(|r| (*i, r))).collect();
    for w in known.windows(2) {
        if w[0].1 > w[1].1 {
            let what = if w[0].1 == RANK_DOWN { "down-before-live" } else if w[1].1 < 3 { "non-replica-or-farther-before-replica" } else { "farther-before-nearer" };
            bad.push((what, format!("node {} (rank {}) comes before node {} (rank {}); ranks: 0-2 live replica in local rack/local dc/remote, 3-5 live node likewise, 6 down", w[0].0, w[0].1, w[1].0, w[1].1)));
            break;
        }
    }
    // (6)
    if req.lwt {
        if let Some(reps) = &req.replicas {
            for r in 0..3u8 {
                let want: Vec<usize> = reps.iter().copied().filter(|i| rank(&nodes[*i], true, req) == Some(r)).collect();
                let got: Vec<usize> = known.iter().filter(|(i, k)| *k == r && reps.contains(i)).map(|(i, _)| *i).collect();
                if got != want && got.len() == want.len() {
                    bad.push(("lwt-replicas-not-in-ring-order", format!("live replicas of rank {r} appear as {got:?}, ring order is {want:?}")));
                }
            }
        }
    }
    bad
}
