//! ScyllaDB sharding algorithm, written from the documentation:
//! bias the token by 2^63, shift left by the ignored bits, multiply by the
//! shard count, take the high 64 bits.

pub fn shard_of(token: i64, nr_shards: u16, msb_ignore: u8) -> u32 {
    // token + 2^63 as an unsigned 64-bit number
    let biased: u64 = ((token as i128) + (1i128 << 63)) as u64;
    // "shift left by the ignored bits" within 64 bits
    let shifted: u64 = if msb_ignore >= 64 { 0 } else { biased << msb_ignore };
    (((shifted as u128) * (nr_shards as u128)) >> 64) as u32
}

/// All ports p in [lo, hi] with p mod n == shard, ascending.
pub fn ports_for_shard(nr_shards: u16, shard: u32, lo: u16, hi: u16) -> Vec<u16> {
    let mut v = Vec::new();
    let mut p = lo as u32;
    while p <= hi as u32 {
        if p % nr_shards as u32 == shard {
            v.push(p as u16);
        }
        p += 1;
    }
    v
}
