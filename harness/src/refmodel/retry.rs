//! Reference model for C06 (workload A): the SAFETY TABLE of the property statement,
//! plus the numbers the documentation (`docs/source/retry-policy/*.md`) gives.
//!
//! It deliberately knows nothing about *which* retries a policy performs for
//! idempotent requests — only what must never happen:
//!  * a request not marked idempotent is sent again only after a failure that proves
//!    the previous attempt was not applied: unavailable, bootstrapping, no free stream
//!    id on the client, read timeout. After anything else (explicitly: broken
//!    connection, overloaded, server error, truncate error, write timeout) never;
//!  * the default policy never retries at a serial consistency;
//!  * the fall-through policy never retries ("never retries, returns all errors
//!    straight to the user", retry-policy.md);
//!  * the number of same-target retries of one request is bounded by a constant of the
//!    policy, whatever the history. default.md lists exactly two "retry on same target
//!    (at most once)" rows ⇒ 2 for the default policy. downgrading-consistency.md gives
//!    no number ⇒ only boundedness by a small constant is asserted (see
//!    `same_target_budget`), the measured maximum is reported by the check.

#[derive(Clone, Copy, Debug, PartialEq, Eq, Hash, PartialOrd, Ord)]
pub enum Family {
    // may have been applied: never re-send a non-idempotent request
    BrokenConnection,
    Overloaded,
    ServerError,
    TruncateError,
    WriteTimeout,
    // proves "not applied": re-sending is safe
    Unavailable,
    IsBootstrapping,
    NoStreamId,
    ReadTimeout,
    /// every other failure (invalid, syntax, failures, rate limit, parse errors, ...):
    /// not in the statement's list of proofs, so no re-send of a non-idempotent request
    Other,
}

impl Family {
    pub fn proves_not_applied(self) -> bool {
        matches!(self, Family::Unavailable | Family::IsBootstrapping | Family::NoStreamId | Family::ReadTimeout)
    }
    pub fn name(self) -> &'static str {
        match self {
            Family::BrokenConnection => "broken-connection",
            Family::Overloaded => "overloaded",
            Family::ServerError => "server-error",
            Family::TruncateError => "truncate-error",
            Family::WriteTimeout => "write-timeout",
            Family::Unavailable => "unavailable",
            Family::IsBootstrapping => "is-bootstrapping",
            Family::NoStreamId => "no-stream-id",
            Family::ReadTimeout => "read-timeout",
            Family::Other => "other-error",
        }
    }
}

#[derive(Clone, Copy, Debug, PartialEq, Eq, Hash)]
pub enum Policy {
    Default,
    Downgrading,
    Fallthrough,
}

impl Policy {
    pub const ALL: [Policy; 3] = [Policy::Default, Policy::Downgrading, Policy::Fallthrough];
    pub fn name(self) -> &'static str {
        match self {
            Policy::Default => "default",
            Policy::Downgrading => "downgrading",
            Policy::Fallthrough => "fallthrough",
        }
    }
    pub fn from_name(s: &str) -> Option<Policy> {
        Policy::ALL.into_iter().find(|p| p.name() == s)
    }
    /// Upper bound on same-target retries within one request.
    pub fn same_target_budget(self) -> usize {
        match self {
            Policy::Default => 2,
            // not documented; "small constant": one per error family the policy document
            // lists as retried at a lower consistency (read timeout, write timeout, unavailable)
            Policy::Downgrading => 3,
            Policy::Fallthrough => 0,
        }
    }
}

#[derive(Clone, Copy, Debug, PartialEq, Eq, Hash)]
pub enum Decision {
    RetrySameTarget,
    RetryNextTarget,
    DontRetry,
    IgnoreWriteError,
}

impl Decision {
    pub fn resends(self) -> bool {
        matches!(self, Decision::RetrySameTarget | Decision::RetryNextTarget)
    }
}

/// One attempt of a history: what failed, under which request flags, what was decided.
#[derive(Clone, Copy, Debug)]
pub struct Step {
    pub family: Family,
    pub idempotent: bool,
    /// the consistency of the failed attempt is SERIAL or LOCAL_SERIAL
    pub serial: bool,
    pub decision: Decision,
}

/// Judges a whole history (the decisions were followed: every step but the last one
/// re-sent the request). Returns (signature, message) for every broken clause.
pub fn judge(policy: Policy, history: &[Step]) -> Vec<(String, String)> {
    let mut out = Vec::new();
    let mut same_target = 0usize;
    for (k, s) in history.iter().enumerate() {
        if !s.decision.resends() {
            continue;
        }
        if s.decision == Decision::RetrySameTarget {
            same_target += 1;
        }
        if !s.idempotent && !s.family.proves_not_applied() {
            out.push((
                format!("{}:non-idempotent-resent-after:{}", policy.name(), s.family.name()),
                format!("attempt #{k} of a request NOT marked idempotent failed with {} and the policy decided {:?}", s.family.name(), s.decision),
            ));
        }
        if policy == Policy::Default && s.serial {
            out.push((
                "default:retry-at-serial-consistency".to_string(),
                format!("attempt #{k} ran at a serial consistency, failed with {} and the default policy decided {:?}", s.family.name(), s.decision),
            ));
        }
        if policy == Policy::Fallthrough {
            out.push((
                "fallthrough:retries".to_string(),
                format!("the fall-through policy decided {:?} after {}", s.decision, s.family.name()),
            ));
        }
    }
    if same_target > policy.same_target_budget() {
        out.push((
            format!("{}:same-target-retries-unbounded", policy.name()),
            format!(
                "{same_target} same-target retries within one request (history of {} attempts); the policy's budget is {}",
                history.len(),
                policy.same_target_budget()
            ),
        ));
    }
    out
}

pub fn same_target_retries(history: &[Step]) -> usize {
    history.iter().filter(|s| s.decision == Decision::RetrySameTarget).count()
}
