//! Independent CQL (native protocol v4/v5, §6 "Data type serialization formats")
//! value encoder and decoder. Written from the protocol specification and, for the
//! `vector` type, from Cassandra's definition (`VectorType` + `valueLengthIfFixed`);
//! nothing here calls or mirrors the driver's serializers.
//!
//! Conventions
//! * a *cell* is `[int32 length][contents]`; length -1 = null, -2 = not set;
//! * `encode` gives the contents only, `encode_cell` the whole cell;
//! * list/set: `[int32 n]` then n × `[int32 len][bytes]`; map: n × (key cell, value cell);
//! * tuple / UDT: one `[int32 len or -1][bytes]` per field, in type order; a value may carry
//!   fewer fields than its type (the missing trailing ones are null);
//! * vector<T, d>: d elements; if T has a fixed serialized width the elements are packed
//!   back to back, otherwise each is preceded by its length as an unsigned vint;
//! * duration: three zig-zag vints (months: i32, days: i32, nanoseconds: i64);
//! * decimal: `[int32 scale]` followed by the two's-complement big-endian unscaled value;
//! * varint: two's-complement big-endian, at least one byte (non-minimal forms are legal).
use serde::{Deserialize, Serialize};

#[derive(Clone, Debug, PartialEq, Eq, Hash, Serialize, Deserialize)]
pub enum MType {
    Ascii,
    BigInt,
    Blob,
    Boolean,
    Counter,
    Date,
    Decimal,
    Double,
    Duration,
    Float,
    Inet,
    Int,
    SmallInt,
    Text,
    Time,
    Timestamp,
    Timeuuid,
    TinyInt,
    Uuid,
    Varint,
    List(Box<MType>),
    Set(Box<MType>),
    Map(Box<MType>, Box<MType>),
    Tuple(Vec<MType>),
    Udt {
        keyspace: String,
        name: String,
        fields: Vec<(String, MType)>,
    },
    Vector(Box<MType>, u16),
}

pub const NATIVES: [MType; 20] = [
    MType::Ascii,
    MType::BigInt,
    MType::Blob,
    MType::Boolean,
    MType::Counter,
    MType::Date,
    MType::Decimal,
    MType::Double,
    MType::Duration,
    MType::Float,
    MType::Inet,
    MType::Int,
    MType::SmallInt,
    MType::Text,
    MType::Time,
    MType::Timestamp,
    MType::Timeuuid,
    MType::TinyInt,
    MType::Uuid,
    MType::Varint,
];

/// Floats are kept as bit patterns so that equality is bitwise (NaN payloads, ±0).
#[derive(Clone, Debug, PartialEq, Eq, Hash, Serialize, Deserialize)]
pub enum MValue {
    Null,
    Unset,
    /// the zero-length value of an "emptiable" type
    Empty,
    Ascii(String),
    BigInt(i64),
    Blob(Vec<u8>),
    Boolean(bool),
    Counter(i64),
    /// days, with 2^31 = 1970-01-01
    Date(u32),
    /// unscaled value (two's complement big endian, as given) and scale
    Decimal(Vec<u8>, i32),
    Double(u64),
    Duration { months: i32, days: i32, nanos: i64 },
    Float(u32),
    /// 4 or 16 address bytes
    Inet(Vec<u8>),
    Int(i32),
    SmallInt(i16),
    Text(String),
    /// nanoseconds since midnight
    Time(i64),
    /// milliseconds since the epoch
    Timestamp(i64),
    Timeuuid([u8; 16]),
    TinyInt(i8),
    Uuid([u8; 16]),
    /// two's complement big endian, as given (possibly with redundant sign bytes)
    Varint(Vec<u8>),
    List(Vec<MValue>),
    Set(Vec<MValue>),
    Map(Vec<(MValue, MValue)>),
    /// positional fields; may be shorter than the type; fields may be `Null`
    Tuple(Vec<MValue>),
    /// positional fields in the type's order; may be shorter than the type
    Udt(Vec<MValue>),
    Vector(Vec<MValue>),
}

impl MType {
    pub fn name(&self) -> &'static str {
        match self {
            MType::Ascii => "ascii",
            MType::BigInt => "bigint",
            MType::Blob => "blob",
            MType::Boolean => "boolean",
            MType::Counter => "counter",
            MType::Date => "date",
            MType::Decimal => "decimal",
            MType::Double => "double",
            MType::Duration => "duration",
            MType::Float => "float",
            MType::Inet => "inet",
            MType::Int => "int",
            MType::SmallInt => "smallint",
            MType::Text => "text",
            MType::Time => "time",
            MType::Timestamp => "timestamp",
            MType::Timeuuid => "timeuuid",
            MType::TinyInt => "tinyint",
            MType::Uuid => "uuid",
            MType::Varint => "varint",
            MType::List(_) => "list",
            MType::Set(_) => "set",
            MType::Map(..) => "map",
            MType::Tuple(_) => "tuple",
            MType::Udt { .. } => "udt",
            MType::Vector(..) => "vector",
        }
    }
    pub fn is_native(&self) -> bool {
        !matches!(
            self,
            MType::List(_) | MType::Set(_) | MType::Map(..) | MType::Tuple(_) | MType::Udt { .. } | MType::Vector(..)
        )
    }
    /// Types that have the extra zero-length "empty" value *and* for which the driver
    /// documents support for it (`Emptiable`): everything fixed-width or numeric, the
    /// uuids and inet. Strings/blobs have a genuine zero-length value instead;
    /// counter/duration/collections/UDTs have none.
    pub fn emptiable(&self) -> bool {
        matches!(
            self,
            MType::BigInt
                | MType::Boolean
                | MType::Date
                | MType::Decimal
                | MType::Double
                | MType::Float
                | MType::Inet
                | MType::Int
                | MType::SmallInt
                | MType::Time
                | MType::Timestamp
                | MType::Timeuuid
                | MType::TinyInt
                | MType::Uuid
                | MType::Varint
        )
    }
    /// Serialized width if the server treats the type as fixed-length inside a vector
    /// (Cassandra: `AbstractType.valueLengthIfFixed()`): boolean 1, int 4, float 4,
    /// bigint 8, double 8, timestamp 8, uuid 16, timeuuid 16, and a vector of a
    /// fixed-length type (width × dimension). Everything else is variable length.
    pub fn fixed_len_in_vector(&self) -> Option<usize> {
        match self {
            MType::Boolean => Some(1),
            MType::Int | MType::Float => Some(4),
            MType::BigInt | MType::Double | MType::Timestamp => Some(8),
            MType::Uuid | MType::Timeuuid => Some(16),
            MType::Vector(e, d) => e.fixed_len_in_vector().map(|w| w * *d as usize),
            _ => None,
        }
    }
    pub fn depth(&self) -> usize {
        match self {
            MType::List(e) | MType::Set(e) | MType::Vector(e, _) => 1 + e.depth(),
            MType::Map(k, v) => 1 + k.depth().max(v.depth()),
            MType::Tuple(fs) => 1 + fs.iter().map(|f| f.depth()).max().unwrap_or(0),
            MType::Udt { fields, .. } => 1 + fields.iter().map(|f| f.1.depth()).max().unwrap_or(0),
            _ => 0,
        }
    }
}

// ---------------------------------------------------------------- vints

/// Unsigned vint: the number of leading 1-bits of the first byte is the number of
/// bytes that follow; the remaining bits of the first byte are the most significant
/// value bits; big endian. k bytes carry 7k bits for k <= 8, nine bytes carry 64.
pub fn put_uvint(v: u64, out: &mut Vec<u8>) {
    let mut k = 9usize;
    for n in 1..=8usize {
        if n * 7 >= 64 || v < (1u64 << (7 * n)) {
            k = n;
            break;
        }
    }
    if k == 9 {
        out.push(0xff);
        out.extend_from_slice(&v.to_be_bytes());
        return;
    }
    let extra = k - 1;
    let be = v.to_be_bytes();
    let mut bytes = be[8 - k..].to_vec();
    let marker: u16 = (0xff00u16 >> extra) & 0xff; // `extra` leading ones
    bytes[0] |= marker as u8;
    out.extend_from_slice(&bytes);
}

pub fn get_uvint(buf: &mut &[u8]) -> Result<u64, String> {
    let Some((&first, rest)) = buf.split_first() else {
        return Err("vint: no bytes".into());
    };
    let extra = first.leading_ones() as usize;
    if rest.len() < extra {
        return Err(format!("vint: needs {extra} more bytes, {} left", rest.len()));
    }
    let mut v: u64 = if extra >= 7 { 0 } else { (first & (0xffu16 >> (extra + 1)) as u8) as u64 };
    for b in &rest[..extra] {
        v = (v << 8) | *b as u64;
    }
    *buf = &rest[extra..];
    Ok(v)
}

pub fn zigzag(n: i64) -> u64 {
    ((n as u64) << 1) ^ ((n >> 63) as u64)
}
pub fn unzigzag(u: u64) -> i64 {
    ((u >> 1) as i64) ^ -((u & 1) as i64)
}

// ---------------------------------------------------------------- varint helpers

/// Minimal two's-complement form of a big-endian signed integer (never empty).
pub fn varint_normalize(raw: &[u8]) -> Vec<u8> {
    if raw.is_empty() {
        return vec![0];
    }
    let neg = raw[0] & 0x80 != 0;
    let fill = if neg { 0xffu8 } else { 0x00 };
    let mut i = 0;
    while i + 1 < raw.len() && raw[i] == fill && ((raw[i + 1] & 0x80 != 0) == neg) {
        i += 1;
    }
    raw[i..].to_vec()
}

pub fn varint_from_i128(v: i128) -> Vec<u8> {
    varint_normalize(&v.to_be_bytes())
}

// ---------------------------------------------------------------- encoder

fn put_i32(v: i32, out: &mut Vec<u8>) {
    out.extend_from_slice(&v.to_be_bytes());
}

fn put_cell(t: &MType, v: &MValue, pad: bool, out: &mut Vec<u8>) -> Option<()> {
    match v {
        MValue::Null => put_i32(-1, out),
        MValue::Unset => put_i32(-2, out),
        _ => {
            let body = encode_with(t, v, pad)?;
            put_i32(i32::try_from(body.len()).ok()?, out);
            out.extend_from_slice(&body);
        }
    }
    Some(())
}

/// Cell contents of a non-null value; `None` if the value is null / not set or does not
/// belong to the type. Short tuples/UDTs are written short.
pub fn encode(t: &MType, v: &MValue) -> Option<Vec<u8>> {
    encode_with(t, v, false)
}

/// As `encode`, but short tuples/UDTs are completed with explicit nulls (the other
/// encoding of the same value that the protocol allows).
pub fn encode_padded(t: &MType, v: &MValue) -> Option<Vec<u8>> {
    encode_with(t, v, true)
}

/// Whole cell: `[int32 length][contents]`, -1 for null, -2 for not set.
pub fn encode_cell(t: &MType, v: &MValue) -> Option<Vec<u8>> {
    let mut out = Vec::new();
    put_cell(t, v, false, &mut out)?;
    Some(out)
}
pub fn encode_cell_padded(t: &MType, v: &MValue) -> Option<Vec<u8>> {
    let mut out = Vec::new();
    put_cell(t, v, true, &mut out)?;
    Some(out)
}

fn encode_with(t: &MType, v: &MValue, pad: bool) -> Option<Vec<u8>> {
    let mut out = Vec::new();
    match (t, v) {
        (_, MValue::Null) | (_, MValue::Unset) => return None,
        (t, MValue::Empty) => {
            if !t.emptiable() {
                return None;
            }
        }
        (MType::Ascii, MValue::Ascii(s)) => {
            if !s.is_ascii() {
                return None;
            }
            out.extend_from_slice(s.as_bytes())
        }
        (MType::Text, MValue::Text(s)) => out.extend_from_slice(s.as_bytes()),
        (MType::Blob, MValue::Blob(b)) => out.extend_from_slice(b),
        (MType::Boolean, MValue::Boolean(b)) => out.push(*b as u8),
        (MType::TinyInt, MValue::TinyInt(x)) => out.extend_from_slice(&x.to_be_bytes()),
        (MType::SmallInt, MValue::SmallInt(x)) => out.extend_from_slice(&x.to_be_bytes()),
        (MType::Int, MValue::Int(x)) => out.extend_from_slice(&x.to_be_bytes()),
        (MType::BigInt, MValue::BigInt(x)) => out.extend_from_slice(&x.to_be_bytes()),
        (MType::Counter, MValue::Counter(x)) => out.extend_from_slice(&x.to_be_bytes()),
        (MType::Timestamp, MValue::Timestamp(x)) => out.extend_from_slice(&x.to_be_bytes()),
        (MType::Time, MValue::Time(x)) => out.extend_from_slice(&x.to_be_bytes()),
        (MType::Date, MValue::Date(x)) => out.extend_from_slice(&x.to_be_bytes()),
        (MType::Float, MValue::Float(bits)) => out.extend_from_slice(&bits.to_be_bytes()),
        (MType::Double, MValue::Double(bits)) => out.extend_from_slice(&bits.to_be_bytes()),
        (MType::Uuid, MValue::Uuid(b)) => out.extend_from_slice(b),
        (MType::Timeuuid, MValue::Timeuuid(b)) => out.extend_from_slice(b),
        (MType::Inet, MValue::Inet(b)) => {
            if b.len() != 4 && b.len() != 16 {
                return None;
            }
            out.extend_from_slice(b)
        }
        (MType::Varint, MValue::Varint(raw)) => {
            if raw.is_empty() {
                return None;
            }
            out.extend_from_slice(raw)
        }
        (MType::Decimal, MValue::Decimal(raw, scale)) => {
            if raw.is_empty() {
                return None;
            }
            put_i32(*scale, &mut out);
            out.extend_from_slice(raw)
        }
        (MType::Duration, MValue::Duration { months, days, nanos }) => {
            put_uvint(zigzag(*months as i64), &mut out);
            put_uvint(zigzag(*days as i64), &mut out);
            put_uvint(zigzag(*nanos), &mut out);
        }
        (MType::List(e), MValue::List(xs)) | (MType::Set(e), MValue::Set(xs)) => {
            put_i32(i32::try_from(xs.len()).ok()?, &mut out);
            for x in xs {
                if matches!(x, MValue::Unset) {
                    return None;
                }
                put_cell(e, x, pad, &mut out)?;
            }
        }
        (MType::Map(kt, vt), MValue::Map(kvs)) => {
            put_i32(i32::try_from(kvs.len()).ok()?, &mut out);
            for (k, x) in kvs {
                if matches!(k, MValue::Unset) || matches!(x, MValue::Unset) {
                    return None;
                }
                put_cell(kt, k, pad, &mut out)?;
                put_cell(vt, x, pad, &mut out)?;
            }
        }
        (MType::Tuple(ts), MValue::Tuple(xs)) => {
            if xs.len() > ts.len() {
                return None;
            }
            for (i, ft) in ts.iter().enumerate() {
                match xs.get(i) {
                    Some(MValue::Unset) => return None,
                    Some(x) => put_cell(ft, x, pad, &mut out)?,
                    None if pad => put_i32(-1, &mut out),
                    None => break,
                }
            }
        }
        (MType::Udt { fields, .. }, MValue::Udt(xs)) => {
            if xs.len() > fields.len() {
                return None;
            }
            for (i, (_, ft)) in fields.iter().enumerate() {
                match xs.get(i) {
                    Some(MValue::Unset) => return None,
                    Some(x) => put_cell(ft, x, pad, &mut out)?,
                    None if pad => put_i32(-1, &mut out),
                    None => break,
                }
            }
        }
        (MType::Vector(e, d), MValue::Vector(xs)) => {
            if xs.len() != *d as usize {
                return None;
            }
            let fixed = e.fixed_len_in_vector();
            for x in xs {
                // a vector element is always a real value of the element type
                if matches!(x, MValue::Null | MValue::Unset | MValue::Empty) {
                    return None;
                }
                let body = encode_with(e, x, pad)?;
                match fixed {
                    Some(w) => {
                        if body.len() != w {
                            return None;
                        }
                    }
                    None => put_uvint(body.len() as u64, &mut out),
                }
                out.extend_from_slice(&body);
            }
        }
        _ => return None,
    }
    Some(out)
}

// ---------------------------------------------------------------- decoder

fn take<'a>(buf: &mut &'a [u8], n: usize) -> Result<&'a [u8], String> {
    if buf.len() < n {
        return Err(format!("needs {n} bytes, {} left", buf.len()));
    }
    let (a, b) = buf.split_at(n);
    *buf = b;
    Ok(a)
}
fn get_i32(buf: &mut &[u8]) -> Result<i32, String> {
    Ok(i32::from_be_bytes(take(buf, 4)?.try_into().unwrap()))
}
/// reads `[int32 len][bytes]`; `None` for a negative length (null)
fn get_cell<'a>(buf: &mut &'a [u8]) -> Result<Option<&'a [u8]>, String> {
    let n = get_i32(buf)?;
    if n < 0 {
        if n == -1 {
            return Ok(None);
        }
        return Err(format!("length {n} inside a value"));
    }
    Ok(Some(take(buf, n as usize)?))
}
fn exact<const N: usize>(b: &[u8], what: &str) -> Result<[u8; N], String> {
    b.try_into().map_err(|_| format!("{what}: {} bytes instead of {N}", b.len()))
}

/// Decodes a whole cell (`None` contents = null). With `pad`, short tuples/UDTs are
/// completed with nulls (what a reader of the type sees); without, they stay as short
/// as they are on the wire, so that `encode(decode_raw(b)) == b` characterises the
/// canonical encodings.
pub fn decode_with(t: &MType, contents: Option<&[u8]>, pad: bool) -> Result<MValue, String> {
    let Some(b) = contents else { return Ok(MValue::Null) };
    if b.is_empty() && t.emptiable() {
        return Ok(MValue::Empty);
    }
    Ok(match t {
        MType::Ascii => {
            if !b.is_ascii() {
                return Err("ascii: byte >= 0x80".into());
            }
            MValue::Ascii(String::from_utf8(b.to_vec()).unwrap())
        }
        MType::Text => MValue::Text(String::from_utf8(b.to_vec()).map_err(|e| format!("text: {e}"))?),
        MType::Blob => MValue::Blob(b.to_vec()),
        MType::Boolean => MValue::Boolean(exact::<1>(b, "boolean")?[0] != 0),
        MType::TinyInt => MValue::TinyInt(i8::from_be_bytes(exact(b, "tinyint")?)),
        MType::SmallInt => MValue::SmallInt(i16::from_be_bytes(exact(b, "smallint")?)),
        MType::Int => MValue::Int(i32::from_be_bytes(exact(b, "int")?)),
        MType::BigInt => MValue::BigInt(i64::from_be_bytes(exact(b, "bigint")?)),
        MType::Counter => MValue::Counter(i64::from_be_bytes(exact(b, "counter")?)),
        MType::Timestamp => MValue::Timestamp(i64::from_be_bytes(exact(b, "timestamp")?)),
        MType::Time => MValue::Time(i64::from_be_bytes(exact(b, "time")?)),
        MType::Date => MValue::Date(u32::from_be_bytes(exact(b, "date")?)),
        MType::Float => MValue::Float(u32::from_be_bytes(exact(b, "float")?)),
        MType::Double => MValue::Double(u64::from_be_bytes(exact(b, "double")?)),
        MType::Uuid => MValue::Uuid(exact(b, "uuid")?),
        MType::Timeuuid => MValue::Timeuuid(exact(b, "timeuuid")?),
        MType::Inet => {
            if b.len() != 4 && b.len() != 16 {
                return Err(format!("inet: {} bytes", b.len()));
            }
            MValue::Inet(b.to_vec())
        }
        MType::Varint => MValue::Varint(b.to_vec()),
        MType::Decimal => {
            let mut r = b;
            let scale = get_i32(&mut r).map_err(|e| format!("decimal scale: {e}"))?;
            if r.is_empty() {
                return Err("decimal: no unscaled value".into());
            }
            MValue::Decimal(r.to_vec(), scale)
        }
        MType::Duration => {
            let mut r = b;
            let m = unzigzag(get_uvint(&mut r)?);
            let d = unzigzag(get_uvint(&mut r)?);
            let n = unzigzag(get_uvint(&mut r)?);
            if !r.is_empty() {
                return Err("duration: trailing bytes".into());
            }
            let months = i32::try_from(m).map_err(|_| "duration: months out of i32")?;
            let days = i32::try_from(d).map_err(|_| "duration: days out of i32")?;
            MValue::Duration { months, days, nanos: n }
        }
        MType::List(e) | MType::Set(e) => {
            let mut r = b;
            let n = get_i32(&mut r)?;
            if n < 0 {
                return Err(format!("collection count {n}"));
            }
            let mut xs = Vec::new();
            for _ in 0..n {
                let c = get_cell(&mut r)?;
                xs.push(decode_with(e, c, pad)?);
            }
            if !r.is_empty() {
                return Err("collection: trailing bytes".into());
            }
            if matches!(t, MType::List(_)) { MValue::List(xs) } else { MValue::Set(xs) }
        }
        MType::Map(kt, vt) => {
            let mut r = b;
            let n = get_i32(&mut r)?;
            if n < 0 {
                return Err(format!("map count {n}"));
            }
            let mut xs = Vec::new();
            for _ in 0..n {
                let k = get_cell(&mut r)?;
                let k = decode_with(kt, k, pad)?;
                let v = get_cell(&mut r)?;
                let v = decode_with(vt, v, pad)?;
                xs.push((k, v));
            }
            if !r.is_empty() {
                return Err("map: trailing bytes".into());
            }
            MValue::Map(xs)
        }
        MType::Tuple(ts) => {
            let mut r = b;
            let mut xs = Vec::new();
            for ft in ts {
                if r.is_empty() {
                    if pad {
                        xs.push(MValue::Null);
                        continue;
                    }
                    break;
                }
                let c = get_cell(&mut r)?;
                xs.push(decode_with(ft, c, pad)?);
            }
            if !r.is_empty() {
                return Err("tuple: trailing bytes".into());
            }
            MValue::Tuple(xs)
        }
        MType::Udt { fields, .. } => {
            let mut r = b;
            let mut xs = Vec::new();
            for (_, ft) in fields {
                if r.is_empty() {
                    if pad {
                        xs.push(MValue::Null);
                        continue;
                    }
                    break;
                }
                let c = get_cell(&mut r)?;
                xs.push(decode_with(ft, c, pad)?);
            }
            if !r.is_empty() {
                return Err("udt: trailing bytes".into());
            }
            MValue::Udt(xs)
        }
        MType::Vector(e, d) => {
            let mut r = b;
            let fixed = e.fixed_len_in_vector();
            let mut xs = Vec::new();
            for _ in 0..*d {
                let body = match fixed {
                    Some(w) => take(&mut r, w)?,
                    None => {
                        let n = get_uvint(&mut r)?;
                        let n = usize::try_from(n).map_err(|_| "vector element length")?;
                        take(&mut r, n)?
                    }
                };
                xs.push(decode_with(e, Some(body), pad)?);
            }
            if !r.is_empty() {
                return Err("vector: trailing bytes".into());
            }
            MValue::Vector(xs)
        }
    })
}

/// What a reader of type `t` sees (short tuples/UDTs padded with nulls).
pub fn decode(t: &MType, contents: Option<&[u8]>) -> Result<MValue, String> {
    decode_with(t, contents, true)
}
pub fn decode_raw(t: &MType, contents: Option<&[u8]>) -> Result<MValue, String> {
    decode_with(t, contents, false)
}

/// Splits a whole cell into its contents (`None` = null); unset is not a readable cell.
pub fn split_cell(cell: &[u8]) -> Result<Option<&[u8]>, String> {
    let mut r = cell;
    let c = get_cell(&mut r)?;
    if !r.is_empty() {
        return Err("cell: trailing bytes".into());
    }
    Ok(c)
}

// ---------------------------------------------------------------- value normal forms

/// The value as seen by a reader of the type: short tuples/UDTs completed with nulls.
pub fn pad(t: &MType, v: &MValue) -> MValue {
    match (t, v) {
        (MType::List(e), MValue::List(xs)) => MValue::List(xs.iter().map(|x| pad(e, x)).collect()),
        (MType::Set(e), MValue::Set(xs)) => MValue::Set(xs.iter().map(|x| pad(e, x)).collect()),
        (MType::Vector(e, _), MValue::Vector(xs)) => MValue::Vector(xs.iter().map(|x| pad(e, x)).collect()),
        (MType::Map(kt, vt), MValue::Map(kvs)) => MValue::Map(kvs.iter().map(|(k, x)| (pad(kt, k), pad(vt, x))).collect()),
        (MType::Tuple(ts), MValue::Tuple(xs)) => {
            MValue::Tuple(ts.iter().enumerate().map(|(i, ft)| xs.get(i).map(|x| pad(ft, x)).unwrap_or(MValue::Null)).collect())
        }
        (MType::Udt { fields, .. }, MValue::Udt(xs)) => {
            MValue::Udt(fields.iter().enumerate().map(|(i, (_, ft))| xs.get(i).map(|x| pad(ft, x)).unwrap_or(MValue::Null)).collect())
        }
        _ => v.clone(),
    }
}

/// Every varint / decimal unscaled value replaced by its minimal form: two values are
/// numerically equal iff their `norm_numbers` are structurally equal.
pub fn norm_numbers(v: &MValue) -> MValue {
    match v {
        MValue::Varint(raw) => MValue::Varint(varint_normalize(raw)),
        MValue::Decimal(raw, s) => MValue::Decimal(varint_normalize(raw), *s),
        MValue::List(xs) => MValue::List(xs.iter().map(norm_numbers).collect()),
        MValue::Set(xs) => MValue::Set(xs.iter().map(norm_numbers).collect()),
        MValue::Vector(xs) => MValue::Vector(xs.iter().map(norm_numbers).collect()),
        MValue::Tuple(xs) => MValue::Tuple(xs.iter().map(norm_numbers).collect()),
        MValue::Udt(xs) => MValue::Udt(xs.iter().map(norm_numbers).collect()),
        MValue::Map(kvs) => MValue::Map(kvs.iter().map(|(k, x)| (norm_numbers(k), norm_numbers(x))).collect()),
        _ => v.clone(),
    }
}

pub fn has_redundant_numbers(v: &MValue) -> bool {
    norm_numbers(v) != *v
}

/// Sets and maps reordered by the encoding of their elements (recursively), so that two
/// values are equal as nested multisets iff their `canon_unordered` are equal.
pub fn canon_unordered(t: &MType, v: &MValue) -> MValue {
    match (t, v) {
        (MType::List(e), MValue::List(xs)) => MValue::List(xs.iter().map(|x| canon_unordered(e, x)).collect()),
        (MType::Vector(e, _), MValue::Vector(xs)) => MValue::Vector(xs.iter().map(|x| canon_unordered(e, x)).collect()),
        (MType::Set(e), MValue::Set(xs)) => {
            let mut ys: Vec<(Option<Vec<u8>>, MValue)> = xs
                .iter()
                .map(|x| {
                    let c = canon_unordered(e, x);
                    (encode_cell(e, &c), c)
                })
                .collect();
            ys.sort_by(|a, b| a.0.cmp(&b.0));
            MValue::Set(ys.into_iter().map(|p| p.1).collect())
        }
        (MType::Map(kt, vt), MValue::Map(kvs)) => {
            let mut ys: Vec<(Option<Vec<u8>>, Option<Vec<u8>>, MValue, MValue)> = kvs
                .iter()
                .map(|(k, x)| {
                    let ck = canon_unordered(kt, k);
                    let cx = canon_unordered(vt, x);
                    (encode_cell(kt, &ck), encode_cell(vt, &cx), ck, cx)
                })
                .collect();
            ys.sort_by(|a, b| (&a.0, &a.1).cmp(&(&b.0, &b.1)));
            MValue::Map(ys.into_iter().map(|p| (p.2, p.3)).collect())
        }
        (MType::Tuple(ts), MValue::Tuple(xs)) => MValue::Tuple(xs.iter().zip(ts).map(|(x, ft)| canon_unordered(ft, x)).collect()),
        (MType::Udt { fields, .. }, MValue::Udt(xs)) => {
            MValue::Udt(xs.iter().zip(fields).map(|(x, (_, ft))| canon_unordered(ft, x)).collect())
        }
        _ => v.clone(),
    }
}

// ---------------------------------------------------------------- self-test

/// Vectors worked out by hand from the specification (and Cassandra's VIntCoding javadoc).
pub fn self_test() -> Result<(), String> {
    let uv = |v: u64| {
        let mut o = Vec::new();
        put_uvint(v, &mut o);
        o
    };
    let expect = |what: &str, got: Vec<u8>, want: &[u8]| if got == want { Ok(()) } else { Err(format!("{what}: {got:02x?} != {want:02x?}")) };
    expect("uvint 0", uv(0), &[0])?;
    expect("uvint 127", uv(127), &[0x7f])?;
    expect("uvint 128", uv(128), &[0x80, 0x80])?;
    expect("uvint 16383", uv(16383), &[0xbf, 0xff])?;
    expect("uvint 16384", uv(16384), &[0xc0, 0x40, 0x00])?;
    expect("uvint 2^56-1", uv((1 << 56) - 1), &[0xfe, 0xff, 0xff, 0xff, 0xff, 0xff, 0xff, 0xff])?;
    expect("uvint 2^56", uv(1 << 56), &[0xff, 0x01, 0, 0, 0, 0, 0, 0, 0])?;
    expect("uvint max", uv(u64::MAX), &[0xff; 9])?;
    for v in [0u64, 1, 127, 128, 255, 256, 16383, 16384, (1 << 21) - 1, 1 << 21, (1 << 28) - 1, 1 << 28, (1 << 35) - 1, 1 << 35, (1 << 42) - 1, 1 << 42, (1 << 49) - 1, 1 << 49, (1 << 56) - 1, 1 << 56, u64::MAX - 1, u64::MAX] {
        let e = uv(v);
        let mut r = &e[..];
        let back = get_uvint(&mut r)?;
        if back != v || !r.is_empty() {
            return Err(format!("uvint round trip of {v}: {back}"));
        }
        let bits = 64 - v.leading_zeros() as usize;
        let want_len = if bits <= 7 { 1 } else if bits > 56 { 9 } else { bits.div_ceil(7) };
        if e.len() != want_len {
            return Err(format!("uvint {v}: {} bytes, expected {want_len}", e.len()));
        }
    }
    for (n, z) in [(0i64, 0u64), (-1, 1), (1, 2), (-2, 3), (i64::MAX, u64::MAX - 1), (i64::MIN, u64::MAX)] {
        if zigzag(n) != z || unzigzag(z) != n {
            return Err(format!("zigzag {n}"));
        }
    }
    // duration 1 month 2 days 3 ns -> 02 04 06 ; -1 each -> 01 01 01
    expect("duration small", encode(&MType::Duration, &MValue::Duration { months: 1, days: 2, nanos: 3 }).unwrap(), &[2, 4, 6])?;
    expect("duration neg", encode(&MType::Duration, &MValue::Duration { months: -1, days: -1, nanos: -1 }).unwrap(), &[1, 1, 1])?;
    expect(
        "duration max",
        encode(&MType::Duration, &MValue::Duration { months: i32::MAX, days: 0, nanos: i64::MAX }).unwrap(),
        &[0xf0, 0xff, 0xff, 0xff, 0xfe, 0x00, 0xff, 0xff, 0xff, 0xff, 0xff, 0xff, 0xff, 0xff, 0xfe],
    )?;
    // decimal 123.456 = 123456 * 10^-3
    expect("decimal", encode(&MType::Decimal, &MValue::Decimal(vec![0x01, 0xe2, 0x40], 3)).unwrap(), &[0, 0, 0, 3, 1, 0xe2, 0x40])?;
    // list<int> [1, 2]
    expect(
        "list<int>",
        encode(&MType::List(Box::new(MType::Int)), &MValue::List(vec![MValue::Int(1), MValue::Int(2)])).unwrap(),
        &[0, 0, 0, 2, 0, 0, 0, 4, 0, 0, 0, 1, 0, 0, 0, 4, 0, 0, 0, 2],
    )?;
    // tuple<int, text> (7, null) ; short (7)
    let tt = MType::Tuple(vec![MType::Int, MType::Text]);
    expect("tuple", encode(&tt, &MValue::Tuple(vec![MValue::Int(7), MValue::Null])).unwrap(), &[0, 0, 0, 4, 0, 0, 0, 7, 0xff, 0xff, 0xff, 0xff])?;
    expect("short tuple", encode(&tt, &MValue::Tuple(vec![MValue::Int(7)])).unwrap(), &[0, 0, 0, 4, 0, 0, 0, 7])?;
    expect("short tuple padded", encode_padded(&tt, &MValue::Tuple(vec![MValue::Int(7)])).unwrap(), &[0, 0, 0, 4, 0, 0, 0, 7, 0xff, 0xff, 0xff, 0xff])?;
    // vector<float, 2> packed; vector<text, 2> with vint lengths
    expect(
        "vector<float,2>",
        encode(&MType::Vector(Box::new(MType::Float), 2), &MValue::Vector(vec![MValue::Float(1.0f32.to_bits()), MValue::Float(2.0f32.to_bits())])).unwrap(),
        &[0x3f, 0x80, 0, 0, 0x40, 0, 0, 0],
    )?;
    expect(
        "vector<text,2>",
        encode(&MType::Vector(Box::new(MType::Text), 2), &MValue::Vector(vec![MValue::Text("ab".into()), MValue::Text("".into())])).unwrap(),
        &[2, b'a', b'b', 0],
    )?;
    for (raw, want) in [
        (vec![0u8, 1], vec![1u8]),
        (vec![0, 0x80], vec![0, 0x80]),
        (vec![0xff, 0x80], vec![0x80]),
        (vec![0xff, 0x7f], vec![0xff, 0x7f]),
        (vec![0, 0, 0], vec![0]),
        (vec![0xff, 0xff], vec![0xff]),
        (vec![], vec![0]),
    ] {
        if varint_normalize(&raw) != want {
            return Err(format!("varint_normalize {raw:02x?}"));
        }
    }
    if varint_from_i128(-129) != vec![0xff, 0x7f] || varint_from_i128(128) != vec![0, 0x80] || varint_from_i128(0) != vec![0] {
        return Err("varint_from_i128".into());
    }
    Ok(())
}
