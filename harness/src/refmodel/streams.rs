//! Reference model of a connection's stream-id bookkeeping (property C02), written from the
//! property statement and the CQL protocol rule "a stream id identifies one outstanding request":
//!
//!   stream id (0..32768)  →  Free | Waiting(request) | Orphaned
//!
//! * a request that is written gets a Free id, which becomes Waiting(request);
//! * when the caller of a Waiting request goes away the id becomes Orphaned — it stays reserved,
//!   because the server still owes a response on it;
//! * a response frame on an id frees it, whatever its state, and is delivered to the Waiting
//!   request if there is one.
//! The model does not say WHICH free id is handed out.
use std::collections::HashMap;

pub const IDS: usize = 32768;

#[derive(Clone, Copy, Debug, PartialEq, Eq)]
pub enum St {
    Free,
    Waiting(u64),
    Orphaned,
}

/// What a response arriving on a stream id must resolve to.
#[derive(Clone, Copy, Debug, PartialEq, Eq)]
pub enum Expected {
    Orphaned,
    Handler(u64),
    Missing,
}

pub struct Model {
    // per stream id: 0 Free, 1 Waiting(req_of[id]), 2 Orphaned (zero-initialised: cheap under Miri)
    tag: Vec<u8>,
    req_of: Vec<u64>,
    req: HashMap<u64, i16>,
    used: usize,
}

impl Default for Model {
    fn default() -> Self {
        Self::new()
    }
}

impl Model {
    pub fn new() -> Self {
        Model { tag: vec![0; IDS], req_of: vec![0; IDS], req: HashMap::new(), used: 0 }
    }
    pub fn used(&self) -> usize {
        self.used
    }
    pub fn full(&self) -> bool {
        self.used == IDS
    }
    pub fn state(&self, id: i16) -> St {
        match self.tag[id as usize] {
            0 => St::Free,
            1 => St::Waiting(self.req_of[id as usize]),
            _ => St::Orphaned,
        }
    }
    pub fn stream_of(&self, req: u64) -> Option<i16> {
        self.req.get(&req).copied()
    }
    /// The implementation chose `id` for `req`; `Err(state)` if that id is not free (double booking).
    pub fn allocate_at(&mut self, id: i16, req: u64) -> Result<(), St> {
        match self.state(id) {
            St::Free => {
                self.tag[id as usize] = 1;
                self.req_of[id as usize] = req;
                self.req.insert(req, id);
                self.used += 1;
                Ok(())
            }
            s => Err(s),
        }
    }
    /// The caller of `req` went away. Returns the id that became Orphaned, if `req` was waiting.
    pub fn orphan(&mut self, req: u64) -> Option<i16> {
        let id = self.req.remove(&req)?;
        self.tag[id as usize] = 2;
        Some(id)
    }
    /// A response frame arrived on `id`.
    pub fn lookup(&mut self, id: i16) -> Expected {
        let e = match self.state(id) {
            St::Free => return Expected::Missing,
            St::Orphaned => Expected::Orphaned,
            St::Waiting(r) => {
                self.req.remove(&r);
                Expected::Handler(r)
            }
        };
        self.tag[id as usize] = 0;
        self.used -= 1;
        e
    }
    /// The Waiting set, sorted by stream id.
    pub fn waiting(&self) -> Vec<(i16, u64)> {
        let mut w: Vec<(i16, u64)> = self.req.iter().map(|(r, id)| (*id, *r)).collect();
        w.sort_unstable();
        w
    }
}
