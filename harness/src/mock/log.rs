//! One global, totally ordered, append-only event log (single atomic sequence).
//! Client-side call/return events (recorded at the API boundary), server-side
//! frame events and hook events all go here; checkers are pure functions over it.

use crate::wire::request::Request;
use std::sync::atomic::{AtomicU64, Ordering};
use std::sync::{Arc, Mutex};

#[derive(Debug, Clone)]
pub enum Ev {
    ClientCall { op: u64, api: &'static str, detail: String },
    ClientReturn { op: u64, ok: bool, detail: String },
    Accept { node: usize, conn: u64, src_port: u16, shard: Option<u16>, shard_aware_port: bool },
    Close { node: usize, conn: u64, by: &'static str },
    Recv { node: usize, conn: u64, stream: i16, opcode: u8, shard: Option<u16>, keyspace: Option<String>, request: Arc<Request>, op: Option<u64> },
    Send { node: usize, conn: u64, stream: i16, opcode: u8, bytes: usize, written: usize, tag: Option<u64> },
    KeyspaceAck { node: usize, conn: u64, keyspace: String },
    Fault { node: usize, conn: Option<u64>, kind: String, at: usize },
    ProtocolViolation { node: usize, conn: u64, what: String },
    Hook { site: &'static str, a: u64, b: u64 },
    Note(String),
}

#[derive(Debug, Clone)]
pub struct Logged {
    pub seq: u64,
    pub ev: Ev,
}

#[derive(Default)]
pub struct EventLog {
    seq: AtomicU64,
    evs: Mutex<Vec<Logged>>,
}

impl EventLog {
    pub fn new() -> Arc<Self> {
        Arc::new(Self::default())
    }
    /// Appends; the sequence number is taken under the same lock as the append so
    /// that log order == sequence order.
    pub fn push(&self, ev: Ev) -> u64 {
        let mut g = self.evs.lock().unwrap();
        let seq = self.seq.fetch_add(1, Ordering::SeqCst);
        g.push(Logged { seq, ev });
        seq
    }
    pub fn len(&self) -> usize {
        self.evs.lock().unwrap().len()
    }
    pub fn is_empty(&self) -> bool {
        self.len() == 0
    }
    pub fn counter(&self) -> u64 {
        self.seq.load(Ordering::SeqCst)
    }
    pub fn snapshot(&self) -> Vec<Logged> {
        self.evs.lock().unwrap().clone()
    }
    pub fn clear(&self) {
        self.evs.lock().unwrap().clear();
    }
    pub fn violations(&self) -> Vec<String> {
        self.evs
            .lock()
            .unwrap()
            .iter()
            .filter_map(|l| match &l.ev {
                Ev::ProtocolViolation { node, conn, what } => Some(format!("node {node} conn {conn}: {what}")),
                _ => None,
            })
            .collect()
    }
    /// compact text rendering of the last `n` events (for replay files)
    pub fn tail_text(&self, n: usize) -> Vec<String> {
        let g = self.evs.lock().unwrap();
        g.iter().rev().take(n).rev().map(|l| format!("{} {}", l.seq, render(&l.ev))).collect()
    }
}

pub fn render(ev: &Ev) -> String {
    match ev {
        Ev::Recv { node, conn, stream, opcode, shard, keyspace, request, op } => {
            let r = format!("{request:?}");
            let r: String = r.chars().take(160).collect();
            format!("Recv n{node} c{conn} s{stream} op{opcode:#x} shard={shard:?} ks={keyspace:?} op={op:?} {r}")
        }
        other => {
            let s = format!("{other:?}");
            s.chars().take(240).collect()
        }
    }
}
