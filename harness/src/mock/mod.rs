//! In-process mock CQL cluster over loopback TCP.
//!
//! N mock nodes, each a tokio listener on its own 127.a.b.c alias (all on the
//! same port, as the driver reuses the control connection's port for peers),
//! optionally a second "shard-aware" listener. Nodes speak CQL only through
//! `crate::wire`. Behaviour beyond the handshake / system tables is a
//! per-check `Handler`. Every frame goes to the shared `EventLog`.

pub mod enc;
pub mod log;

use crate::wire::frame::{self, Compression, Envelope, FrameHeader};
use crate::wire::request::{self, BatchStatement, Extensions, Request};
use crate::wire::response::*;
use log::{Ev, EventLog};
use std::collections::{BTreeMap, HashMap, HashSet};
use std::net::{IpAddr, Ipv4Addr, SocketAddr};
use std::sync::atomic::{AtomicBool, AtomicU64, AtomicUsize, Ordering};
use std::sync::{Arc, Mutex, RwLock};
use std::time::Duration;
use tokio::io::AsyncWriteExt;
use tokio::net::{TcpListener, TcpStream};
use tokio::sync::{mpsc, watch};
use uuid::Uuid;

pub const MAIN_PORT: u16 = 19042;
pub const SHARD_AWARE_PORT: u16 = 19142;

// ---------------------------------------------------------------------------
// Specs
// ---------------------------------------------------------------------------

#[derive(Debug, Clone, Copy, PartialEq, Eq)]
pub struct ShardSpec {
    pub nr_shards: u16,
    pub msb_ignore: u8,
    pub shard_aware_port: bool,
}

#[derive(Debug, Clone, Copy, PartialEq, Eq, Default)]
pub struct Features {
    pub metadata_id: bool,
    pub tablets: bool,
    pub lwt_mark: Option<u32>,
    pub rate_limit_code: Option<i32>,
    /// the node does not offer this compression algorithm in SUPPORTED (both set: no COMPRESSION entry at all)
    pub no_lz4: bool,
    pub no_snappy: bool,
}

#[derive(Debug, Clone)]
pub struct NodeSpec {
    pub dc: Option<String>,
    pub rack: Option<String>,
    pub tokens: Vec<i64>,
    pub sharding: Option<ShardSpec>,
    pub features: Features,
}

impl NodeSpec {
    pub fn simple(dc: &str, rack: &str, tokens: Vec<i64>) -> Self {
        Self { dc: Some(dc.into()), rack: Some(rack.into()), tokens, sharding: None, features: Features::default() }
    }
}

#[derive(Debug, Clone)]
pub struct ColumnDef {
    pub name: String,
    /// "partition_key" | "clustering" | "regular" | "static"
    pub kind: String,
    pub position: i32,
    /// CQL type string as in system_schema.columns.type
    pub typ: String,
}

#[derive(Debug, Clone)]
pub struct TableDef {
    pub name: String,
    pub columns: Vec<ColumnDef>,
    pub partitioner: Option<String>,
}

#[derive(Debug, Clone)]
pub struct KeyspaceDef {
    pub name: String,
    /// replication map as in system_schema.keyspaces ("class" → ..., "replication_factor" / dc → rf)
    pub replication: BTreeMap<String, String>,
    /// Some(n): listed in scylla_keyspaces with initial_tablets = n (tablet-based)
    pub initial_tablets: Option<i32>,
    pub tables: Vec<TableDef>,
}

impl KeyspaceDef {
    pub fn simple(name: &str, rf: usize) -> Self {
        let mut r = BTreeMap::new();
        r.insert("class".into(), "org.apache.cassandra.locator.SimpleStrategy".into());
        r.insert("replication_factor".into(), rf.to_string());
        Self { name: name.into(), replication: r, initial_tablets: None, tables: vec![] }
    }
    pub fn nts(name: &str, dcs: &[(&str, usize)]) -> Self {
        let mut r = BTreeMap::new();
        r.insert("class".into(), "org.apache.cassandra.locator.NetworkTopologyStrategy".into());
        for (dc, rf) in dcs {
            r.insert((*dc).into(), rf.to_string());
        }
        Self { name: name.into(), replication: r, initial_tablets: None, tables: vec![] }
    }
    pub fn with_table(mut self, t: TableDef) -> Self {
        self.tables.push(t);
        self
    }
}

impl TableDef {
    /// table with partition key columns `pk` (name, type) and regular columns
    pub fn new(name: &str, pk: &[(&str, &str)], regular: &[(&str, &str)]) -> Self {
        let mut columns = Vec::new();
        for (i, (n, t)) in pk.iter().enumerate() {
            columns.push(ColumnDef { name: (*n).into(), kind: "partition_key".into(), position: i as i32, typ: (*t).into() });
        }
        for (n, t) in regular {
            columns.push(ColumnDef { name: (*n).into(), kind: "regular".into(), position: -1, typ: (*t).into() });
        }
        Self { name: name.into(), columns, partitioner: None }
    }
}

#[derive(Debug, Clone, Default)]
pub struct ClusterSpec {
    pub nodes: Vec<NodeSpec>,
    pub keyspaces: Vec<KeyspaceDef>,
    pub cluster_name: String,
}

/// A prepared statement as a node knows it.
#[derive(Debug, Clone, PartialEq, Eq)]
pub struct StatementDef {
    pub query: String,
    pub id: Vec<u8>,
    pub bind: Vec<ColSpec>,
    pub pk_indexes: Vec<u16>,
    pub result: Vec<ColSpec>,
    pub result_metadata_id: Option<Vec<u8>>,
    /// set the negotiated LWT mark in the PREPARED flags
    pub lwt: bool,
    /// answer PREPARE with NO_METADATA result metadata
    pub prepare_without_result_metadata: bool,
}

impl StatementDef {
    pub fn new(query: &str, id: &[u8]) -> Self {
        Self {
            query: query.into(),
            id: id.to_vec(),
            bind: vec![],
            pk_indexes: vec![],
            result: vec![],
            result_metadata_id: None,
            lwt: false,
            prepare_without_result_metadata: false,
        }
    }
}

// ---------------------------------------------------------------------------
// Runtime structures
// ---------------------------------------------------------------------------

#[derive(Debug, Clone, Copy, PartialEq, Eq)]
pub enum CloseHow {
    /// orderly shutdown (FIN)
    Fin,
    /// SO_LINGER 0 + close (RST)
    Rst,
    /// stop reading and writing, keep the socket open
    Stall,
}

#[derive(Debug, Clone, Copy)]
pub struct Cut {
    /// cut when this many bytes of the response stream (counted from arming) were written
    pub after: usize,
    pub how: CloseHow,
}

enum Cmd {
    Frame { bytes: Vec<u8>, stream: i16, opcode: u8, tag: Option<u64> },
    /// two TCP segments with a pause in between, written by the writer task itself so that no other
    /// frame of this connection can land between the halves
    Split { first: Vec<u8>, pause_ms: u64, second: Vec<u8> },
    Close(CloseHow),
}

pub struct Conn {
    pub id: u64,
    pub node: usize,
    pub src: SocketAddr,
    pub shard: Option<u16>,
    pub via_shard_aware_port: bool,
    pub compression: Mutex<Option<Compression>>,
    pub ext: Mutex<Extensions>,
    pub startup_options: Mutex<BTreeMap<String, String>>,
    pub keyspace: Mutex<Option<String>>,
    pub registered: AtomicBool,
    pub started: AtomicBool,
    pub requests_seen: AtomicU64,
    pub outstanding: Mutex<HashSet<i16>>,
    pub alive: AtomicBool,
    tx: mpsc::UnboundedSender<Cmd>,
    cut: Mutex<Option<Cut>>,
    resp_bytes: AtomicUsize,
    closed: watch::Sender<bool>,
}

impl Conn {
    /// Arms a cut of the response stream `after` bytes from now.
    pub fn arm_cut(&self, after: usize, how: CloseHow) {
        self.resp_bytes.store(0, Ordering::SeqCst);
        *self.cut.lock().unwrap() = Some(Cut { after, how });
    }
    pub fn close(&self, how: CloseHow) {
        let _ = self.tx.send(Cmd::Close(how));
    }
    pub fn send_raw(&self, bytes: Vec<u8>) {
        let _ = self.tx.send(Cmd::Frame { bytes, stream: -32768, opcode: 0xff, tag: None });
    }
    /// Writes `first`, flushes, waits `pause_ms`, writes `second`; nothing else is written to this
    /// connection in between (responses queued meanwhile follow afterwards).
    pub fn send_raw_split(&self, first: Vec<u8>, pause_ms: u64, second: Vec<u8>) {
        let _ = self.tx.send(Cmd::Split { first, pause_ms, second });
    }
    pub fn compression(&self) -> Option<Compression> {
        *self.compression.lock().unwrap()
    }
    pub fn keyspace(&self) -> Option<String> {
        self.keyspace.lock().unwrap().clone()
    }
    /// Sends a complete response frame on `stream`.
    pub fn send_response(&self, stream: i16, env: &Envelope, resp: &Response, tag: Option<u64>) {
        let body = resp.encode_body();
        let started = self.started.load(Ordering::SeqCst);
        let comp = if started { self.compression() } else { None };
        let bytes = frame::response_frame(stream, resp.opcode(), env, &body, comp);
        let _ = self.tx.send(Cmd::Frame { bytes, stream, opcode: resp.opcode(), tag });
    }
    pub fn push_event(&self, ev: &Event) {
        self.send_response(-1, &Envelope::default(), &Response::Event(ev.clone()), None);
    }
}

pub struct MockNode {
    pub idx: usize,
    pub host_id: Uuid,
    pub ip: Ipv4Addr,
    pub spec: RwLock<NodeSpec>,
    pub up: AtomicBool,
    pub prepared: Mutex<HashMap<Vec<u8>, Arc<StatementDef>>>,
    pub conns: Mutex<Vec<Arc<Conn>>>,
    /// number of PREPARE / non-system request frames seen (cheap counters for checks)
    pub prepares_seen: AtomicU64,
    pub started_once: AtomicBool,
    /// delay (ms) before this node answers OPTIONS: makes connection setup slow
    pub handshake_delay_ms: AtomicU64,
    stop: Mutex<Option<watch::Sender<bool>>>,
}

impl MockNode {
    pub fn addr(&self) -> SocketAddr {
        SocketAddr::new(IpAddr::V4(self.ip), MAIN_PORT)
    }
    pub fn live_conns(&self) -> Vec<Arc<Conn>> {
        self.conns.lock().unwrap().iter().filter(|c| c.alive.load(Ordering::SeqCst)).cloned().collect()
    }
    /// forget prepared statements (server-side eviction)
    pub fn evict(&self, id: &[u8]) -> bool {
        self.prepared.lock().unwrap().remove(id).is_some()
    }
    pub fn evict_all_user(&self) {
        self.prepared.lock().unwrap().retain(|_, d| is_system_query(&d.query));
    }
    pub fn knows(&self, id: &[u8]) -> bool {
        self.prepared.lock().unwrap().contains_key(id)
    }
    pub fn sharding(&self) -> Option<ShardSpec> {
        self.spec.read().unwrap().sharding
    }
    /// what the node announces in SUPPORTED from now on (a restart with another configuration): takes effect
    /// for connections opened afterwards
    pub fn set_sharding(&self, sh: Option<ShardSpec>) {
        self.spec.write().unwrap().sharding = sh;
    }
}

/// What a check plugs in. All methods have benign defaults.
pub trait Handler: Send + Sync + 'static {
    /// Called first for EVERY request frame after the handshake (also system
    /// queries). Return `Some(rq)` to let normal processing continue, `None` if the
    /// handler took over (it answers, delays, withholds or kills as it likes).
    fn intercept(&self, rq: Rq) -> Option<Rq> {
        Some(rq)
    }
    /// PREPARE of a non-system statement: how this node should know it.
    /// `None` ⇒ a parameterless statement with no result columns and a stable id.
    fn statement(&self, _node: &MockNode, _query: &str) -> Option<StatementDef> {
        None
    }
    /// QUERY / EXECUTE (known id) / BATCH (known ids) of non-system statements.
    fn on_request(&self, rq: Rq) {
        rq.void();
    }
    /// `USE <ks>`; default acknowledges at once.
    fn on_use(&self, rq: Rq, keyspace: String) {
        rq.ack_keyspace(&keyspace);
    }
}

pub struct DefaultHandler;
impl Handler for DefaultHandler {}

pub struct Topology {
    /// USE of a keyspace that is not listed is accepted too (checks that probe name handling only)
    pub any_keyspace_usable: bool,
    /// system tables are paged the awkward (legal) way: pages shorter than asked for, and every third
    /// page preceded by an EMPTY page that still carries a paging state
    pub awkward_system_paging: bool,
    pub keyspaces: Vec<KeyspaceDef>,
    pub cluster_name: String,
    /// nodes visible in system.local / system.peers (indices into `nodes`)
    pub members: Vec<usize>,
}

pub struct ClusterInner {
    pub log: Arc<EventLog>,
    pub nodes: RwLock<Vec<Arc<MockNode>>>,
    pub topo: RwLock<Topology>,
    pub handler: RwLock<Arc<dyn Handler>>,
    stmt_ids: Mutex<HashMap<String, Vec<u8>>>,
    conn_ids: AtomicU64,
    net: (u8, u8),
    pub schema_version: RwLock<Uuid>,
}

#[derive(Clone)]
pub struct MockCluster {
    pub inner: Arc<ClusterInner>,
}

/// One request in flight at a node, handed to the `Handler`.
pub struct Rq {
    pub cluster: Arc<ClusterInner>,
    pub node: Arc<MockNode>,
    pub conn: Arc<Conn>,
    pub stream: i16,
    pub opcode: u8,
    pub tracing: bool,
    pub request: Arc<Request>,
    /// for EXECUTE: the statement the node knows under that id
    pub statement: Option<Arc<StatementDef>>,
    /// sequence number of the Recv event
    pub seq: u64,
}

impl Rq {
    pub fn reply_env_tag(&self, env: &Envelope, resp: &Response, tag: Option<u64>) {
        self.conn.outstanding.lock().unwrap().remove(&self.stream);
        self.conn.send_response(self.stream, env, resp, tag);
    }
    pub fn reply(&self, resp: &Response) {
        self.reply_env_tag(&Envelope::default(), resp, None);
    }
    pub fn reply_env(&self, env: &Envelope, resp: &Response) {
        self.reply_env_tag(env, resp, None);
    }
    pub fn void(&self) {
        self.reply(&Response::Result(ResultBody::Void));
    }
    pub fn error(&self, e: ErrorBody) {
        self.reply(&Response::Error(e));
    }
    pub fn rows(&self, columns: Vec<ColSpec>, rows: Vec<Row>, paging_state: Option<Vec<u8>>) {
        let metadata = ResultMetadata { columns, paging_state, no_metadata: false, global_spec: true, new_metadata_id: None };
        self.reply(&Response::Result(ResultBody::Rows { metadata, rows }));
    }
    /// Answers with rows honouring the request's skip-metadata flag and (when the
    /// SCYLLA_USE_METADATA_ID extension is on) the presented result-metadata id.
    pub fn rows_for(&self, def: &StatementDef, rows: Vec<Row>, paging_state: Option<Vec<u8>>) {
        let (skip, presented) = match &*self.request {
            Request::Execute { params, result_metadata_id, .. } => (params.skip_metadata, result_metadata_id.clone()),
            Request::Query { params, .. } => (params.skip_metadata, None),
            _ => (false, None),
        };
        let ext = *self.conn.ext.lock().unwrap();
        let mut md = ResultMetadata { columns: def.result.clone(), paging_state, no_metadata: false, global_spec: true, new_metadata_id: None };
        if skip {
            if ext.metadata_id && presented.is_some() && presented != def.result_metadata_id {
                // the client's idea of the result metadata is stale: send the new one with its id
                md.new_metadata_id = def.result_metadata_id.clone();
            } else {
                md.no_metadata = true;
            }
        }
        self.reply(&Response::Result(ResultBody::Rows { metadata: md, rows }));
    }
    /// The server executes USE when it receives it: the connection is in the keyspace from now on, whenever the
    /// answer travels (`reply_set_keyspace`). Requests on a connection are executed in the order they arrive, so a
    /// late ANSWER to an old USE must never undo a newer USE.
    pub fn apply_keyspace(&self, ks: &str) {
        *self.conn.keyspace.lock().unwrap() = Some(ks.to_string());
        self.cluster.log.push(Ev::KeyspaceAck { node: self.node.idx, conn: self.conn.id, keyspace: ks.to_string() });
    }
    pub fn reply_set_keyspace(&self, ks: &str) {
        self.reply(&Response::Result(ResultBody::SetKeyspace(ks.to_string())));
    }
    pub fn ack_keyspace(&self, ks: &str) {
        // the acknowledgement becomes true once the response is written: record first (logical order)
        *self.conn.keyspace.lock().unwrap() = Some(ks.to_string());
        self.cluster.log.push(Ev::KeyspaceAck { node: self.node.idx, conn: self.conn.id, keyspace: ks.to_string() });
        self.reply(&Response::Result(ResultBody::SetKeyspace(ks.to_string())));
    }
    pub fn query_text(&self) -> Option<&str> {
        match &*self.request {
            Request::Query { query, .. } | Request::Prepare { query } => Some(query),
            Request::Execute { .. } => self.statement.as_ref().map(|s| s.query.as_str()),
            _ => None,
        }
    }
}

pub fn is_system_query(q: &str) -> bool {
    let l = q.trim_start().to_ascii_lowercase();
    l.starts_with("select") && (l.contains(" from system.") || l.contains(" from system_schema."))
}

/// `USE ks` / `USE "ks"` → (name, quoted)
pub fn parse_use(q: &str) -> Option<(String, bool)> {
    let t = q.trim();
    if t.len() < 4 || !t[..3].eq_ignore_ascii_case("use") || !t.as_bytes()[3].is_ascii_whitespace() {
        return None;
    }
    let rest = t[3..].trim().trim_end_matches(';').trim();
    if rest.len() >= 2 && rest.starts_with('"') && rest.ends_with('"') {
        Some((rest[1..rest.len() - 1].to_string(), true))
    } else {
        Some((rest.to_string(), false))
    }
}

static NET_COUNTER: AtomicUsize = AtomicUsize::new(0);

impl MockCluster {
    /// Starts listeners for all nodes. Must run inside a tokio runtime.
    pub async fn start(spec: ClusterSpec, handler: Arc<dyn Handler>) -> MockCluster {
        Self::start_with_log(spec, handler, EventLog::new()).await
    }

    pub async fn start_with_log(spec: ClusterSpec, handler: Arc<dyn Handler>, log: Arc<EventLog>) -> MockCluster {
        let pid = std::process::id() as usize;
        for attempt in 0..400 {
            let k = NET_COUNTER.fetch_add(1, Ordering::SeqCst) + attempt * 7;
            let a = 10 + ((pid + k / 250) % 200) as u8;
            let b = (k % 250) as u8 + 1;
            // probe: can we bind the first node's address?
            let probe = SocketAddr::new(IpAddr::V4(Ipv4Addr::new(127, a, b, 1)), MAIN_PORT);
            match TcpListener::bind(probe).await {
                Ok(l) => drop(l),
                Err(_) => continue,
            }
            let inner = Arc::new(ClusterInner {
                log: log.clone(),
                nodes: RwLock::new(Vec::new()),
                topo: RwLock::new(Topology {
                    any_keyspace_usable: false,
                    awkward_system_paging: false,
                    keyspaces: spec.keyspaces.clone(),
                    cluster_name: if spec.cluster_name.is_empty() { "mock".into() } else { spec.cluster_name.clone() },
                    members: Vec::new(),
                }),
                handler: RwLock::new(handler.clone()),
                stmt_ids: Mutex::new(HashMap::new()),
                conn_ids: AtomicU64::new(1),
                net: (a, b),
                schema_version: RwLock::new(Uuid::from_u128(0x5c4e_ad00_0000_0000_0000_0000_0000_0001)),
            });
            let c = MockCluster { inner };
            let mut ok = true;
            for ns in &spec.nodes {
                if c.add_node_inner(ns.clone(), true).await.is_none() {
                    ok = false;
                    break;
                }
            }
            if ok {
                return c;
            }
            c.shutdown();
        }
        panic!("mock cluster: could not bind loopback addresses");
    }

    pub fn log(&self) -> &Arc<EventLog> {
        &self.inner.log
    }
    pub fn node(&self, i: usize) -> Arc<MockNode> {
        self.inner.nodes.read().unwrap()[i].clone()
    }
    pub fn nodes(&self) -> Vec<Arc<MockNode>> {
        self.inner.nodes.read().unwrap().clone()
    }
    pub fn contact_point(&self) -> SocketAddr {
        self.node(0).addr()
    }
    pub fn set_handler(&self, h: Arc<dyn Handler>) {
        *self.inner.handler.write().unwrap() = h;
    }
    pub fn node_by_ip(&self, ip: IpAddr) -> Option<Arc<MockNode>> {
        self.nodes().into_iter().find(|n| IpAddr::V4(n.ip) == ip)
    }
    pub fn node_by_host_id(&self, id: Uuid) -> Option<Arc<MockNode>> {
        self.nodes().into_iter().find(|n| n.host_id == id)
    }

    async fn add_node_inner(&self, spec: NodeSpec, member: bool) -> Option<Arc<MockNode>> {
        let idx = self.inner.nodes.read().unwrap().len();
        let (a, b) = self.inner.net;
        let ip = Ipv4Addr::new(127, a, b, (idx + 1) as u8);
        let node = Arc::new(MockNode {
            idx,
            host_id: Uuid::from_u128(0xabcd_0000_0000_0000_0000_0000_0000_0000u128 | ((a as u128) << 24) | ((b as u128) << 16) | (idx as u128 + 1)),
            ip,
            spec: RwLock::new(spec),
            up: AtomicBool::new(false),
            prepared: Mutex::new(HashMap::new()),
            conns: Mutex::new(Vec::new()),
            prepares_seen: AtomicU64::new(0),
            started_once: AtomicBool::new(false),
            handshake_delay_ms: AtomicU64::new(0),
            stop: Mutex::new(None),
        });
        self.inner.nodes.write().unwrap().push(node.clone());
        if member {
            self.inner.topo.write().unwrap().members.push(idx);
        }
        if !self.start_node(idx).await {
            return None;
        }
        Some(node)
    }

    /// Adds a node (listener up); `member=false` keeps it out of system.peers until `set_members`.
    pub async fn add_node(&self, spec: NodeSpec, member: bool) -> Arc<MockNode> {
        self.add_node_inner(spec, member).await.expect("bind new mock node")
    }

    pub fn set_members(&self, members: Vec<usize>) {
        self.inner.topo.write().unwrap().members = members;
    }
    pub fn awkward_system_paging(&self) {
        self.inner.topo.write().unwrap().awkward_system_paging = true;
    }
    pub fn allow_any_keyspace(&self) {
        self.inner.topo.write().unwrap().any_keyspace_usable = true;
    }
    pub fn set_keyspaces(&self, ks: Vec<KeyspaceDef>) {
        self.inner.topo.write().unwrap().keyspaces = ks;
    }

    /// (Re)starts the listeners of node `idx`.
    pub async fn start_node(&self, idx: usize) -> bool {
        let node = self.node(idx);
        if node.up.load(Ordering::SeqCst) {
            return true;
        }
        // a restart may race with the previous accept loops letting go of their listeners: retry for a while
        // (a first start does not: there a busy address means the network is taken by another process)
        let tries = if node.started_once.swap(true, Ordering::SeqCst) { 80 } else { 1 };
        let mut bound = None;
        for t in 0..tries {
            if t > 0 {
                tokio::time::sleep(Duration::from_millis(25)).await;
            }
            let Ok(main) = TcpListener::bind(SocketAddr::new(IpAddr::V4(node.ip), MAIN_PORT)).await else { continue };
            let sa = if node.sharding().map(|s| s.shard_aware_port).unwrap_or(false) {
                match TcpListener::bind(SocketAddr::new(IpAddr::V4(node.ip), SHARD_AWARE_PORT)).await {
                    Ok(l) => Some(l),
                    Err(_) => continue,
                }
            } else {
                None
            };
            bound = Some((main, sa));
            break;
        }
        let Some((main, sa)) = bound else { return false };
        let (stop_tx, stop_rx) = watch::channel(false);
        *node.stop.lock().unwrap() = Some(stop_tx);
        node.up.store(true, Ordering::SeqCst);
        for (l, shard_aware) in [(Some(main), false), (sa, true)] {
            let Some(l) = l else { continue };
            let inner = self.inner.clone();
            let node = node.clone();
            let mut stop_rx = stop_rx.clone();
            tokio::spawn(async move {
                loop {
                    tokio::select! {
                        biased;
                        _ = stop_rx.changed() => break,
                        acc = l.accept() => {
                            let Ok((sock, src)) = acc else { break };
                            // a node stopped meanwhile serves nobody: a connection that slipped into the
                            // backlog before this task saw the stop signal is reset, as a dead host would
                            if *stop_rx.borrow() || !node.up.load(Ordering::SeqCst) {
                                let _ = socket2::SockRef::from(&sock).set_linger(Some(Duration::ZERO));
                                drop(sock);
                                break;
                            }
                            let _ = sock.set_nodelay(true);
                            let inner = inner.clone();
                            let node = node.clone();
                            tokio::spawn(serve_conn(inner, node, sock, src, shard_aware));
                        }
                    }
                }
            });
        }
        true
    }

    /// Stops listening on node `idx` and closes all its connections.
    pub fn stop_node(&self, idx: usize, how: CloseHow) {
        let node = self.node(idx);
        node.up.store(false, Ordering::SeqCst);
        if let Some(s) = node.stop.lock().unwrap().take() {
            let _ = s.send(true);
        }
        self.inner.log.push(Ev::Fault { node: idx, conn: None, kind: format!("node-down:{how:?}"), at: 0 });
        for c in node.live_conns() {
            c.close(how);
        }
    }

    pub fn kill_connections(&self, idx: usize, how: CloseHow) {
        for c in self.node(idx).live_conns() {
            c.close(how);
        }
    }

    /// Sends an event frame to every connection that REGISTERed.
    pub fn push_event(&self, ev: &Event) {
        for n in self.nodes() {
            for c in n.live_conns() {
                if c.registered.load(Ordering::SeqCst) {
                    c.push_event(ev);
                }
            }
        }
    }

    pub fn shutdown(&self) {
        for n in self.nodes() {
            n.up.store(false, Ordering::SeqCst);
            if let Some(s) = n.stop.lock().unwrap().take() {
                let _ = s.send(true);
            }
            for c in n.live_conns() {
                c.close(CloseHow::Rst);
            }
        }
    }

    /// Total live connections per node that finished the handshake.
    pub fn established(&self, idx: usize) -> Vec<Arc<Conn>> {
        self.node(idx).live_conns().into_iter().filter(|c| c.started.load(Ordering::SeqCst)).collect()
    }

    /// Event-driven wait: until `pred` holds, polling the log counter (no verdict depends on it).
    pub async fn wait_until(&self, max: Duration, mut pred: impl FnMut() -> bool) -> bool {
        let t0 = std::time::Instant::now();
        loop {
            if pred() {
                return true;
            }
            if t0.elapsed() > max {
                return false;
            }
            tokio::time::sleep(Duration::from_millis(2)).await;
        }
    }
}

impl ClusterInner {
    /// Stable, collision-free prepared id per statement text (same on all nodes, like MD5 on a real server).
    pub fn stmt_id(&self, query: &str) -> Vec<u8> {
        let mut g = self.stmt_ids.lock().unwrap();
        let n = g.len() as u64 + 1;
        g.entry(query.to_string())
            .or_insert_with(|| {
                let mut id = n.to_be_bytes().to_vec();
                id.extend_from_slice(&crate::fw::hash_str(query).to_be_bytes());
                id
            })
            .clone()
    }
    fn handler(&self) -> Arc<dyn Handler> {
        self.handler.read().unwrap().clone()
    }
}

// ---------------------------------------------------------------------------
// Connection service
// ---------------------------------------------------------------------------

fn supported_options(node: &MockNode, shard: Option<u16>) -> BTreeMap<String, Vec<String>> {
    let spec = node.spec.read().unwrap();
    let mut m = BTreeMap::new();
    m.insert("CQL_VERSION".to_string(), vec!["3.0.0".to_string()]);
    {
        let f = spec.features;
        let algos: Vec<String> = [("lz4", f.no_lz4), ("snappy", f.no_snappy)].iter().filter(|(_, no)| !no).map(|(a, _)| a.to_string()).collect();
        if !algos.is_empty() {
            m.insert("COMPRESSION".to_string(), algos);
        }
    }
    if let (Some(sh), Some(s)) = (spec.sharding, shard) {
        m.insert("SCYLLA_SHARD".into(), vec![s.to_string()]);
        m.insert("SCYLLA_NR_SHARDS".into(), vec![sh.nr_shards.to_string()]);
        m.insert("SCYLLA_SHARDING_IGNORE_MSB".into(), vec![sh.msb_ignore.to_string()]);
        m.insert("SCYLLA_PARTITIONER".into(), vec!["org.apache.cassandra.dht.Murmur3Partitioner".into()]);
        m.insert("SCYLLA_SHARDING_ALGORITHM".into(), vec!["biased-token-round-robin".into()]);
        if sh.shard_aware_port {
            m.insert("SCYLLA_SHARD_AWARE_PORT".into(), vec![SHARD_AWARE_PORT.to_string()]);
        }
    }
    let f = spec.features;
    if f.metadata_id {
        m.insert("SCYLLA_USE_METADATA_ID".into(), vec![]);
    }
    if f.tablets {
        m.insert("TABLETS_ROUTING_V1".into(), vec![]);
    }
    if let Some(mask) = f.lwt_mark {
        m.insert("SCYLLA_LWT_ADD_METADATA_MARK".into(), vec![format!("LWT_OPTIMIZATION_META_BIT_MASK={mask}")]);
    }
    if let Some(code) = f.rate_limit_code {
        m.insert("SCYLLA_RATE_LIMIT_ERROR".into(), vec![format!("ERROR_CODE={code}")]);
    }
    m
}

async fn serve_conn(inner: Arc<ClusterInner>, node: Arc<MockNode>, sock: TcpStream, src: SocketAddr, shard_aware: bool) {
    // shard assignment like ScyllaDB: by source port on the shard-aware port, else least loaded
    let shard = node.sharding().map(|sh| {
        if shard_aware {
            src.port() % sh.nr_shards
        } else {
            let mut load = vec![0usize; sh.nr_shards as usize];
            for c in node.live_conns() {
                if let Some(s) = c.shard {
                    load[s as usize] += 1;
                }
            }
            load.iter().enumerate().min_by_key(|(_, l)| **l).map(|(i, _)| i as u16).unwrap_or(0)
        }
    });
    let (tx, mut rx) = mpsc::unbounded_channel::<Cmd>();
    let (closed_tx, mut closed_rx) = watch::channel(false);
    let conn = Arc::new(Conn {
        id: inner.conn_ids.fetch_add(1, Ordering::SeqCst),
        node: node.idx,
        src,
        shard,
        via_shard_aware_port: shard_aware,
        compression: Mutex::new(None),
        ext: Mutex::new(Extensions::default()),
        startup_options: Mutex::new(BTreeMap::new()),
        keyspace: Mutex::new(None),
        registered: AtomicBool::new(false),
        started: AtomicBool::new(false),
        requests_seen: AtomicU64::new(0),
        outstanding: Mutex::new(HashSet::new()),
        alive: AtomicBool::new(true),
        tx,
        cut: Mutex::new(None),
        resp_bytes: AtomicUsize::new(0),
        closed: closed_tx,
    });
    node.conns.lock().unwrap().push(conn.clone());
    inner.log.push(Ev::Accept { node: node.idx, conn: conn.id, src_port: src.port(), shard, shard_aware_port: shard_aware });

    let (mut rd, mut wr) = sock.into_split();

    // writer task
    let wconn = conn.clone();
    let wlog = inner.log.clone();
    let writer = tokio::spawn(async move {
        let mut stalled = false;
        while let Some(cmd) = rx.recv().await {
            if stalled {
                continue;
            }
            match cmd {
                Cmd::Frame { bytes, stream, opcode, tag } => {
                    let cut = *wconn.cut.lock().unwrap();
                    let sofar = wconn.resp_bytes.load(Ordering::SeqCst);
                    if let Some(c) = cut {
                        if sofar + bytes.len() > c.after {
                            let k = c.after.saturating_sub(sofar);
                            wlog.push(Ev::Send { node: wconn.node, conn: wconn.id, stream, opcode, bytes: bytes.len(), written: k, tag });
                            wlog.push(Ev::Fault { node: wconn.node, conn: Some(wconn.id), kind: format!("cut:{:?}", c.how), at: c.after });
                            let _ = wr.write_all(&bytes[..k]).await;
                            let _ = wr.flush().await;
                            match c.how {
                                CloseHow::Stall => {
                                    stalled = true;
                                    continue;
                                }
                                how => return Some((wr, how)),
                            }
                        }
                    }
                    wlog.push(Ev::Send { node: wconn.node, conn: wconn.id, stream, opcode, bytes: bytes.len(), written: bytes.len(), tag });
                    wconn.resp_bytes.fetch_add(bytes.len(), Ordering::SeqCst);
                    if wr.write_all(&bytes).await.is_err() {
                        return Some((wr, CloseHow::Fin));
                    }
                }
                Cmd::Split { first, pause_ms, second } => {
                    wconn.resp_bytes.fetch_add(first.len() + second.len(), Ordering::SeqCst);
                    if wr.write_all(&first).await.is_err() {
                        return Some((wr, CloseHow::Fin));
                    }
                    let _ = wr.flush().await;
                    tokio::time::sleep(Duration::from_millis(pause_ms)).await;
                    if wr.write_all(&second).await.is_err() {
                        return Some((wr, CloseHow::Fin));
                    }
                }
                Cmd::Close(CloseHow::Stall) => {
                    wlog.push(Ev::Fault { node: wconn.node, conn: Some(wconn.id), kind: "stall".into(), at: 0 });
                    stalled = true;
                }
                Cmd::Close(how) => return Some((wr, how)),
            }
        }
        None
    });

    // reader loop
    let rinner = inner.clone();
    let rnode = node.clone();
    let rconn = conn.clone();
    let reader = async move {
        loop {
            let fr = tokio::select! {
                _ = closed_rx.changed() => break "script",
                fr = frame::read_frame(&mut rd, 256 << 20) => fr,
            };
            let (h, body) = match fr {
                Ok(Some(x)) => x,
                Ok(None) => break "peer",
                Err(_) => break "peer-error",
            };
            handle_frame(&rinner, &rnode, &rconn, h, body);
        }
    };

    tokio::pin!(reader);
    let mut writer = writer;
    // the node was stopped between accept and registration: stop_node did not see this connection
    if !node.up.load(Ordering::SeqCst) {
        conn.close(CloseHow::Rst);
    }
    let by;
    tokio::select! {
        b = &mut reader => {
            by = b;
            // peer went away (or script): stop the writer
            writer.abort();
        }
        w = &mut writer => {
            by = "script";
            if let Ok(Some((wr, how))) = w {
                match how {
                    CloseHow::Rst => {
                        let _ = socket2::SockRef::from(wr.as_ref()).set_linger(Some(Duration::ZERO));
                        wr.forget();
                    }
                    _ => {
                        let mut wr = wr;
                        let _ = wr.shutdown().await;
                    }
                }
            }
        }
    }
    let _ = conn.closed.send(true);
    conn.alive.store(false, Ordering::SeqCst);
    inner.log.push(Ev::Close { node: node.idx, conn: conn.id, by });
    // dropping `reader` (and with it the read half) closes the socket; with linger 0 that is an RST
}

fn handle_frame(inner: &Arc<ClusterInner>, node: &Arc<MockNode>, conn: &Arc<Conn>, h: FrameHeader, body: Vec<u8>) {
    let violation = |what: String| {
        inner.log.push(Ev::ProtocolViolation { node: node.idx, conn: conn.id, what });
    };
    if h.version != 0x04 {
        violation(format!("request frame with version byte {:#x}", h.version));
        conn.send_response(h.stream, &Envelope::default(), &Response::Error(ErrorBody::simple(errcode::PROTOCOL_ERROR, "bad version")), None);
        return;
    }
    let body = match frame::request_body(&h, &body, conn.compression()) {
        Ok(b) => b,
        Err(e) => {
            violation(format!("undecodable request body: {}", e.0));
            return;
        }
    };
    let ext = *conn.ext.lock().unwrap();
    let req = match request::parse_request(h.opcode, &body, &ext) {
        Ok(r) => Arc::new(r),
        Err(e) => {
            violation(format!("malformed request (opcode {:#x}): {}", h.opcode, e.0));
            conn.send_response(h.stream, &Envelope::default(), &Response::Error(ErrorBody::simple(errcode::PROTOCOL_ERROR, "malformed")), None);
            return;
        }
    };
    if h.stream < 0 {
        violation(format!("request on negative stream {}", h.stream));
    }
    // C02 monitor (b): a stream id must not be reused while the server still owes an answer on it
    if !conn.outstanding.lock().unwrap().insert(h.stream) {
        violation(format!("stream {} reused while a request on it is still unanswered by the server", h.stream));
    }
    conn.requests_seen.fetch_add(1, Ordering::SeqCst);
    let seq = inner.log.push(Ev::Recv {
        node: node.idx,
        conn: conn.id,
        stream: h.stream,
        opcode: h.opcode,
        shard: conn.shard,
        keyspace: conn.keyspace(),
        request: req.clone(),
        op: None,
    });
    let mut rq = Rq {
        cluster: inner.clone(),
        node: node.clone(),
        conn: conn.clone(),
        stream: h.stream,
        opcode: h.opcode,
        tracing: h.flags & frame::FLAG_TRACING != 0,
        request: req.clone(),
        statement: None,
        seq,
    };
    // handshake frames are always served by the node itself
    match &*req {
        Request::Options => {
            let d = node.handshake_delay_ms.load(Ordering::SeqCst);
            let resp = Response::Supported(supported_options(node, conn.shard));
            if d > 0 && !conn.started.load(Ordering::SeqCst) {
                tokio::spawn(async move {
                    tokio::time::sleep(Duration::from_millis(d)).await;
                    rq.reply(&resp);
                });
            } else {
                rq.reply(&resp);
            }
            return;
        }
        Request::Startup { options } => {
            *conn.startup_options.lock().unwrap() = options.clone();
            let comp = match options.get("COMPRESSION").map(|s| s.as_str()) {
                Some("lz4") => Some(Compression::Lz4),
                Some("snappy") => Some(Compression::Snappy),
                _ => None,
            };
            {
                let f = node.spec.read().unwrap().features;
                if (comp == Some(Compression::Lz4) && f.no_lz4) || (comp == Some(Compression::Snappy) && f.no_snappy) {
                    violation(format!("STARTUP asks for compression {:?}, which SUPPORTED did not offer", options.get("COMPRESSION")));
                }
            }
            conn.ext.lock().unwrap().metadata_id = options.contains_key("SCYLLA_USE_METADATA_ID");
            // READY itself is sent uncompressed (compression applies to the frames after STARTUP)
            rq.reply(&Response::Ready);
            *conn.compression.lock().unwrap() = comp;
            conn.started.store(true, Ordering::SeqCst);
            return;
        }
        Request::Register { .. } => {
            conn.registered.store(true, Ordering::SeqCst);
            rq.reply(&Response::Ready);
            return;
        }
        Request::AuthResponse { .. } => {
            rq.reply(&Response::AuthSuccess(None));
            return;
        }
        _ => {}
    }
    if let Request::Execute { id, .. } = &*req {
        rq.statement = node.prepared.lock().unwrap().get(id).cloned();
    }
    let handler = inner.handler();
    let Some(rq) = handler.intercept(rq) else { return };
    match &*req {
        Request::Prepare { query } => {
            node.prepares_seen.fetch_add(1, Ordering::SeqCst);
            let def = if is_system_query(query) {
                system_statement(inner, query)
            } else {
                handler.statement(node, query).unwrap_or_else(|| StatementDef::new(query, &inner.stmt_id(query)))
            };
            let def = Arc::new(def);
            node.prepared.lock().unwrap().insert(def.id.clone(), def.clone());
            reply_prepared(&rq, &def);
        }
        Request::Query { query, params } => {
            if let Some((ks, quoted)) = parse_use(query) {
                // as the server resolves it: an unquoted name is case-insensitive (folded to lower case),
                // a quoted one is taken literally; the keyspace must exist
                let effective = if quoted { ks } else { ks.to_lowercase() };
                let known = {
                    let t = inner.topo.read().unwrap();
                    t.any_keyspace_usable || t.keyspaces.iter().any(|k| k.name == effective) || effective.starts_with("system")
                };
                if known {
                    handler.on_use(rq, effective);
                } else {
                    rq.error(ErrorBody::simple(errcode::INVALID, &format!("Keyspace '{effective}' does not exist")));
                }
            } else if is_system_query(query) {
                let def = system_statement(inner, query);
                answer_system(&rq, &def, params.page_size, params.paging_state.as_deref());
            } else {
                handler.on_request(rq);
            }
        }
        Request::Execute { id, params, .. } => match rq.statement.clone() {
            None => rq.error(ErrorBody::unprepared(id)),
            Some(def) if is_system_query(&def.query) => answer_system(&rq, &def, params.page_size, params.paging_state.as_deref()),
            Some(_) => handler.on_request(rq),
        },
        Request::Batch { statements, .. } => {
            let unknown = statements.iter().find_map(|s| match s {
                BatchStatement::Prepared { id, .. } if !node.knows(id) => Some(id.clone()),
                _ => None,
            });
            match unknown {
                Some(id) => rq.error(ErrorBody::unprepared(&id)),
                None => handler.on_request(rq),
            }
        }
        _ => rq.error(ErrorBody::simple(errcode::PROTOCOL_ERROR, "unexpected")),
    }
}

pub fn reply_prepared(rq: &Rq, def: &StatementDef) {
    let ext = *rq.conn.ext.lock().unwrap();
    let lwt_mask = rq.node.spec.read().unwrap().features.lwt_mark;
    let body = ResultBody::Prepared {
        id: def.id.clone(),
        result_metadata_id: if ext.metadata_id { Some(def.result_metadata_id.clone().unwrap_or_else(|| vec![0u8; 16])) } else { None },
        prepared_metadata: PreparedMetadata {
            extra_flags: if def.lwt { lwt_mask.unwrap_or(0) as i32 } else { 0 },
            columns: def.bind.clone(),
            pk_indexes: def.pk_indexes.clone(),
            global_spec: true,
        },
        result_metadata: ResultMetadata {
            columns: def.result.clone(),
            paging_state: None,
            no_metadata: def.prepare_without_result_metadata,
            global_spec: true,
            new_metadata_id: None,
        },
    };
    rq.reply(&Response::Result(body));
}

// ---------------------------------------------------------------------------
// System tables
// ---------------------------------------------------------------------------

fn cs(table: &str, name: &str, t: ColType) -> ColSpec {
    let (ks, tb) = table.split_once('.').unwrap();
    ColSpec::new(ks, tb, name, t)
}

fn system_table_of(query: &str) -> Option<&'static str> {
    let l = query.to_ascii_lowercase();
    const TABLES: [&str; 10] = [
        "system.peers",
        "system.local",
        "system_schema.keyspaces",
        "system_schema.tables",
        "system_schema.views",
        "system_schema.columns",
        "system_schema.types",
        "system_schema.scylla_tables",
        "system_schema.scylla_keyspaces",
        "system.client_routes",
    ];
    let from = l.find(" from ")? + 6;
    let rest = &l[from..];
    TABLES.iter().copied().find(|t| {
        rest.starts_with(t) && rest[t.len()..].chars().next().map(|c| !c.is_alphanumeric() && c != '_').unwrap_or(true)
    })
}

/// Column list of the SELECT (between "select" and "from"), lower-cased.
fn selected_columns(query: &str) -> Vec<String> {
    let l = query.to_ascii_lowercase();
    let s = l.find("select").map(|i| i + 6).unwrap_or(0);
    let e = l.find(" from ").unwrap_or(l.len());
    l[s..e].split(',').map(|c| c.trim().to_string()).filter(|c| !c.is_empty()).collect()
}

fn system_col_type(table: &str, col: &str) -> ColType {
    use ColType::*;
    match (table, col) {
        (_, "host_id") | (_, "schema_version") => Uuid,
        (_, "rpc_address") | (_, "peer") | (_, "broadcast_address") | (_, "listen_address") => Inet,
        (_, "tokens") => Set(Box::new(Text)),
        (_, "replication") => Map(Box::new(Text), Box::new(Text)),
        (_, "durable_writes") => Boolean,
        (_, "position") | (_, "initial_tablets") => Int,
        (_, "field_names") | (_, "field_types") => List(Box::new(Text)),
        _ => Text,
    }
}

fn system_statement(inner: &ClusterInner, query: &str) -> StatementDef {
    let table = system_table_of(query).unwrap_or("system.unknown");
    let cols = selected_columns(query);
    let mut def = StatementDef::new(query, &inner.stmt_id(query));
    def.result = cols.iter().map(|c| cs(table, c, system_col_type(table, c))).collect();
    // `WHERE keyspace_name IN ?` variants carry one bind marker
    if query.contains('?') {
        let n = query.matches('?').count();
        def.bind = (0..n).map(|i| cs(table, &format!("in{i}"), ColType::List(Box::new(ColType::Text)))).collect();
    }
    def
}

fn system_rows(inner: &ClusterInner, node: &MockNode, query: &str) -> Result<Vec<Row>, ErrorBody> {
    let table = system_table_of(query);
    let cols = selected_columns(query);
    let topo = inner.topo.read().unwrap();
    let nodes = inner.nodes.read().unwrap();
    let scylla = node.sharding().is_some() || {
        let f = node.spec.read().unwrap().features;
        f.metadata_id || f.tablets || f.lwt_mark.is_some() || f.rate_limit_code.is_some()
    };
    let node_row = |n: &MockNode| -> Row {
        let spec = n.spec.read().unwrap();
        cols.iter()
            .map(|c| match c.as_str() {
                "host_id" => Some(enc::uuid(&n.host_id)),
                "rpc_address" | "peer" | "broadcast_address" | "listen_address" => Some(enc::inet(IpAddr::V4(n.ip))),
                "data_center" => spec.dc.as_deref().map(enc::text),
                "rack" => spec.rack.as_deref().map(enc::text),
                "tokens" => Some(enc::text_list(&spec.tokens.iter().map(|t| t.to_string()).collect::<Vec<_>>())),
                "cluster_name" => Some(enc::text(&topo.cluster_name)),
                "schema_version" => Some(enc::uuid(&inner.schema_version.read().unwrap())),
                "key" => Some(enc::text("local")),
                _ => None,
            })
            .collect()
    };
    let rows: Vec<Row> = match table {
        Some("system.local") => vec![node_row(node)],
        Some("system.peers") => topo.members.iter().filter(|i| **i != node.idx).map(|i| node_row(&nodes[*i])).collect(),
        Some("system_schema.keyspaces") => topo
            .keyspaces
            .iter()
            .map(|k| {
                cols.iter()
                    .map(|c| match c.as_str() {
                        "keyspace_name" => Some(enc::text(&k.name)),
                        "replication" => Some(enc::map(&k.replication.iter().map(|(a, b)| (enc::text(a), enc::text(b))).collect::<Vec<_>>())),
                        "durable_writes" => Some(enc::boolean(true)),
                        _ => None,
                    })
                    .collect()
            })
            .collect(),
        Some("system_schema.tables") => topo
            .keyspaces
            .iter()
            .flat_map(|k| k.tables.iter().map(move |t| (k, t)))
            .map(|(k, t)| {
                cols.iter()
                    .map(|c| match c.as_str() {
                        "keyspace_name" => Some(enc::text(&k.name)),
                        "table_name" => Some(enc::text(&t.name)),
                        _ => None,
                    })
                    .collect()
            })
            .collect(),
        Some("system_schema.columns") => topo
            .keyspaces
            .iter()
            .flat_map(|k| k.tables.iter().flat_map(move |t| t.columns.iter().map(move |c| (k, t, c))))
            .map(|(k, t, col)| {
                cols.iter()
                    .map(|c| match c.as_str() {
                        "keyspace_name" => Some(enc::text(&k.name)),
                        "table_name" => Some(enc::text(&t.name)),
                        "column_name" => Some(enc::text(&col.name)),
                        "kind" => Some(enc::text(&col.kind)),
                        "position" => Some(enc::int(col.position)),
                        "type" => Some(enc::text(&col.typ)),
                        _ => None,
                    })
                    .collect()
            })
            .collect(),
        Some("system_schema.views") | Some("system_schema.types") => vec![],
        Some("system_schema.scylla_tables") => {
            if !scylla {
                return Err(ErrorBody::simple(errcode::INVALID, "unconfigured table scylla_tables"));
            }
            topo.keyspaces
                .iter()
                .flat_map(|k| k.tables.iter().map(move |t| (k, t)))
                .map(|(k, t)| {
                    cols.iter()
                        .map(|c| match c.as_str() {
                            "keyspace_name" => Some(enc::text(&k.name)),
                            "table_name" => Some(enc::text(&t.name)),
                            "partitioner" => t.partitioner.as_deref().map(enc::text),
                            _ => None,
                        })
                        .collect()
                })
                .collect()
        }
        Some("system_schema.scylla_keyspaces") => {
            if !scylla {
                return Err(ErrorBody::simple(errcode::INVALID, "unconfigured table scylla_keyspaces"));
            }
            topo.keyspaces
                .iter()
                .map(|k| {
                    cols.iter()
                        .map(|c| match c.as_str() {
                            "keyspace_name" => Some(enc::text(&k.name)),
                            "initial_tablets" => k.initial_tablets.map(enc::int),
                            _ => None,
                        })
                        .collect()
                })
                .collect()
        }
        _ => return Err(ErrorBody::simple(errcode::INVALID, "unconfigured table")),
    };
    Ok(rows)
}

/// Serves a system SELECT, paging with an opaque offset as paging state.
fn answer_system(rq: &Rq, def: &StatementDef, page_size: Option<i32>, paging_state: Option<&[u8]>) {
    match system_rows(&rq.cluster, &rq.node, &def.query) {
        Err(e) => rq.error(e),
        Ok(all) => {
            let start = paging_state.filter(|p| p.len() >= 4).map(|p| u32::from_be_bytes([p[0], p[1], p[2], p[3]]) as usize).unwrap_or(0).min(all.len());
            let mut n = page_size.filter(|p| *p > 0).map(|p| p as usize).unwrap_or(usize::MAX);
            if rq.cluster.topo.read().unwrap().awkward_system_paging && n != usize::MAX {
                // a 5-byte state marks "the empty page in front of this offset has been served"
                let after_empty = paging_state.map(|p| p.len() == 5).unwrap_or(false);
                let page_no = start / n.max(1);
                if !after_empty && start < all.len() && page_no % 3 != 1 {
                    let mut st = (start as u32).to_be_bytes().to_vec();
                    st.push(1);
                    rq.rows_for(def, vec![], Some(st));
                    return;
                }
                // fewer rows than asked for
                n = (n - n / 3).max(1);
            }
            let end = start.saturating_add(n).min(all.len());
            let next = if end < all.len() { Some((end as u32).to_be_bytes().to_vec()) } else { None };
            rq.rows_for(def, all[start..end].to_vec(), next);
        }
    }
}
