//! Minimal CQL value encoders for the cells the mock nodes serve (written
//! from the spec; independent of the driver).

use std::net::IpAddr;

pub fn int(v: i32) -> Vec<u8> {
    v.to_be_bytes().to_vec()
}
pub fn bigint(v: i64) -> Vec<u8> {
    v.to_be_bytes().to_vec()
}
pub fn boolean(v: bool) -> Vec<u8> {
    vec![v as u8]
}
pub fn text(s: &str) -> Vec<u8> {
    s.as_bytes().to_vec()
}
pub fn uuid(u: &uuid::Uuid) -> Vec<u8> {
    u.as_bytes().to_vec()
}
pub fn inet(ip: IpAddr) -> Vec<u8> {
    match ip {
        IpAddr::V4(a) => a.octets().to_vec(),
        IpAddr::V6(a) => a.octets().to_vec(),
    }
}
/// list / set: int32 count, then [int32 len][bytes] per element
pub fn list(elems: &[Vec<u8>]) -> Vec<u8> {
    let mut v = (elems.len() as i32).to_be_bytes().to_vec();
    for e in elems {
        v.extend_from_slice(&(e.len() as i32).to_be_bytes());
        v.extend_from_slice(e);
    }
    v
}
pub fn text_list<S: AsRef<str>>(xs: &[S]) -> Vec<u8> {
    list(&xs.iter().map(|s| text(s.as_ref())).collect::<Vec<_>>())
}
pub fn map(pairs: &[(Vec<u8>, Vec<u8>)]) -> Vec<u8> {
    let mut v = (pairs.len() as i32).to_be_bytes().to_vec();
    for (k, val) in pairs {
        v.extend_from_slice(&(k.len() as i32).to_be_bytes());
        v.extend_from_slice(k);
        v.extend_from_slice(&(val.len() as i32).to_be_bytes());
        v.extend_from_slice(val);
    }
    v
}
/// tuple / UDT: per field [int32 len or -1][bytes]
pub fn tuple(fields: &[Option<Vec<u8>>]) -> Vec<u8> {
    let mut v = Vec::new();
    for f in fields {
        match f {
            None => v.extend_from_slice(&(-1i32).to_be_bytes()),
            Some(b) => {
                v.extend_from_slice(&(b.len() as i32).to_be_bytes());
                v.extend_from_slice(b);
            }
        }
    }
    v
}
/// The `tablets-routing-v1` custom payload value:
/// tuple<bigint, bigint, list<tuple<uuid, int>>> with (first_exclusive, last_inclusive, replicas)
pub fn tablet_payload(first_exclusive: i64, last_inclusive: i64, replicas: &[(uuid::Uuid, i32)]) -> Vec<u8> {
    let reps: Vec<Vec<u8>> = replicas
        .iter()
        .map(|(u, s)| tuple(&[Some(uuid(u)), Some(int(*s))]))
        .collect();
    tuple(&[Some(bigint(first_exclusive)), Some(bigint(last_inclusive)), Some(list(&reps))])
}
