//! The crash-isolated half of C08: `verif-harness child c08 [--trace] [--stack8]`.
//!
//! Reads length-prefixed records from stdin, and for each one writes `B <id>`
//! before and `E <id> <json>` after driving the driver's public decode
//! pipeline over the record's bytes on a dedicated thread (2 MiB stack: the
//! tokio worker size; `--stack8`: 8 MiB, the main-thread size).

use super::alloc;
use super::summary as sm;
use crate::fw;
use bytes::Bytes;
use scylla_cql::deserialize::row::ColumnIterator;
use scylla_cql::deserialize::value::{ListlikeIterator, MapIterator, VectorIterator};
use scylla_cql::frame::protocol_features::ProtocolFeatures;
use scylla_cql::frame::request::query::PagingStateResponse;
use scylla_cql::frame::response::ResponseV2;
use scylla_cql::frame::response::error::DbError;
use scylla_cql::frame::response::event::{
    ClientRoutesChangeEvent, EventV2, SchemaChangeEvent, SchemaChangeType, StatusChangeEvent, TopologyChangeEvent,
};
use scylla_cql::frame::response::result::{self as dres, DeserializedMetadataAndRawRows, ResultMetadata};
use scylla_cql::frame::{self as dframe, Compression};
use scylla_cql::value::{CqlValue, Row};
use serde_json::{Value, json};
use std::collections::{BTreeSet, HashMap};
use std::io::Write;
use std::net::IpAddr;
use std::pin::Pin;
use std::sync::atomic::{AtomicBool, Ordering::Relaxed};
use std::sync::{Arc, Mutex, OnceLock};
use std::task::{Context, Poll};
use std::time::Duration;

pub const FEAT_RATE_LIMIT: u8 = 1;
pub const FEAT_LWT: u8 = 2;
pub const FEAT_TABLETS: u8 = 4;
pub const FEAT_METADATA_ID: u8 = 8;
pub const RATE_LIMIT_CODE: i32 = 0x4321;

/// allocation budget of DESIGN §3.1
pub fn budget(input_len: usize) -> u64 {
    (16u64 << 20) + 256 * input_len as u64
}
/// live-byte ceiling above which the allocator refuses requests (emulated exhaustion)
pub const HARD_LIMIT: u64 = 3 << 30;
/// thread CPU time after which a record is declared non-terminating (inputs are ≤ a few MiB and
/// decode in micro- to milliseconds; this is CPU time of the decode thread, not wall time)
pub const CPU_LIMIT: Duration = Duration::from_secs(3);
/// batch children only SUSPECT a record after this much CPU time (+ 2 µs per input byte); the verdict is
/// taken by a confirming child with CPU_LIMIT
pub const CPU_SUSPECT_MS: u64 = 250;
static CPU_LIMIT_MS: std::sync::atomic::AtomicU64 = std::sync::atomic::AtomicU64::new(3_000);

#[derive(Clone, Debug, Default, PartialEq, Eq)]
pub struct Rec {
    pub id: u32,
    pub feat: u8,
    /// 0 none, 1 lz4, 2 snappy (what was "negotiated")
    pub comp: u8,
    /// 0: whole input in one read; k: first read returns k bytes, then the rest;
    /// bit 31 set: every read returns (k & 0x7fffffff) bytes with a Pending in between
    pub split: u32,
    /// 0: no cached metadata; 1: cached (int a, text b)
    pub cached: u8,
    pub frame: Vec<u8>,
}

impl Rec {
    pub fn encode(&self, out: &mut Vec<u8>) {
        let len = 4 + 1 + 1 + 4 + 1 + self.frame.len();
        out.extend_from_slice(&(len as u32).to_le_bytes());
        out.extend_from_slice(&self.id.to_le_bytes());
        out.push(self.feat);
        out.push(self.comp);
        out.extend_from_slice(&self.split.to_le_bytes());
        out.push(self.cached);
        out.extend_from_slice(&self.frame);
    }
    pub fn decode_all(mut b: &[u8]) -> Vec<Rec> {
        let mut v = Vec::new();
        while b.len() >= 4 {
            let len = u32::from_le_bytes(b[..4].try_into().unwrap()) as usize;
            b = &b[4..];
            if b.len() < len || len < 11 {
                break;
            }
            let r = &b[..len];
            v.push(Rec {
                id: u32::from_le_bytes(r[0..4].try_into().unwrap()),
                feat: r[4],
                comp: r[5],
                split: u32::from_le_bytes(r[6..10].try_into().unwrap()),
                cached: r[10],
                frame: r[11..].to_vec(),
            });
            b = &b[len..];
        }
        v
    }
}

pub fn features(bits: u8) -> ProtocolFeatures {
    let mut m: HashMap<String, Vec<String>> = HashMap::new();
    if bits & FEAT_RATE_LIMIT != 0 {
        m.insert("SCYLLA_RATE_LIMIT_ERROR".into(), vec![format!("ERROR_CODE={RATE_LIMIT_CODE}")]);
    }
    if bits & FEAT_LWT != 0 {
        m.insert("SCYLLA_LWT_ADD_METADATA_MARK".into(), vec!["LWT_OPTIMIZATION_META_BIT_MASK=2147483648".into()]);
    }
    if bits & FEAT_TABLETS != 0 {
        m.insert("TABLETS_ROUTING_V1".into(), vec![String::new()]);
    }
    if bits & FEAT_METADATA_ID != 0 {
        m.insert("SCYLLA_USE_METADATA_ID".into(), vec![String::new()]);
    }
    ProtocolFeatures::parse_from_supported(&m)
}

/// In-memory `AsyncRead` that hands out the input in configurable pieces.
struct ChunkReader<'a> {
    data: &'a [u8],
    pos: usize,
    split: u32,
    reads: u32,
    pend: bool,
}

impl tokio::io::AsyncRead for ChunkReader<'_> {
    fn poll_read(mut self: Pin<&mut Self>, cx: &mut Context<'_>, buf: &mut tokio::io::ReadBuf<'_>) -> Poll<std::io::Result<()>> {
        let me = &mut *self;
        let rest = &me.data[me.pos..];
        let max = if me.split == 0 {
            usize::MAX
        } else if me.split & 0x8000_0000 != 0 {
            if !me.pend {
                me.pend = true;
                cx.waker().wake_by_ref();
                return Poll::Pending;
            }
            me.pend = false;
            ((me.split & 0x7fff_ffff) as usize).max(1)
        } else if me.reads == 0 {
            me.split as usize
        } else {
            usize::MAX
        };
        let n = rest.len().min(max).min(buf.remaining());
        buf.put_slice(&rest[..n]);
        me.pos += n;
        me.reads += 1;
        Poll::Ready(Ok(()))
    }
}

static TRACE: AtomicBool = AtomicBool::new(false);
static PANIC_LOC: Mutex<String> = Mutex::new(String::new());

pub const STAGES: [&str; 9] = ["?", "canary", "frame-header", "body-ext", "tablet-payload", "response", "metadata", "drop", "done"];
pub const KINDS: [&str; 16] = [
    "?",
    "frame",
    "error",
    "ready",
    "authenticate",
    "supported",
    "result",
    "event",
    "auth-challenge",
    "auth-success",
    "opcode?",
    "result-void",
    "result-rows",
    "result-set-keyspace",
    "result-prepared",
    "result-schema-change",
];
pub const TARGETS: [&str; 20] = [
    "Row",
    "Raw",
    "(i32,String)",
    "(Option<i32>,Option<&str>)",
    "RowAB",
    "(Option<Vec<i32>>,)",
    "(Option<Vec<Option<i32>>>,)",
    "(Option<Vec<Vec<i32>>>,)",
    "(CqlValue,)",
    "(Option<CqlValue>,)",
    "(map,set,tuple)",
    "(i64,bool,blob,uuid,inet,f64)",
    "(Option<UdtAB>,)",
    "(Option<Vec<f32>>,)",
    "(Option<UdtLoose>,)",
    "(Option<UdtOrdered>,)",
    "Walk(VectorIterator<f32>)",
    "Walk(VectorIterator<String>)",
    "Walk(ListlikeIterator<i32>)",
    "Walk(MapIterator<String,i32>)",
];

/// stage code: index into STAGES, or 100 + index into TARGETS for "rows<target>"
pub fn stage_name(code: u32) -> String {
    if code >= 100 {
        format!("rows<{}>", TARGETS.get(code as usize - 100).copied().unwrap_or("?"))
    } else {
        STAGES.get(code as usize).copied().unwrap_or("?").to_string()
    }
}
pub fn kind_name(code: u32) -> &'static str {
    KINDS.get(code as usize).copied().unwrap_or("?")
}
/// (stage, kind) names of a packed context word as written by the allocator hook
pub fn ctx_names(ctx: u32) -> (String, &'static str) {
    (stage_name(ctx >> 8), kind_name(ctx & 0xff))
}

fn raw_stdout(s: &str) {
    let mut o = std::io::stdout().lock();
    let _ = o.write_all(s.as_bytes());
    let _ = o.flush();
}

// Stage / kind live in one atomic word (no locks, no allocation: the allocator hook reads it).
fn stage(name: &str) {
    let code = if let Some(t) = name.strip_prefix("rows<").and_then(|n| n.strip_suffix('>')) {
        100 + TARGETS.iter().position(|x| *x == t).unwrap_or(0) as u32
    } else {
        STAGES.iter().position(|x| *x == name).unwrap_or(0) as u32
    };
    let old = alloc::CTX.load(Relaxed);
    alloc::CTX.store((code << 8) | (old & 0xff), Relaxed);
    if TRACE.load(Relaxed) {
        raw_stdout(&format!("S {name}\n"));
    }
}

/// what the bytes say the response is (opcode, then RESULT kind): used in signatures
fn set_kind(k: &str) {
    let code = KINDS.iter().position(|x| *x == k).unwrap_or(0) as u32;
    let old = alloc::CTX.load(Relaxed);
    alloc::CTX.store((old & !0xff) | code, Relaxed);
    if TRACE.load(Relaxed) {
        raw_stdout(&format!("K {k}\n"));
    }
}

fn stage_target(name: &str) {
    let code = 100 + TARGETS.iter().position(|x| *x == name).unwrap_or(0) as u32;
    let old = alloc::CTX.load(Relaxed);
    alloc::CTX.store((code << 8) | (old & 0xff), Relaxed);
    if TRACE.load(Relaxed) {
        raw_stdout(&format!("S rows<{name}>\n"));
    }
}

fn cur_kind() -> String {
    kind_name(alloc::CTX.load(Relaxed) & 0xff).to_string()
}

fn cur_stage() -> String {
    stage_name(alloc::CTX.load(Relaxed) >> 8)
}

/// What one typed (or dynamic) row target did.
#[derive(Debug, Clone)]
pub struct TargetOut {
    pub name: &'static str,
    pub typecheck: bool,
    pub ok_rows: u64,
    pub err: bool,
    /// iteration was stopped by the harness cap (more Ok rows than input bytes)
    pub capped: bool,
    pub rows_hash: u64,
    pub rows_text: String,
}

#[derive(Debug, Default)]
pub struct PipeOut {
    /// stage that returned an error ("" = everything decoded)
    pub err_stage: String,
    pub err_text: String,
    pub summary: String,
    pub targets: Vec<TargetOut>,
    pub nrows: Option<u64>,
    pub ncols: Option<u64>,
}

fn cached_metadata() -> Arc<ResultMetadata<'static>> {
    static C: OnceLock<Arc<ResultMetadata<'static>>> = OnceLock::new();
    C.get_or_init(|| {
        use crate::wire::response as w;
        let body = w::Response::Result(w::ResultBody::Prepared {
            id: vec![1],
            result_metadata_id: None,
            prepared_metadata: w::PreparedMetadata::default(),
            result_metadata: w::ResultMetadata {
                columns: super::gens::cached_columns(),
                global_spec: true,
                ..Default::default()
            },
        })
        .encode_body();
        let r = ResponseV2::deserialize(&ProtocolFeatures::default(), dframe::response::ResponseOpcode::Result, Bytes::from(body), None)
            .expect("cached metadata: PREPARED decodes");
        match r {
            ResponseV2::Result(dres::Result::Prepared(p)) => Arc::new(p.result_metadata),
            _ => unreachable!(),
        }
    })
    .clone()
}

struct Probe {
    _rt: tokio::runtime::Runtime,
    probe: scylla::verif_hooks::ClusterProbe,
}

fn tablet_probe() -> &'static Mutex<Probe> {
    static P: OnceLock<Mutex<Probe>> = OnceLock::new();
    P.get_or_init(|| {
        let rt = tokio::runtime::Builder::new_current_thread().enable_all().build().expect("rt");
        // the two hosts that the well-formed tablet payload names as replicas are known nodes
        let peers: Vec<scylla::verif_hooks::PeerDesc> = [0x21u8, 0x22]
            .iter()
            .map(|b| scylla::verif_hooks::PeerDesc {
                host_id: uuid::Uuid::from_bytes([*b; 16]),
                address: std::net::SocketAddr::new(IpAddr::from([127, 250, 0, *b]), 9042),
                datacenter: Some("dc1".into()),
                rack: Some("r1".into()),
                tokens: vec![*b as i64 * 1000],
            })
            .collect();
        let probe = rt.block_on(scylla::verif_hooks::ClusterProbe::new(&peers, &[], None));
        Mutex::new(Probe { _rt: rt, probe })
    })
}

fn schema_change_line(e: &SchemaChangeEvent) -> String {
    let ct = |c: &SchemaChangeType| match c {
        SchemaChangeType::Created => "CREATED",
        SchemaChangeType::Updated => "UPDATED",
        SchemaChangeType::Dropped => "DROPPED",
        SchemaChangeType::Invalid => "INVALID",
    };
    match e {
        SchemaChangeEvent::KeyspaceChange { change_type, keyspace_name } => sm::schema_change(ct(change_type), "KEYSPACE", keyspace_name, None, None),
        SchemaChangeEvent::TableChange { change_type, keyspace_name, object_name } => {
            sm::schema_change(ct(change_type), "TABLE", keyspace_name, Some(object_name), None)
        }
        SchemaChangeEvent::TypeChange { change_type, keyspace_name, type_name } => {
            sm::schema_change(ct(change_type), "TYPE", keyspace_name, Some(type_name), None)
        }
        SchemaChangeEvent::FunctionChange { change_type, keyspace_name, function_name, arguments } => {
            sm::schema_change(ct(change_type), "FUNCTION", keyspace_name, Some(function_name), Some(arguments))
        }
        SchemaChangeEvent::AggregateChange { change_type, keyspace_name, aggregate_name, arguments } => {
            sm::schema_change(ct(change_type), "AGGREGATE", keyspace_name, Some(aggregate_name), Some(arguments))
        }
    }
}

fn error_line(e: &dframe::response::Error) -> String {
    use scylla_cql::frame::response::error::OperationType;
    let op = |o: &OperationType| match o {
        OperationType::Read => 0u8,
        OperationType::Write => 1,
        OperationType::Other(x) => *x,
    };
    let detail = match &e.error {
        DbError::ServerError => sm::err_simple(0x0000),
        DbError::ProtocolError => sm::err_simple(0x000A),
        DbError::AuthenticationError => sm::err_simple(0x0100),
        DbError::Unavailable { consistency, required, alive } => sm::err_unavailable(*consistency as u16, *required, *alive),
        DbError::Overloaded => sm::err_simple(0x1001),
        DbError::IsBootstrapping => sm::err_simple(0x1002),
        DbError::TruncateError => sm::err_simple(0x1003),
        DbError::WriteTimeout { consistency, received, required, write_type } => {
            sm::err_write_timeout(*consistency as u16, *received, *required, write_type.as_str())
        }
        DbError::ReadTimeout { consistency, received, required, data_present } => {
            sm::err_read_timeout(*consistency as u16, *received, *required, *data_present)
        }
        DbError::ReadFailure { consistency, received, required, numfailures, data_present } => {
            sm::err_read_failure(*consistency as u16, *received, *required, *numfailures, *data_present)
        }
        DbError::FunctionFailure { keyspace, function, arg_types } => sm::err_function_failure(keyspace, function, arg_types),
        DbError::WriteFailure { consistency, received, required, numfailures, write_type } => {
            sm::err_write_failure(*consistency as u16, *received, *required, *numfailures, write_type.as_str())
        }
        DbError::SyntaxError => sm::err_simple(0x2000),
        DbError::Unauthorized => sm::err_simple(0x2100),
        DbError::Invalid => sm::err_simple(0x2200),
        DbError::ConfigError => sm::err_simple(0x2300),
        DbError::AlreadyExists { keyspace, table } => sm::err_already_exists(keyspace, table),
        DbError::Unprepared { statement_id } => sm::err_unprepared(statement_id),
        DbError::RateLimitReached { op_type, rejected_by_coordinator } => sm::err_rate_limit(op(op_type), *rejected_by_coordinator),
        DbError::Other(c) => sm::err_simple(*c),
        _ => "unknown-dberror-variant".to_string(),
    };
    sm::error(&e.reason, &detail)
}

// ---- canonical rendering of what the driver decoded -------------------------------------------

fn canon_type(t: &dres::ColumnType<'_>) -> String {
    use dres::{CollectionType as C, ColumnType as T, NativeType as N};
    match t {
        T::Native(n) => match n {
            N::Ascii => "ascii",
            N::Boolean => "boolean",
            N::Blob => "blob",
            N::Counter => "counter",
            N::Date => "date",
            N::Decimal => "decimal",
            N::Double => "double",
            N::Duration => "duration",
            N::Float => "float",
            N::Int => "int",
            N::BigInt => "bigint",
            N::Text => "text",
            N::Timestamp => "timestamp",
            N::Inet => "inet",
            N::SmallInt => "smallint",
            N::TinyInt => "tinyint",
            N::Time => "time",
            N::Timeuuid => "timeuuid",
            N::Uuid => "uuid",
            N::Varint => "varint",
            _ => "native?",
        }
        .to_string(),
        T::Collection { frozen, typ } => {
            let f = if *frozen { "frozen:" } else { "" };
            match typ {
                C::List(e) => format!("{f}list<{}>", canon_type(e)),
                C::Set(e) => format!("{f}set<{}>", canon_type(e)),
                C::Map(k, v) => format!("{f}map<{},{}>", canon_type(k), canon_type(v)),
                _ => "collection?".into(),
            }
        }
        T::Vector { typ, dimensions } => format!("vector<{},{}>", canon_type(typ), dimensions),
        T::UserDefinedType { frozen, definition } => {
            let f = if *frozen { "frozen:" } else { "" };
            let fields: Vec<String> = definition.field_types.iter().map(|(n, t)| format!("{}:{}", sm::q(n), canon_type(t))).collect();
            format!("{f}udt({}.{}){{{}}}", sm::q(&definition.keyspace), sm::q(&definition.name), fields.join(","))
        }
        T::Tuple(ts) => format!("tuple<{}>", ts.iter().map(canon_type).collect::<Vec<_>>().join(",")),
        _ => "type?".into(),
    }
}

fn col_line(c: &dres::ColumnSpec<'_>) -> String {
    sm::col(c.table_spec().ks_name(), c.table_spec().table_name(), c.name(), &canon_type(c.typ()))
}

pub fn canon_cql(v: &CqlValue) -> String {
    match v {
        CqlValue::Ascii(s) | CqlValue::Text(s) => sm::v_text(s),
        CqlValue::Boolean(b) => sm::v_bool(*b),
        CqlValue::Blob(b) => sm::v_blob(b),
        CqlValue::Counter(c) => sm::v_int(c.0),
        CqlValue::Date(d) => sm::v_int(d.0 as i64),
        CqlValue::Double(d) => sm::v_f64(d.to_bits()),
        CqlValue::Float(f) => sm::v_f32(f.to_bits()),
        CqlValue::Empty => sm::V_EMPTY.into(),
        CqlValue::Int(i) => sm::v_int(*i as i64),
        CqlValue::BigInt(i) => sm::v_int(*i),
        CqlValue::Timestamp(t) => sm::v_int(t.0),
        CqlValue::Inet(i) => sm::v_inet(i),
        CqlValue::List(l) => sm::v_list(l.iter().map(canon_cql).collect()),
        CqlValue::Set(l) => sm::v_set(l.iter().map(canon_cql).collect()),
        CqlValue::Map(m) => sm::v_map(m.iter().map(|(k, v)| (canon_cql(k), canon_cql(v))).collect()),
        CqlValue::UserDefinedType { fields, .. } => {
            sm::v_udt(fields.iter().map(|(n, v)| (n.clone(), v.as_ref().map(canon_cql).unwrap_or_else(|| sm::V_NULL.into()))).collect())
        }
        CqlValue::SmallInt(i) => sm::v_int(*i as i64),
        CqlValue::TinyInt(i) => sm::v_int(*i as i64),
        CqlValue::Time(t) => sm::v_int(t.0),
        CqlValue::Timeuuid(u) => sm::v_uuid(u.as_bytes()),
        CqlValue::Uuid(u) => sm::v_uuid(u.as_bytes()),
        CqlValue::Tuple(t) => sm::v_tuple(t.iter().map(|v| v.as_ref().map(canon_cql).unwrap_or_else(|| sm::V_NULL.into())).collect()),
        // decimal / varint / duration / vector: value semantics belong to C01; only "decoded to something" is observed here
        _ => sm::V_OPAQUE.into(),
    }
}

fn opt<T>(v: &Option<T>, f: impl Fn(&T) -> String) -> String {
    v.as_ref().map(f).unwrap_or_else(|| sm::V_NULL.into())
}

#[derive(scylla::DeserializeValue)]
struct UdtAB {
    a: Option<i32>,
    b: Option<String>,
}

/// derived targets with the attributes that relax the type check: hostile UDT definitions (repeated, missing,
/// excess, reordered field names) must still end in a value or an error
#[derive(scylla::DeserializeValue)]
struct UdtLoose {
    a: Option<i32>,
    #[scylla(allow_missing)]
    b: Option<String>,
}

#[derive(scylla::DeserializeValue)]
#[scylla(flavor = "enforce_order")]
struct UdtOrdered {
    #[scylla(allow_missing)]
    a: Option<i32>,
    #[scylla(allow_missing)]
    b: Option<String>,
}

#[derive(scylla::DeserializeRow)]
struct RowAB {
    a: i32,
    b: String,
}

/// Lazy collection targets (`VectorIterator`, `ListlikeIterator`, `MapIterator`): every way of stepping
/// through one - `next`, `nth(k)` for k up to and past the announced length, `step_by`, `last` - must end in
/// items or errors, and never in more items than the iterator announced (an iterator whose length
/// wrapped round does not terminate). Rendered as a count only: never compared, only run.
fn walk<I, T, E>(it: I) -> Result<String, String>
where
    I: Iterator<Item = Result<T, E>> + ExactSizeIterator + Clone,
{
    // the whole walk costs about a thousand steps; only the first rows of a response get it
    thread_local! { static WALKS: std::cell::Cell<u32> = const { std::cell::Cell::new(0) }; }
    let nth_walk = WALKS.with(|w| {
        w.set(w.get().wrapping_add(1));
        w.get()
    });
    let n0 = it.size_hint().0;
    let lim = if nth_walk % 64 < 6 { n0.min(4) } else { 0 };
    let drain_cap = n0.saturating_add(2).min(48);
    let drain = |mut c: I, what: &str| {
        let mut steps = 0usize;
        while c.next().is_some() {
            steps += 1;
            if steps >= drain_cap {
                break;
            }
        }
        if n0 < 40 && (steps > n0 || c.size_hint().0 > n0) {
            panic!("lazy collection iterator announced {n0} items, after {what} it yielded {steps} more and announces {}", c.size_hint().0);
        }
    };
    for k in 0..=(if lim == 0 && nth_walk % 64 >= 6 { 0 } else { lim + 1 }) {
        let mut c = it.clone();
        let _ = c.nth(k);
        drain(c, "nth(k)");
        // the same from the middle
        let mut c = it.clone();
        let _ = c.next();
        let _ = c.nth(k);
        drain(c, "next + nth(k)");
    }
    // (step_by drives nth(step - 1), which walks element by element where there is no fast path: small lengths only)
    for step in if n0 < 40 { vec![2usize, n0.max(1), n0 + 1] } else { vec![2usize] } {
        let mut taken = 0usize;
        for _ in it.clone().step_by(step).take(drain_cap) {
            taken += 1;
        }
        if n0 < 40 && taken > n0 {
            panic!("lazy collection iterator announced {n0} items, step_by({step}) yielded {taken}");
        }
    }
    let mut ok = 0usize;
    for x in it.take(drain_cap) {
        if x.is_err() {
            return Err("element".into());
        }
        ok += 1;
    }
    Ok(sm::row(vec![sm::v_int(ok as i64)]))
}

fn run_target<'f, 'm, R>(
    name: &'static str,
    rows: &'f DeserializedMetadataAndRawRows,
    cap: u64,
    keep_text: bool,
    render: impl Fn(R) -> Result<String, String>,
) -> TargetOut
where
    'f: 'm,
    R: scylla_cql::deserialize::row::DeserializeRow<'f, 'm>,
{
    stage_target(name);
    let mut out = TargetOut { name, typecheck: false, ok_rows: 0, err: false, capped: false, rows_hash: 0, rows_text: String::new() };
    let it = match rows.rows_iter::<R>() {
        Ok(it) => it,
        Err(_) => return out,
    };
    out.typecheck = true;
    let mut h = sm::Hasher::new();
    for r in it {
        match r.map_err(|e| e.to_string()).and_then(&render) {
            Ok(line) => {
                out.ok_rows += 1;
                h.line(&line);
                if keep_text {
                    out.rows_text.push_str(&line);
                    out.rows_text.push('\n');
                }
                if out.ok_rows > cap {
                    out.capped = true;
                    break;
                }
            }
            Err(_) => {
                out.err = true;
                break;
            }
        }
    }
    out.rows_hash = h.finish();
    out
}

fn run_targets(rows: &DeserializedMetadataAndRawRows, cap: u64, keep_text: bool, out: &mut Vec<TargetOut>) {
    // a Vec target accepts lists and sets alike; sets are compared as sets
    let first_is_set = matches!(
        rows.metadata().col_specs().first().map(|c| c.typ()),
        Some(dres::ColumnType::Collection { typ: dres::CollectionType::Set(_), .. })
    );
    let seq = move |v: Vec<String>| if first_is_set { sm::v_set(v) } else { sm::v_list(v) };
    let inner_is_set = match rows.metadata().col_specs().first().map(|c| c.typ()) {
        Some(dres::ColumnType::Collection { typ: dres::CollectionType::Set(e), .. }) | Some(dres::ColumnType::Collection { typ: dres::CollectionType::List(e), .. }) => {
            matches!(&**e, dres::ColumnType::Collection { typ: dres::CollectionType::Set(_), .. })
        }
        _ => false,
    };
    let seq_inner = move |v: Vec<String>| if inner_is_set { sm::v_set(v) } else { sm::v_list(v) };
    out.push(run_target::<Row>("Row", rows, cap, keep_text, |r| Ok(sm::row(r.columns.iter().map(|c| opt(c, canon_cql)).collect()))));
    out.push(run_target::<ColumnIterator>("Raw", rows, cap, keep_text, |it| {
        let mut cells = Vec::new();
        for c in it {
            let c = c.map_err(|e| e.to_string())?;
            cells.push(match c.slice {
                None => sm::V_NULL.to_string(),
                Some(s) => sm::v_blob(s.as_slice()),
            });
        }
        Ok(sm::row(cells))
    }));
    out.push(run_target::<(i32, String)>("(i32,String)", rows, cap, false, |(a, b)| Ok(sm::row(vec![sm::v_int(a as i64), sm::v_text(&b)]))));
    out.push(run_target::<(Option<i32>, Option<&str>)>("(Option<i32>,Option<&str>)", rows, cap, false, |(a, b)| {
        Ok(sm::row(vec![opt(&a, |a| sm::v_int(*a as i64)), opt(&b, |b| sm::v_text(b))]))
    }));
    out.push(run_target::<RowAB>("RowAB", rows, cap, false, |r| Ok(sm::row(vec![sm::v_int(r.a as i64), sm::v_text(&r.b)]))));
    out.push(run_target::<(Option<Vec<i32>>,)>("(Option<Vec<i32>>,)", rows, cap, false, |(a,)| {
        Ok(sm::row(vec![opt(&a, |l| seq(l.iter().map(|x| sm::v_int(*x as i64)).collect()))]))
    }));
    out.push(run_target::<(Option<Vec<Option<i32>>>,)>("(Option<Vec<Option<i32>>>,)", rows, cap, false, |(a,)| {
        Ok(sm::row(vec![opt(&a, |l| seq(l.iter().map(|x| opt(x, |x| sm::v_int(*x as i64))).collect()))]))
    }));
    out.push(run_target::<(Option<Vec<Vec<i32>>>,)>("(Option<Vec<Vec<i32>>>,)", rows, cap, false, |(a,)| {
        Ok(sm::row(vec![opt(&a, |l| {
            seq(l.iter().map(|x| seq_inner(x.iter().map(|y| sm::v_int(*y as i64)).collect())).collect())
        })]))
    }));
    out.push(run_target::<(CqlValue,)>("(CqlValue,)", rows, cap, false, |(a,)| Ok(sm::row(vec![canon_cql(&a)]))));
    out.push(run_target::<(Option<CqlValue>,)>("(Option<CqlValue>,)", rows, cap, false, |(a,)| Ok(sm::row(vec![opt(&a, canon_cql)]))));
    out.push(run_target::<(Option<HashMap<String, i32>>, Option<BTreeSet<String>>, Option<(i32, String)>)>(
        "(map,set,tuple)",
        rows,
        cap,
        false,
        |(m, s, t)| {
            Ok(sm::row(vec![
                opt(&m, |m| sm::v_map(m.iter().map(|(k, v)| (sm::v_text(k), sm::v_int(*v as i64))).collect())),
                opt(&s, |s| sm::v_set(s.iter().map(|x| sm::v_text(x)).collect())),
                opt(&t, |(a, b)| sm::v_tuple(vec![sm::v_int(*a as i64), sm::v_text(b)])),
            ]))
        },
    ));
    out.push(run_target::<(i64, bool, Vec<u8>, uuid::Uuid, IpAddr, f64)>("(i64,bool,blob,uuid,inet,f64)", rows, cap, false, |(a, b, c, d, e, f)| {
        Ok(sm::row(vec![sm::v_int(a), sm::v_bool(b), sm::v_blob(&c), sm::v_uuid(d.as_bytes()), sm::v_inet(&e), sm::v_f64(f.to_bits())]))
    }));
    out.push(run_target::<(Option<UdtAB>,)>("(Option<UdtAB>,)", rows, cap, false, |(u,)| {
        Ok(sm::row(vec![opt(&u, |u| {
            sm::v_udt(vec![("a".into(), opt(&u.a, |a| sm::v_int(*a as i64))), ("b".into(), opt(&u.b, |b| sm::v_text(b)))])
        })]))
    }));
    out.push(run_target::<(Option<Vec<f32>>,)>("(Option<Vec<f32>>,)", rows, cap, false, |(a,)| {
        Ok(sm::row(vec![opt(&a, |l| seq(l.iter().map(|x| sm::v_f32(x.to_bits())).collect()))]))
    }));
    out.push(run_target::<(Option<UdtLoose>,)>("(Option<UdtLoose>,)", rows, cap, false, |(u,)| {
        Ok(sm::row(vec![opt(&u, |u| sm::v_udt(vec![("a".into(), opt(&u.a, |a| sm::v_int(*a as i64))), ("b".into(), opt(&u.b, |b| sm::v_text(b)))]))]))
    }));
    out.push(run_target::<(Option<UdtOrdered>,)>("(Option<UdtOrdered>,)", rows, cap, false, |(u,)| {
        Ok(sm::row(vec![opt(&u, |u| sm::v_udt(vec![("a".into(), opt(&u.a, |a| sm::v_int(*a as i64))), ("b".into(), opt(&u.b, |b| sm::v_text(b)))]))]))
    }));
    out.push(run_target::<(Option<VectorIterator<f32>>,)>("Walk(VectorIterator<f32>)", rows, cap, false, |(a,)| a.map(walk).unwrap_or(Ok(sm::row(vec![sm::V_NULL.into()])))));
    out.push(run_target::<(Option<VectorIterator<String>>,)>("Walk(VectorIterator<String>)", rows, cap, false, |(a,)| a.map(walk).unwrap_or(Ok(sm::row(vec![sm::V_NULL.into()])))));
    out.push(run_target::<(Option<ListlikeIterator<i32>>,)>("Walk(ListlikeIterator<i32>)", rows, cap, false, |(a,)| a.map(walk).unwrap_or(Ok(sm::row(vec![sm::V_NULL.into()])))));
    out.push(run_target::<(Option<MapIterator<String, i32>>,)>("Walk(MapIterator<String,i32>)", rows, cap, false, |(a,)| a.map(walk).unwrap_or(Ok(sm::row(vec![sm::V_NULL.into()])))));
}

fn result_metadata_lines(m: &ResultMetadata<'_>, s: &mut String) {
    sm::push(s, &sm::meta_id(m.id()));
    sm::push(s, &sm::col_count(m.col_count() as u64));
    for c in m.col_specs() {
        sm::push(s, &col_line(c));
    }
}

/// The pipeline under test. Everything here is the driver's public API.
pub fn pipeline(rec: &Rec, keep_text: bool) -> PipeOut {
    let mut out = PipeOut::default();
    let feats = features(rec.feat);
    let s = &mut String::new();
    macro_rules! fail {
        ($stage:expr, $e:expr) => {{
            out.err_stage = $stage.to_string();
            out.err_text = fw::first_line(&$e.to_string());
            out.summary = std::mem::take(s);
            return out;
        }};
    }

    set_kind("frame");
    if rec.feat >= 0xE0 {
        // sentinel canaries: deliberate crashes in HARNESS code proving that the parent sees and classifies each way of dying
        stage("canary");
        match rec.feat {
            0xEC => {
                let v: Vec<u64> = Vec::with_capacity(1 << 30);
                std::hint::black_box(&v);
            }
            0xED => {
                fn rec_(n: u64) -> u64 {
                    let a = [n; 64];
                    if n == u64::MAX { 0 } else { std::hint::black_box(rec_(n + 1)) + std::hint::black_box(a)[3] }
                }
                std::hint::black_box(rec_(0));
            }
            0xEE => std::process::abort(),
            0xEF => panic!("canary panic"),
            0xEB => loop {
                std::hint::black_box(0u8);
            },
            0xEA => {
                // 24 MiB for a tiny input: over budget, nobody dies
                let v: Vec<u8> = Vec::with_capacity(24 << 20);
                std::hint::black_box(&v);
            }
            _ => {}
        }
        return out;
    }
    stage("frame-header");
    let mut rd = ChunkReader { data: &rec.frame, pos: 0, split: rec.split, reads: 0, pend: false };
    let (params, opcode, body) = match futures::executor::block_on(dframe::read_response_frame(&mut rd)) {
        Ok(x) => x,
        Err(e) => fail!("frame-header", e),
    };
    sm::push(s, &sm::header(params.version, params.flags, params.stream, opcode as u8, body.len() as u64));

    set_kind(match opcode as u8 {
        0x00 => "error",
        0x02 => "ready",
        0x03 => "authenticate",
        0x06 => "supported",
        0x08 => "result",
        0x0C => "event",
        0x0E => "auth-challenge",
        0x10 => "auth-success",
        _ => "opcode?",
    });
    stage("body-ext");
    let comp = match rec.comp {
        1 => Some(Compression::Lz4),
        2 => Some(Compression::Snappy),
        _ => None,
    };
    let ext = match dframe::parse_response_body_extensions(params.flags, comp, body) {
        Ok(x) => x,
        Err(e) => fail!("body-ext", e),
    };
    sm::push(s, &sm::trace_id(ext.trace_id.as_ref().map(|u| u.as_bytes())));
    sm::push(s, &sm::warnings(&ext.warnings));
    sm::push(
        s,
        &sm::payload(ext.custom_payload.as_ref().map(|m| m.iter().map(|(k, v)| (k.clone(), v.to_vec())).collect())),
    );

    if let Some(p) = &ext.custom_payload {
        if p.contains_key("tablets-routing-v1") {
            stage("tablet-payload");
            let table = format!("t{}", rec.id);
            let mut g = tablet_probe().lock().unwrap_or_else(|e| e.into_inner());
            match g.probe.add_tablet_from_payload("ks", &table, p) {
                Ok(true) => {
                    let d = g.probe.tablet_ranges("ks", &table).unwrap_or_default();
                    for t in d {
                        sm::push(s, &sm::tablet(t.first_token, t.last_token, &t.replicas.iter().map(|(u, sh)| (*u.as_bytes(), *sh as i64)).collect::<Vec<_>>()));
                    }
                }
                Ok(false) => sm::push(s, "tablet none"),
                Err(_) => sm::push(s, "tablet refused"),
            }
        }
    }

    if opcode as u8 == 0x08 {
        set_kind(match ext.body.get(..4).map(|b| i32::from_be_bytes(b.try_into().unwrap())) {
            Some(1) => "result-void",
            Some(2) => "result-rows",
            Some(3) => "result-set-keyspace",
            Some(4) => "result-prepared",
            Some(5) => "result-schema-change",
            _ => "result",
        });
    }
    stage("response");
    let cached = if rec.cached == 1 { Some(cached_metadata()) } else { None };
    let resp = match ResponseV2::deserialize(&feats, opcode, ext.body, cached.as_ref()) {
        Ok(r) => r,
        Err(e) => fail!("response", e),
    };
    match resp {
        ResponseV2::Ready => sm::push(s, "ready"),
        ResponseV2::Error(e) => sm::push(s, &error_line(&e)),
        ResponseV2::Authenticate(a) => sm::push(s, &sm::authenticate(&a.authenticator_name)),
        ResponseV2::AuthSuccess(a) => sm::push(s, &sm::auth_bytes("auth_success", a.success_message.as_deref())),
        ResponseV2::AuthChallenge(a) => sm::push(s, &sm::auth_bytes("auth_challenge", a.authenticate_message.as_deref())),
        ResponseV2::Supported(sup) => sm::push(s, &sm::supported(sup.options.iter().map(|(k, v)| (k.clone(), v.clone())).collect())),
        ResponseV2::Event(ev) => match ev {
            EventV2::TopologyChange(TopologyChangeEvent::NewNode(a)) => sm::push(s, &sm::node_event("TOPOLOGY_CHANGE", "NEW_NODE", &a.ip(), a.port() as i64)),
            EventV2::TopologyChange(TopologyChangeEvent::RemovedNode(a)) => {
                sm::push(s, &sm::node_event("TOPOLOGY_CHANGE", "REMOVED_NODE", &a.ip(), a.port() as i64))
            }
            EventV2::StatusChange(StatusChangeEvent::Up(a)) => sm::push(s, &sm::node_event("STATUS_CHANGE", "UP", &a.ip(), a.port() as i64)),
            EventV2::StatusChange(StatusChangeEvent::Down(a)) => sm::push(s, &sm::node_event("STATUS_CHANGE", "DOWN", &a.ip(), a.port() as i64)),
            EventV2::SchemaChange(e) => sm::push(s, &format!("event {}", schema_change_line(&e))),
            EventV2::ClientRoutesChange(ClientRoutesChangeEvent::UpdateNodes { connection_ids, host_ids }) => {
                sm::push(s, &sm::client_routes(&connection_ids, &host_ids.iter().map(|u| *u.as_bytes()).collect::<Vec<_>>()))
            }
            _ => sm::push(s, "event ?"),
        },
        ResponseV2::Result(r) => match r {
            dres::Result::Void => sm::push(s, "result void"),
            dres::Result::SetKeyspace(k) => sm::push(s, &sm::set_keyspace(&k.keyspace_name)),
            dres::Result::SchemaChange(sc) => sm::push(s, &format!("result {}", schema_change_line(&sc.event))),
            dres::Result::Prepared(p) => {
                sm::push(s, &sm::prepared_head(&p.id, p.prepared_metadata.flags, feats.prepared_flags_contain_lwt_mark(p.prepared_metadata.flags as u32)));
                sm::push(s, &sm::col_count(p.prepared_metadata.col_count as u64));
                sm::push(s, &sm::pk_indexes(&p.prepared_metadata.pk_indexes.iter().map(|k| (k.index, k.sequence)).collect::<Vec<_>>()));
                for c in &p.prepared_metadata.col_specs {
                    sm::push(s, &col_line(c));
                }
                sm::push(s, "result-metadata");
                result_metadata_lines(&p.result_metadata, s);
                stage("drop");
                drop(p);
            }
            dres::Result::Rows((raw, paging)) => {
                let ps = match &paging {
                    PagingStateResponse::HasMorePages { state } => Some(state.as_bytes_slice().map(|a| a.to_vec()).unwrap_or_default()),
                    PagingStateResponse::NoMorePages => None,
                };
                sm::push(s, &sm::rows_head(ps.as_deref()));
                stage("metadata");
                let rows = match raw.deserialize_metadata() {
                    Ok(r) => r,
                    Err(e) => fail!("metadata", e),
                };
                result_metadata_lines(rows.metadata(), s);
                sm::push(s, &sm::rows_count(rows.rows_count() as u64));
                out.nrows = Some(rows.rows_count() as u64);
                out.ncols = Some(rows.metadata().col_specs().len() as u64);
                // a row of >= 1 column consumes >= 4 bytes; more Ok rows than input bytes can only
                // come from a zero-column result, which is cut off here (noted, not asserted)
                let cap = rec.frame.len() as u64 + 16;
                run_targets(&rows, cap, keep_text, &mut out.targets);
                stage("drop");
                drop(rows);
            }
            #[allow(unreachable_patterns)]
            _ => sm::push(s, "result ?"),
        },
        #[allow(unreachable_patterns)]
        _ => sm::push(s, "response ?"),
    }
    stage("done");
    out.summary = std::mem::take(s);
    out
}

/// CPU time after which the watchdog gives up on a record. In batch children (limit below 1 s: a mere suspicion,
/// decided later by a confirming child) inputs that carry a type class string get a much lower threshold:
/// the known ways of not terminating all live in the class-string parser, and a class string parses in microseconds.
fn cpu_limit_for(rec: &Rec) -> Duration {
    let ms = CPU_LIMIT_MS.load(Relaxed);
    let base = if ms < 1000 && rec.frame.windows(5).any(|w| w == b"Type(") { ms.min(40) } else { ms };
    Duration::from_millis(base) + Duration::from_micros(2 * rec.frame.len() as u64)
}

fn thread_cpu(t: libc::pthread_t) -> Option<Duration> {
    unsafe {
        let mut cid: libc::clockid_t = 0;
        if libc::pthread_getcpuclockid(t, &mut cid) != 0 {
            return None;
        }
        let mut ts = libc::timespec { tv_sec: 0, tv_nsec: 0 };
        if libc::clock_gettime(cid, &mut ts) != 0 {
            return None;
        }
        Some(Duration::new(ts.tv_sec as u64, ts.tv_nsec as u32))
    }
}

pub fn verdict_json(rec: &Rec, res: Result<PipeOut, String>, st: &alloc::AllocStats, cpu: Duration, full: bool) -> Value {
    let mut j = json!({
        "pk": st.peak_live, "mx": st.max_single, "ob": st.over_budget, "rf": st.refused, "na": st.allocs,
        "cpu_us": cpu.as_micros() as u64,
    });
    if let Some(s) = &st.site {
        j["site"] = json!(s);
    }
    if st.over_budget || st.refused > 0 {
        let (sn, kn) = ctx_names(st.ctx);
        j["stage"] = json!(sn);
        j["kind"] = json!(kn);
        j["bt"] = json!(st.bt);
    }
    match res {
        Err(p) => {
            j["r"] = json!("panic");
            j["panic"] = json!(fw::first_line(&p));
            j["loc"] = json!(PANIC_LOC.lock().map(|s| s.clone()).unwrap_or_default());
            j["stage"] = json!(cur_stage());
            j["kind"] = json!(cur_kind());
        }
        Ok(o) => {
            j["r"] = json!(if o.err_stage.is_empty() { "ok" } else { "err" });
            if !o.err_stage.is_empty() {
                j["es"] = json!(o.err_stage);
                if full {
                    j["et"] = json!(o.err_text);
                }
            }
            j["h"] = json!(sm::hash_text(&o.summary).to_string());
            if full {
                j["sum"] = json!(o.summary);
            }
            if let Some(n) = o.nrows {
                j["nrows"] = json!(n);
                j["ncols"] = json!(o.ncols);
            }
            if !o.targets.is_empty() {
                j["t"] = Value::Array(
                    o.targets
                        .iter()
                        .map(|t| {
                            let mut x = json!([t.name, t.typecheck, t.ok_rows, t.err, t.capped, t.rows_hash.to_string()]);
                            if full && !t.rows_text.is_empty() {
                                x.as_array_mut().unwrap().push(json!(t.rows_text));
                            }
                            x
                        })
                        .collect(),
                );
            }
        }
    }
    let _ = rec;
    j
}

/// Entry of `verif-harness child c08 ...`.
pub fn child(args: &[String]) -> i32 {
    let trace = args.iter().any(|a| a == "--trace");
    let stack8 = args.iter().any(|a| a == "--stack8");
    let full = trace || args.iter().any(|a| a == "--full");
    TRACE.store(trace, Relaxed);
    if let Some(p) = args.iter().position(|a| a == "--cpu-limit-ms") {
        if let Some(v) = args.get(p + 1).and_then(|v| v.parse().ok()) {
            CPU_LIMIT_MS.store(v, Relaxed);
        }
    }
    std::panic::set_hook(Box::new(|info| {
        if let Some(l) = info.location() {
            if let Ok(mut s) = PANIC_LOC.lock() {
                *s = format!("{}:{}", l.file(), l.line());
            }
        }
    }));
    let mut input = Vec::new();
    if std::io::Read::read_to_end(&mut std::io::stdin().lock(), &mut input).is_err() {
        return 2;
    }
    let recs = Rec::decode_all(&input);
    drop(input);
    // things that must not be charged to a record
    let _ = cached_metadata();
    let _ = tablet_probe();
    for rec in recs {
        raw_stdout(&format!("B {}\n", rec.id));
        let rec = Arc::new(rec);
        let (tx, rx) = std::sync::mpsc::channel();
        let r2 = rec.clone();
        let h = std::thread::Builder::new()
            .name(if stack8 { "c08-m8m".into() } else { "c08-w2m".into() })
            .stack_size(if stack8 { 8 << 20 } else { 2 << 20 })
            .spawn(move || {
                if let Ok(mut s) = PANIC_LOC.lock() {
                    s.clear();
                }
                alloc::arm(budget(r2.frame.len()), HARD_LIMIT, trace);
                let res = fw::catch(|| pipeline(&r2, full));
                let st = alloc::disarm();
                let _ = tx.send((res, st));
            })
            .expect("spawn decode thread");
        use std::os::unix::thread::JoinHandleExt;
        let pt = h.as_pthread_t();
        let mut cpu = Duration::ZERO;
        let got = loop {
            match rx.recv_timeout(Duration::from_millis(20)) {
                Ok(x) => break Some(x),
                Err(std::sync::mpsc::RecvTimeoutError::Timeout) => {
                    cpu = thread_cpu(pt).unwrap_or(cpu);
                    if cpu > cpu_limit_for(&rec) {
                        break None;
                    }
                }
                Err(std::sync::mpsc::RecvTimeoutError::Disconnected) => break None,
            }
        };
        match got {
            Some((res, st)) => {
                cpu = thread_cpu(pt).unwrap_or(cpu);
                let _ = h.join();
                let j = verdict_json(&rec, res, &st, cpu, full);
                raw_stdout(&format!("E {} {}\n", rec.id, j));
            }
            None => {
                let st = alloc::peek();
                let j = json!({"r": "cpu", "cpu_us": cpu.as_micros() as u64, "stage": cur_stage(), "kind": cur_kind(), "pk": st.peak_live, "mx": st.max_single});
                raw_stdout(&format!("E {} {}\n", rec.id, j));
                // the decode thread cannot be stopped: leave, the parent restarts after this record
                unsafe { libc::_exit(3) };
            }
        }
    }
    0
}
