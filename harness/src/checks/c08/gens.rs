//! Generators for C08: well-formed cases (a), their field maps for the
//! field-aware mutations (c), deep-nesting / hostile-length frames, random bytes (d).

use super::child::{FEAT_LWT, FEAT_METADATA_ID, FEAT_RATE_LIMIT, FEAT_TABLETS, RATE_LIMIT_CODE};
use super::summary as sm;
use crate::fw::Rng;
use crate::wire::frame::{self, Compression, Envelope, Opcode};
use crate::wire::prim::Writer;
use crate::wire::response::*;
use std::collections::{BTreeMap, HashMap};
use std::net::{IpAddr, Ipv4Addr, Ipv6Addr};

pub enum CaseBody {
    Wire(Response),
    /// a body the `wire` structs cannot express, with the line the summary must contain
    Raw { opcode: u8, body: Vec<u8>, expect_line: String },
}

pub struct Case {
    pub name: String,
    /// response kind (only used for coverage classes; signatures use what the bytes say)
    pub kind: &'static str,
    pub body: CaseBody,
    pub env: Envelope,
    pub stream: i16,
    /// the feature set this case is well-formed under
    pub feat: u8,
    /// feature bits whose value does not change the meaning of this case
    pub feat_free: u8,
    pub cached: u8,
    /// custom type strings → (canonical type, equivalent type for value rendering)
    pub custom: HashMap<String, (String, Option<ColType>)>,
    /// targets (by name) that must pass type_check on this case
    pub must_typecheck: Vec<&'static str>,
    pub tablet_line: Option<String>,
    /// false: generated for robustness only (no round-trip claim)
    pub oracle: bool,
    /// byte patches applied to the encoded message body (offset, bytes): equivalent encodings the
    /// `wire` encoder does not produce (e.g. null as another negative length)
    pub patches: Vec<(usize, Vec<u8>)>,
}

impl Case {
    pub fn opcode(&self) -> u8 {
        match &self.body {
            CaseBody::Wire(r) => r.opcode(),
            CaseBody::Raw { opcode, .. } => *opcode,
        }
    }
    pub fn message_body(&self) -> Vec<u8> {
        let mut b = match &self.body {
            CaseBody::Wire(r) => r.encode_body(),
            CaseBody::Raw { body, .. } => body.clone(),
        };
        for (off, bytes) in &self.patches {
            b[*off..*off + bytes.len()].copy_from_slice(bytes);
        }
        b
    }
    pub fn envelope_len(&self) -> usize {
        let mut w = Writer::new();
        self.env.encode(&mut w);
        w.len()
    }
    pub fn frame(&self, comp: Option<Compression>) -> Vec<u8> {
        frame::response_frame(self.stream, self.opcode(), &self.env, &self.message_body(), comp)
    }
}

pub fn comp_of(c: u8) -> Option<Compression> {
    match c {
        1 => Some(Compression::Lz4),
        2 => Some(Compression::Snappy),
        _ => None,
    }
}

pub fn cached_columns() -> Vec<ColSpec> {
    vec![ColSpec::new("ks", "cached", "a", ColType::Int), ColSpec::new("ks", "cached", "b", ColType::Text)]
}

fn case(name: &str, kind: &'static str, resp: Response) -> Case {
    Case {
        name: name.into(),
        kind,
        body: CaseBody::Wire(resp),
        env: Envelope::default(),
        stream: 7,
        feat: 0,
        feat_free: 0xf,
        cached: 0,
        custom: HashMap::new(),
        must_typecheck: vec![],
        tablet_line: None,
        oracle: true,
        patches: vec![],
    }
}

/// a PREPARED case: its layout depends on whether the metadata-id extension was negotiated
fn case_nf(name: &str, kind: &'static str, resp: Response) -> Case {
    let mut c = case(name, kind, resp);
    c.feat_free = 0xf & !FEAT_METADATA_ID;
    c
}

// ---- value encoders (CQL v4 section 6), used to build well-formed cells ----
pub fn v_i32(v: i32) -> Option<Vec<u8>> {
    Some(v.to_be_bytes().to_vec())
}
pub fn v_i64(v: i64) -> Option<Vec<u8>> {
    Some(v.to_be_bytes().to_vec())
}
pub fn v_str(s: &str) -> Option<Vec<u8>> {
    Some(s.as_bytes().to_vec())
}
pub fn v_seq(items: &[Option<Vec<u8>>]) -> Option<Vec<u8>> {
    let mut w = Writer::new();
    w.int(items.len() as i32);
    for i in items {
        w.bytes_opt(i.as_deref());
    }
    Some(w.into_inner())
}
pub fn v_map(items: &[(Option<Vec<u8>>, Option<Vec<u8>>)]) -> Option<Vec<u8>> {
    let mut w = Writer::new();
    w.int(items.len() as i32);
    for (k, v) in items {
        w.bytes_opt(k.as_deref());
        w.bytes_opt(v.as_deref());
    }
    Some(w.into_inner())
}
/// tuple / UDT value: the fields' [bytes] one after another
pub fn v_fields(items: &[Option<Vec<u8>>]) -> Option<Vec<u8>> {
    let mut w = Writer::new();
    for i in items {
        w.bytes_opt(i.as_deref());
    }
    Some(w.into_inner())
}

/// Renders a type as the class string a server sends for option id 0x0000 (AbstractType names).
pub fn marshal(t: &ColType) -> String {
    const P: &str = "org.apache.cassandra.db.marshal.";
    let simple = |n: &str| format!("{P}{n}");
    match t {
        ColType::Ascii => simple("AsciiType"),
        ColType::BigInt => simple("LongType"),
        ColType::Blob => simple("BytesType"),
        ColType::Boolean => simple("BooleanType"),
        ColType::Counter => simple("CounterColumnType"),
        ColType::Decimal => simple("DecimalType"),
        ColType::Double => simple("DoubleType"),
        ColType::Float => simple("FloatType"),
        ColType::Int => simple("Int32Type"),
        ColType::Timestamp => simple("TimestampType"),
        ColType::Uuid => simple("UUIDType"),
        ColType::Text => simple("UTF8Type"),
        ColType::Varint => simple("IntegerType"),
        ColType::Timeuuid => simple("TimeUUIDType"),
        ColType::Inet => simple("InetAddressType"),
        ColType::Date => simple("SimpleDateType"),
        ColType::Time => simple("TimeType"),
        ColType::SmallInt => simple("ShortType"),
        ColType::TinyInt => simple("ByteType"),
        ColType::Duration => simple("DurationType"),
        ColType::List(e) => format!("{P}ListType({})", marshal(e)),
        ColType::Set(e) => format!("{P}SetType({})", marshal(e)),
        ColType::Map(k, v) => format!("{P}MapType({},{})", marshal(k), marshal(v)),
        ColType::Tuple(ts) => format!("{P}TupleType({})", ts.iter().map(marshal).collect::<Vec<_>>().join(",")),
        ColType::Udt { keyspace, name, fields } => format!(
            "{P}UserType({keyspace},{}{})",
            crate::fw::hex(name.as_bytes()),
            fields.iter().map(|(n, t)| format!(",{}:{}", crate::fw::hex(n.as_bytes()), marshal(t))).collect::<String>()
        ),
        ColType::Custom(s) => s.clone(),
        ColType::Raw(..) => "?".into(),
    }
}

fn udt_ab() -> ColType {
    ColType::Udt { keyspace: "ks".into(), name: "ab".into(), fields: vec![("a".into(), ColType::Int), ("b".into(), ColType::Text)] }
}

fn rows_case(name: &str, cols: Vec<ColSpec>, rows: Vec<Row>, global: bool, must: Vec<&'static str>) -> Case {
    let mut c = case(
        name,
        "result-rows",
        Response::Result(ResultBody::Rows {
            metadata: ResultMetadata { columns: cols, paging_state: None, no_metadata: false, global_spec: global, new_metadata_id: None },
            rows,
        }),
    );
    c.must_typecheck = must;
    c.must_typecheck.push("Row");
    c.must_typecheck.push("Raw");
    c
}

fn with_meta(mut c: Case, f: impl FnOnce(&mut ResultMetadata)) -> Case {
    if let CaseBody::Wire(Response::Result(ResultBody::Rows { metadata, .. })) = &mut c.body {
        f(metadata);
    }
    c
}

fn tablet_payload(first: i64, last: i64, replicas: &[([u8; 16], i32)]) -> Vec<u8> {
    // tuple<bigint, bigint, list<tuple<uuid, int>>> value
    let reps: Vec<Option<Vec<u8>>> = replicas.iter().map(|(u, s)| v_fields(&[Some(u.to_vec()), v_i32(*s)])).collect();
    v_fields(&[v_i64(first), v_i64(last), v_seq(&reps)]).unwrap()
}

/// The fixed family of well-formed responses: every response kind, every error
/// variant, every event, every metadata flag combination, a schema per typed target.
pub fn base_cases() -> Vec<Case> {
    let mut v: Vec<Case> = Vec::new();
    let ip4 = IpAddr::V4(Ipv4Addr::new(10, 1, 2, 3));
    let ip6 = IpAddr::V6(Ipv6Addr::new(0xfe80, 0, 0, 0, 1, 2, 3, 4));

    // --- simple kinds
    v.push(case("ready", "ready", Response::Ready));
    v.push(case("authenticate", "authenticate", Response::Authenticate("org.apache.cassandra.auth.PasswordAuthenticator".into())));
    v.push(case("auth-challenge/some", "auth-challenge", Response::AuthChallenge(Some(vec![1, 2, 3]))));
    v.push(case("auth-challenge/null", "auth-challenge", Response::AuthChallenge(None)));
    v.push(case("auth-success/some", "auth-success", Response::AuthSuccess(Some(vec![]))));
    v.push(case("auth-success/null", "auth-success", Response::AuthSuccess(None)));
    let mut sup = BTreeMap::new();
    sup.insert("CQL_VERSION".to_string(), vec!["3.0.0".to_string(), "3.4.5".to_string()]);
    sup.insert("COMPRESSION".to_string(), vec!["lz4".to_string(), "snappy".to_string()]);
    sup.insert("SCYLLA_SHARD".to_string(), vec!["3".to_string()]);
    sup.insert("SCYLLA_RATE_LIMIT_ERROR".to_string(), vec!["ERROR_CODE=17185".to_string()]);
    sup.insert("EMPTY".to_string(), vec![]);
    v.push(case("supported", "supported", Response::Supported(sup)));
    v.push(case("supported/empty", "supported", Response::Supported(BTreeMap::new())));

    // --- errors: every variant of the spec + the rate-limit extension
    let errs: Vec<(&str, i32, ErrorExtra)> = vec![
        ("server", errcode::SERVER_ERROR, ErrorExtra::None),
        ("protocol", errcode::PROTOCOL_ERROR, ErrorExtra::None),
        ("auth", errcode::AUTH_ERROR, ErrorExtra::None),
        ("unavailable", errcode::UNAVAILABLE, ErrorExtra::Unavailable { cl: 4, required: 3, alive: 1 }),
        ("overloaded", errcode::OVERLOADED, ErrorExtra::None),
        ("bootstrapping", errcode::IS_BOOTSTRAPPING, ErrorExtra::None),
        ("truncate", errcode::TRUNCATE_ERROR, ErrorExtra::None),
        ("write-timeout", errcode::WRITE_TIMEOUT, ErrorExtra::WriteTimeout { cl: 6, received: 1, blockfor: 2, write_type: "BATCH_LOG".into() }),
        ("write-timeout/other", errcode::WRITE_TIMEOUT, ErrorExtra::WriteTimeout { cl: 1, received: 0, blockfor: 1, write_type: "SOMETHING_NEW".into() }),
        ("read-timeout", errcode::READ_TIMEOUT, ErrorExtra::ReadTimeout { cl: 10, received: 1, blockfor: 2, data_present: 1 }),
        ("read-failure", errcode::READ_FAILURE, ErrorExtra::ReadFailure { cl: 5, received: 1, blockfor: 3, numfailures: 2, data_present: 0 }),
        (
            "function-failure",
            errcode::FUNCTION_FAILURE,
            ErrorExtra::FunctionFailure { keyspace: "ks".into(), function: "f".into(), arg_types: vec!["int".into(), "text".into()] },
        ),
        ("write-failure", errcode::WRITE_FAILURE, ErrorExtra::WriteFailure { cl: 8, received: 0, blockfor: 2, numfailures: 1, write_type: "CAS".into() }),
        ("syntax", errcode::SYNTAX_ERROR, ErrorExtra::None),
        ("unauthorized", errcode::UNAUTHORIZED, ErrorExtra::None),
        ("invalid", errcode::INVALID, ErrorExtra::None),
        ("config", errcode::CONFIG_ERROR, ErrorExtra::None),
        ("already-exists", errcode::ALREADY_EXISTS, ErrorExtra::AlreadyExists { keyspace: "ks".into(), table: "t".into() }),
        ("unprepared", errcode::UNPREPARED, ErrorExtra::Unprepared { id: vec![0xde, 0xad, 0xbe, 0xef] }),
        ("unknown-code", 0x7777, ErrorExtra::None),
    ];
    for (n, code, extra) in errs {
        v.push(case(&format!("error/{n}"), "error", Response::Error(ErrorBody { code, message: format!("msg {n} ż"), extra })));
    }
    for (feat, n) in [(FEAT_RATE_LIMIT, "negotiated"), (0, "not-negotiated")] {
        let mut c = case(
            &format!("error/rate-limit/{n}"),
            "error",
            Response::Error(ErrorBody { code: RATE_LIMIT_CODE, message: "rate".into(), extra: ErrorExtra::RateLimit { op_type: 1, rejected_by_coordinator: 1 } }),
        );
        c.feat = feat;
        c.feat_free = 0xf & !FEAT_RATE_LIMIT;
        v.push(c);
    }

    // --- events
    v.push(case("event/topology/new", "event", Response::Event(Event::TopologyChange { change: "NEW_NODE".into(), addr: ip4, port: 9042 })));
    v.push(case("event/topology/removed", "event", Response::Event(Event::TopologyChange { change: "REMOVED_NODE".into(), addr: ip6, port: 19042 })));
    v.push(case("event/status/up", "event", Response::Event(Event::StatusChange { change: "UP".into(), addr: ip4, port: 65535 })));
    v.push(case("event/status/down", "event", Response::Event(Event::StatusChange { change: "DOWN".into(), addr: ip6, port: 0 })));
    let scs = [
        ("keyspace", SchemaChange { change_type: "CREATED".into(), target: "KEYSPACE".into(), keyspace: "ks".into(), name: None, args: None }),
        ("table", SchemaChange { change_type: "UPDATED".into(), target: "TABLE".into(), keyspace: "ks".into(), name: Some("t".into()), args: None }),
        ("type", SchemaChange { change_type: "DROPPED".into(), target: "TYPE".into(), keyspace: "ks".into(), name: Some("ab".into()), args: None }),
        (
            "function",
            SchemaChange {
                change_type: "CREATED".into(),
                target: "FUNCTION".into(),
                keyspace: "ks".into(),
                name: Some("f".into()),
                args: Some(vec!["int".into(), "map<text, int>".into()]),
            },
        ),
        ("aggregate", SchemaChange { change_type: "WHATEVER".into(), target: "AGGREGATE".into(), keyspace: "ks".into(), name: Some("agg".into()), args: Some(vec![]) }),
    ];
    for (n, sc) in &scs {
        let mut sc2 = sc.clone();
        if sc2.change_type == "WHATEVER" {
            // an unknown change type is accepted and reported as INVALID by the driver's enum
            sc2.change_type = "INVALID".into();
        }
        let mk = |body: Response, kind: &'static str, name: String, sc_expect: &SchemaChange| {
            let mut c = case(&name, kind, body);
            if sc.change_type == "WHATEVER" {
                // expectation uses the reported form; bytes carry the unknown word
                let line = sm::schema_change(&sc_expect.change_type, &sc_expect.target, &sc_expect.keyspace, sc_expect.name.as_ref(), sc_expect.args.as_ref());
                let (opcode, prefix) = if kind == "event" { (Opcode::Event as u8, "event") } else { (Opcode::Result as u8, "result") };
                let body = match &c.body {
                    CaseBody::Wire(r) => r.encode_body(),
                    _ => unreachable!(),
                };
                c.body = CaseBody::Raw { opcode, body, expect_line: format!("{prefix} {line}") };
            }
            c
        };
        v.push(mk(Response::Event(Event::SchemaChange(sc.clone())), "event", format!("event/schema/{n}"), &sc2));
        v.push(mk(Response::Result(ResultBody::SchemaChange(sc.clone())), "result-schema-change", format!("result/schema-change/{n}"), &sc2));
    }
    {
        // CLIENT_ROUTES_CHANGE (ScyllaDB extension): <string change> <string list connection ids> <string list host ids>
        let hosts = [[0x11u8; 16], [0xabu8; 16]];
        let conn = vec!["c1".to_string(), "c2".to_string()];
        let mut w = Writer::new();
        w.string("CLIENT_ROUTES_CHANGE");
        w.string("UPDATE_NODES");
        w.string_list(&conn);
        let host_strs: Vec<String> = hosts
            .iter()
            .map(|h| {
                let x = crate::fw::hex(h);
                format!("{}-{}-{}-{}-{}", &x[0..8], &x[8..12], &x[12..16], &x[16..20], &x[20..32])
            })
            .collect();
        w.string_list(&host_strs);
        let mut c = case("event/client-routes", "event", Response::Ready);
        c.body = CaseBody::Raw { opcode: Opcode::Event as u8, body: w.into_inner(), expect_line: sm::client_routes(&conn, &hosts) };
        v.push(c);
    }

    // --- results
    v.push(case("result/void", "result-void", Response::Result(ResultBody::Void)));
    v.push(case("result/set-keyspace", "result-set-keyspace", Response::Result(ResultBody::SetKeyspace("my_ks".into()))));

    let cols_it = vec![ColSpec::new("ks", "t", "a", ColType::Int), ColSpec::new("ks", "t", "b", ColType::Text)];
    let rows_it: Vec<Row> = vec![vec![v_i32(5), v_str("héllo")], vec![v_i32(-1), v_str("")], vec![v_i32(i32::MIN), v_str("x")]];
    let must_it = vec!["(i32,String)", "(Option<i32>,Option<&str>)", "RowAB"];
    v.push(rows_case("rows/int-text/global", cols_it.clone(), rows_it.clone(), true, must_it.clone()));
    v.push(rows_case("rows/int-text/per-column-spec", cols_it.clone(), rows_it.clone(), false, must_it.clone()));
    v.push(rows_case("rows/int-text/empty", cols_it.clone(), vec![], true, must_it.clone()));
    v.push(with_meta(rows_case("rows/int-text/paging", cols_it.clone(), rows_it.clone(), true, must_it.clone()), |m| {
        m.paging_state = Some(vec![9, 8, 7, 0, 255])
    }));
    v.push(with_meta(rows_case("rows/int-text/paging-empty-state", cols_it.clone(), rows_it.clone(), false, must_it.clone()), |m| {
        m.paging_state = Some(vec![])
    }));
    {
        let mut c = with_meta(rows_case("rows/int-text/new-metadata-id", cols_it.clone(), rows_it.clone(), true, must_it.clone()), |m| {
            m.new_metadata_id = Some(vec![0xaa; 16])
        });
        c.feat = FEAT_METADATA_ID;
        c.feat_free = 0xf & !FEAT_METADATA_ID;
        v.push(c);
    }
    {
        // NO_METADATA: columns come from the prepared statement's cached metadata
        let mut c = with_meta(
            rows_case("rows/no-metadata/cached", cached_columns(), vec![vec![v_i32(1), v_str("one")], vec![None, None]], true, vec!["(Option<i32>,Option<&str>)"]),
            |m| {
                m.no_metadata = true;
                m.paging_state = Some(vec![1])
            },
        );
        c.cached = 1;
        v.push(c);
        // cached metadata present but the server sent metadata anyway: the sent one wins
        let mut c = rows_case("rows/int-text/cached-but-sent", cols_it.clone(), rows_it.clone(), true, must_it.clone());
        c.cached = 1;
        v.push(c);
    }
    // nulls in typed-optional targets
    v.push(rows_case(
        "rows/int-text/nulls",
        cols_it.clone(),
        vec![vec![None, None], vec![v_i32(7), None], vec![None, v_str("z")]],
        true,
        vec!["(Option<i32>,Option<&str>)"],
    ));
    {
        // [bytes] with ANY negative length is null (spec: "if n < 0 ... the value represented is null")
        let mut c = rows_case(
            "rows/int-text/nulls-as-other-negative-lengths",
            cols_it.clone(),
            vec![vec![None, None], vec![v_i32(7), None]],
            true,
            vec!["(Option<i32>,Option<&str>)"],
        );
        if let CaseBody::Wire(r) = &c.body {
            let (fields, _) = field_map(r);
            let cells: Vec<usize> = fields.iter().filter(|f| f.name.starts_with("cell")).map(|f| f.off).collect();
            // cells 0, 1 and 3 are null
            c.patches.push((cells[0], (-2i32).to_be_bytes().to_vec()));
            c.patches.push((cells[1], i32::MIN.to_be_bytes().to_vec()));
            c.patches.push((cells[3], (-65536i32).to_be_bytes().to_vec()));
        }
        v.push(c);
        // AUTH_SUCCESS token: same rule
        let mut c = case("auth-success/null-as-minus-7", "auth-success", Response::AuthSuccess(None));
        c.patches.push((0, (-7i32).to_be_bytes().to_vec()));
        v.push(c);
    }
    // list<int>
    v.push(rows_case(
        "rows/list-int",
        vec![ColSpec::new("ks", "t", "l", ColType::List(Box::new(ColType::Int)))],
        vec![vec![v_seq(&[v_i32(1), v_i32(2), v_i32(3)])], vec![None], vec![v_seq(&[])]],
        true,
        vec!["(Option<Vec<i32>>,)", "(Option<Vec<Option<i32>>>,)", "(Option<CqlValue>,)"],
    ));
    v.push(rows_case(
        "rows/list-list-int",
        vec![ColSpec::new("ks", "t", "ll", ColType::List(Box::new(ColType::List(Box::new(ColType::Int)))))],
        vec![vec![v_seq(&[v_seq(&[v_i32(1)]), v_seq(&[]), v_seq(&[v_i32(2), v_i32(3)])])], vec![None]],
        false,
        vec!["(Option<Vec<Vec<i32>>>,)", "(Option<CqlValue>,)"],
    ));
    // map<text,int>, set<text>, tuple<int,text>
    v.push(rows_case(
        "rows/map-set-tuple",
        vec![
            ColSpec::new("ks", "t", "m", ColType::Map(Box::new(ColType::Text), Box::new(ColType::Int))),
            ColSpec::new("ks", "t", "s", ColType::Set(Box::new(ColType::Text))),
            ColSpec::new("ks", "t", "tp", ColType::Tuple(vec![ColType::Int, ColType::Text])),
        ],
        vec![
            vec![v_map(&[(v_str("k1"), v_i32(1)), (v_str("k2"), v_i32(2))]), v_seq(&[v_str("a"), v_str("b")]), v_fields(&[v_i32(4), v_str("four")])],
            vec![None, None, None],
            vec![v_map(&[]), v_seq(&[]), v_fields(&[v_i32(0), v_str("")])],
        ],
        true,
        vec!["(map,set,tuple)"],
    ));
    // scalars
    v.push(rows_case(
        "rows/scalars",
        vec![
            ColSpec::new("ks", "t", "bi", ColType::BigInt),
            ColSpec::new("ks", "t", "bo", ColType::Boolean),
            ColSpec::new("ks", "t", "bl", ColType::Blob),
            ColSpec::new("ks", "t", "u", ColType::Uuid),
            ColSpec::new("ks", "t", "ip", ColType::Inet),
            ColSpec::new("ks", "t", "d", ColType::Double),
        ],
        vec![
            vec![v_i64(i64::MIN), Some(vec![1]), Some(vec![0, 1, 2]), Some(vec![0x42; 16]), Some(vec![127, 0, 0, 1]), Some(1.5f64.to_be_bytes().to_vec())],
            vec![v_i64(-3), Some(vec![0]), Some(vec![]), Some((0..16).collect()), Some(vec![0xfe, 0x80, 0, 0, 0, 0, 0, 0, 0, 1, 0, 2, 0, 3, 0, 4]), Some(f64::NAN.to_be_bytes().to_vec())],
        ],
        false,
        vec!["(i64,bool,blob,uuid,inet,f64)"],
    ));
    // more native types through the dynamic target, including the legacy "empty" value
    v.push(rows_case(
        "rows/natives-dynamic",
        vec![
            ColSpec::new("ks", "t", "si", ColType::SmallInt),
            ColSpec::new("ks", "t", "ti", ColType::TinyInt),
            ColSpec::new("ks", "t", "ts", ColType::Timestamp),
            ColSpec::new("ks", "t", "dt", ColType::Date),
            ColSpec::new("ks", "t", "tm", ColType::Time),
            ColSpec::new("ks", "t", "fl", ColType::Float),
            ColSpec::new("ks", "t", "tu", ColType::Timeuuid),
            ColSpec::new("ks", "t", "as", ColType::Ascii),
            ColSpec::new("ks", "t", "ct", ColType::Counter),
        ],
        vec![
            vec![
                Some(vec![0xff, 0xfe]),
                Some(vec![0x80]),
                v_i64(1_700_000_000_000),
                Some((1u32 << 31).to_be_bytes().to_vec()),
                v_i64(86_399_999_999_999),
                Some(2.5f32.to_be_bytes().to_vec()),
                Some(vec![0x13, 0x81, 0x40, 0x00, 0x1d, 0xd2, 0x11, 0xb2, 0x80, 0x80, 0x80, 0x80, 0x80, 0x80, 0x80, 0x80]),
                v_str("ascii"),
                v_i64(42),
            ],
            vec![Some(vec![]), Some(vec![]), Some(vec![]), Some(vec![]), Some(vec![]), Some(vec![]), Some(vec![]), v_str(""), Some(vec![])],
            vec![None; 9],
        ],
        true,
        vec![],
    ));
    // decimal / varint / duration: decoded (value semantics are C01's), must not fail
    v.push(rows_case(
        "rows/opaque-values",
        vec![ColSpec::new("ks", "t", "dc", ColType::Decimal), ColSpec::new("ks", "t", "vi", ColType::Varint), ColSpec::new("ks", "t", "du", ColType::Duration)],
        vec![vec![Some(vec![0, 0, 0, 2, 0x30, 0x39]), Some(vec![0x01, 0x00]), Some(vec![2, 4, 6])], vec![None, None, None]],
        true,
        vec![],
    ));
    // UDT
    v.push(rows_case(
        "rows/udt",
        vec![ColSpec::new("ks", "t", "u", udt_ab())],
        vec![vec![v_fields(&[v_i32(1), v_str("b")])], vec![v_fields(&[None, None])], vec![None]],
        true,
        vec!["(Option<UdtAB>,)", "(Option<UdtLoose>,)", "(Option<UdtOrdered>,)", "(Option<CqlValue>,)"],
    ));
    // UDT definitions a derived struct has to cope with: a field name repeated, a field missing, fields swapped,
    // an excess field in the middle (well-formed frames; a target either type-checks and decodes or refuses)
    for (name, fields, cells) in [
        ("rows/udt-field-name-repeated", vec![("a", ColType::Int), ("b", ColType::Text), ("b", ColType::Text)], vec![v_i32(1), v_str("x"), v_str("y")]),
        ("rows/udt-first-field-name-repeated", vec![("a", ColType::Int), ("a", ColType::Int), ("b", ColType::Text)], vec![v_i32(1), v_i32(2), v_str("y")]),
        ("rows/udt-field-missing", vec![("a", ColType::Int)], vec![v_i32(1)]),
        ("rows/udt-fields-swapped", vec![("b", ColType::Text), ("a", ColType::Int)], vec![v_str("x"), v_i32(1)]),
        ("rows/udt-excess-field-in-the-middle", vec![("a", ColType::Int), ("zz", ColType::Uuid), ("b", ColType::Text)], vec![v_i32(1), None, v_str("x")]),
    ] {
        let t = ColType::Udt { keyspace: "ks".into(), name: "ab".into(), fields: fields.iter().map(|(n, t)| (n.to_string(), t.clone())).collect() };
        // robustness only: a struct target renders its own fields, not the definition's, so no round-trip claim
        let mut c = rows_case(name, vec![ColSpec::new("ks", "t", "u", t)], vec![vec![v_fields(&cells)], vec![v_fields(&vec![None; cells.len()])], vec![None]], true, vec![]);
        c.oracle = false;
        v.push(c);
    }
    // custom types (option 0x0000 + class string)
    {
        const P: &str = "org.apache.cassandra.db.marshal.";
        let table: Vec<(String, &str, Option<ColType>)> = vec![
            (format!("{P}ListType({P}Int32Type)"), "list<int>", Some(ColType::List(Box::new(ColType::Int)))),
            (format!("{P}VectorType({P}FloatType, 3)"), "vector<float,3>", None),
            (format!("{P}VectorType({P}FloatType , 3)"), "vector<float,3>", None),
            (format!("636f6c:{P}SetType({P}UTF8Type)"), "set<text>", Some(ColType::Set(Box::new(ColType::Text)))),
            (format!("{P}FrozenType({P}ListType({P}SetType({P}Int32Type)))"), "frozen:list<frozen:set<int>>", None),
            (format!("{P}MapType({P}UTF8Type,{P}LongType)"), "map<text,bigint>", Some(ColType::Map(Box::new(ColType::Text), Box::new(ColType::BigInt)))),
            (format!("{P}TupleType({P}Int32Type, {P}UTF8Type)"), "tuple<int,text>", Some(ColType::Tuple(vec![ColType::Int, ColType::Text]))),
            (format!("{P}UserType(ks,6162,61:{P}Int32Type,62:{P}UTF8Type)"), "udt(\"ks\".\"ab\"){\"a\":int,\"b\":text}", Some(udt_ab())),
            (format!("{P}VectorType({P}UTF8Type, 2)"), "vector<text,2>", None),
            ("Int32Type".to_string(), "int", Some(ColType::Int)),
            (String::new(), "blob", Some(ColType::Blob)),
        ];
        for (i, (s, canon, eq)) in table.iter().enumerate() {
            let cell: Option<Vec<u8>> = match canon {
                &"list<int>" => v_seq(&[v_i32(1), v_i32(2)]),
                &"vector<float,3>" => Some([1.0f32, 2.0, 3.0].iter().flat_map(|f| f.to_be_bytes()).collect()),
                &"set<text>" => v_seq(&[v_str("q")]),
                &"map<text,bigint>" => v_map(&[(v_str("k"), v_i64(9))]),
                &"tuple<int,text>" => v_fields(&[v_i32(3), v_str("t")]),
                &"vector<text,2>" => Some(vec![1, b'a', 2, b'b', b'c']),
                &"int" => v_i32(77),
                &"blob" => Some(vec![1, 2]),
                c if c.starts_with("udt") => v_fields(&[v_i32(1), v_str("x")]),
                _ => None,
            };
            let mut must = vec!["(Option<CqlValue>,)"];
            if *canon == "list<int>" {
                must.push("(Option<Vec<i32>>,)");
            }
            if *canon == "vector<float,3>" {
                must.push("(Option<Vec<f32>>,)");
            }
            let mut c = rows_case(&format!("rows/custom/{i}"), vec![ColSpec::new("ks", "t", "c", ColType::Custom(s.clone()))], vec![vec![cell], vec![None]], i % 2 == 0, must);
            c.custom.insert(s.clone(), (canon.to_string(), eq.clone()));
            v.push(c);
        }
        // generated nestings rendered by `marshal`
        let nested = ColType::Map(
            Box::new(ColType::Text),
            Box::new(ColType::List(Box::new(ColType::Tuple(vec![ColType::Int, ColType::Set(Box::new(ColType::Uuid)), udt_ab()])))),
        );
        let s = marshal(&nested);
        let mut c = rows_case("rows/custom/nested", vec![ColSpec::new("ks", "t", "c", ColType::Custom(s.clone()))], vec![vec![None]], true, vec!["(Option<CqlValue>,)"]);
        let tmp = case("tmp", "ready", Response::Ready);
        c.custom.insert(s, (super::expect::canon_type(&nested, &tmp), Some(nested)));
        v.push(c);
    }
    // vector<float,3> through the typed Vec<f32> target is covered above; zero columns, zero rows
    v.push(rows_case("rows/zero-columns", vec![], vec![], false, vec![]));

    // --- PREPARED
    let pm = PreparedMetadata {
        extra_flags: 0,
        columns: vec![ColSpec::new("ks", "t", "pk1", ColType::Int), ColSpec::new("ks", "t", "pk2", ColType::Text), ColSpec::new("ks", "t", "v", udt_ab())],
        pk_indexes: vec![1, 0],
        global_spec: true,
    };
    let rm = ResultMetadata { columns: cols_it.clone(), paging_state: None, no_metadata: false, global_spec: true, new_metadata_id: None };
    v.push(case_nf(
        "prepared/basic",
        "result-prepared",
        Response::Result(ResultBody::Prepared { id: vec![1, 2, 3, 4], result_metadata_id: None, prepared_metadata: pm.clone(), result_metadata: rm.clone() }),
    ));
    {
        let mut c = case(
            "prepared/metadata-id",
            "result-prepared",
            Response::Result(ResultBody::Prepared { id: vec![5; 16], result_metadata_id: Some(vec![6; 16]), prepared_metadata: pm.clone(), result_metadata: rm.clone() }),
        );
        c.feat = FEAT_METADATA_ID;
        c.feat_free = 0xf & !FEAT_METADATA_ID;
        v.push(c);
    }
    for (feat, n) in [(FEAT_LWT, "negotiated"), (0, "not-negotiated")] {
        let mut pm2 = pm.clone();
        pm2.extra_flags = 0x8000_0000u32 as i32;
        pm2.global_spec = false;
        let mut c = case(
            &format!("prepared/lwt-mark/{n}"),
            "result-prepared",
            Response::Result(ResultBody::Prepared { id: vec![9], result_metadata_id: None, prepared_metadata: pm2, result_metadata: rm.clone() }),
        );
        c.feat = feat;
        c.feat_free = 0xf & !FEAT_LWT & !FEAT_METADATA_ID;
        v.push(c);
    }
    v.push(case_nf(
        "prepared/no-bind-markers-no-result",
        "result-prepared",
        Response::Result(ResultBody::Prepared {
            id: vec![],
            result_metadata_id: None,
            prepared_metadata: PreparedMetadata::default(),
            result_metadata: ResultMetadata { no_metadata: true, ..Default::default() },
        }),
    ));

    // --- envelope: tracing id, warnings, custom payload (incl. the tablet routing entry)
    {
        let mut c = rows_case("rows/int-text/traced+warnings", cols_it.clone(), rows_it.clone(), true, must_it.clone());
        c.env.tracing_id = Some([0x5a; 16]);
        c.env.warnings = Some(vec!["w1".into(), "second warning ü".into()]);
        v.push(c);
        let mut c = case("void/payload", "result-void", Response::Result(ResultBody::Void));
        let mut p = BTreeMap::new();
        p.insert("k".to_string(), vec![1, 2, 3]);
        p.insert("empty".to_string(), vec![]);
        c.env.custom_payload = Some(p);
        v.push(c);
        let mut c = case("error/unprepared/all-extensions", "error", Response::Error(ErrorBody::unprepared(&[1, 2])));
        c.env.tracing_id = Some([1; 16]);
        c.env.warnings = Some(vec![]);
        c.env.custom_payload = Some(BTreeMap::new());
        v.push(c);
        let reps = [([0x21u8; 16], 3i32), ([0x22u8; 16], 0)];
        let mut c = rows_case("rows/int-text/tablet-payload", cols_it.clone(), rows_it.clone(), true, must_it.clone());
        let mut p = BTreeMap::new();
        p.insert("tablets-routing-v1".to_string(), tablet_payload(-100, 5000, &reps));
        c.env.custom_payload = Some(p);
        c.feat = FEAT_TABLETS;
        // the tablet covers (first, last]: the driver stores first+1 as its first owned token
        c.tablet_line = Some(sm::tablet(-99, 5000, &reps.iter().map(|(u, s)| (*u, *s as i64)).collect::<Vec<_>>()));
        v.push(c);
    }
    v
}

// ---------------------------------------------------------------------------------------------
// field map of a message body, mirroring the v4 layout (for field-aware mutations)
// ---------------------------------------------------------------------------------------------

#[derive(Clone, Copy, Debug, PartialEq, Eq)]
pub enum FieldClass {
    /// element / column / row counts
    Count,
    /// byte lengths
    Len,
    Flags,
    TypeId,
    Code,
    /// a fixed-width scalar that is none of the above (port, consistency, …)
    Scalar,
}

#[derive(Clone, Debug)]
pub struct Field {
    pub off: usize,
    pub width: usize,
    pub name: String,
    pub class: FieldClass,
}

struct Walk {
    off: usize,
    fields: Vec<Field>,
}

impl Walk {
    fn f(&mut self, name: &str, width: usize, class: FieldClass) {
        self.fields.push(Field { off: self.off, width, name: name.to_string(), class });
        self.off += width;
    }
    fn string(&mut self, name: &str, s: &str) {
        self.f(&format!("{name}.len"), 2, FieldClass::Len);
        self.off += s.len();
    }
    fn string_list(&mut self, name: &str, l: &[String]) {
        self.f(&format!("{name}.count"), 2, FieldClass::Count);
        for s in l {
            self.string(&format!("{name}[]"), s);
        }
    }
    fn bytes_opt(&mut self, name: &str, b: Option<&[u8]>) {
        self.f(&format!("{name}.len"), 4, FieldClass::Len);
        self.off += b.map(|b| b.len()).unwrap_or(0);
    }
    fn short_bytes(&mut self, name: &str, b: &[u8]) {
        self.f(&format!("{name}.len"), 2, FieldClass::Len);
        self.off += b.len();
    }
    fn typ(&mut self, t: &ColType) {
        self.f("type.id", 2, FieldClass::TypeId);
        match t {
            ColType::Custom(s) => self.string("type.custom", s),
            ColType::List(e) | ColType::Set(e) => self.typ(e),
            ColType::Map(k, v) => {
                self.typ(k);
                self.typ(v);
            }
            ColType::Udt { keyspace, name, fields } => {
                self.string("udt.keyspace", keyspace);
                self.string("udt.name", name);
                self.f("udt.field_count", 2, FieldClass::Count);
                for (n, t) in fields {
                    self.string("udt.field_name", n);
                    self.typ(t);
                }
            }
            ColType::Tuple(ts) => {
                self.f("tuple.count", 2, FieldClass::Count);
                for t in ts {
                    self.typ(t);
                }
            }
            ColType::Raw(_, rest) => self.off += rest.len(),
            _ => {}
        }
    }
    fn col_specs(&mut self, cols: &[ColSpec], global: bool) {
        if global {
            let (ks, t) = cols.first().map(|c| (c.keyspace.as_str(), c.table.as_str())).unwrap_or(("", ""));
            self.string("global.keyspace", ks);
            self.string("global.table", t);
        }
        for c in cols {
            if !global {
                self.string("col.keyspace", &c.keyspace);
                self.string("col.table", &c.table);
            }
            self.string("col.name", &c.name);
            self.typ(&c.typ);
        }
    }
    fn result_metadata(&mut self, m: &ResultMetadata, p: &str) {
        let flags = m.flags();
        self.f(&format!("{p}flags"), 4, FieldClass::Flags);
        self.f(&format!("{p}col_count"), 4, FieldClass::Count);
        if let Some(ps) = &m.paging_state {
            self.bytes_opt(&format!("{p}paging_state"), Some(ps));
        }
        if let Some(id) = &m.new_metadata_id {
            self.short_bytes(&format!("{p}new_metadata_id"), id);
        }
        if !m.no_metadata {
            self.col_specs(&m.columns, flags & RM_GLOBAL_SPEC != 0);
        }
    }
    fn schema_change(&mut self, sc: &SchemaChange) {
        self.string("change_type", &sc.change_type);
        self.string("target", &sc.target);
        self.string("keyspace", &sc.keyspace);
        if let Some(n) = &sc.name {
            self.string("name", n);
        }
        if let Some(a) = &sc.args {
            self.string_list("args", a);
        }
    }
    fn inet(&mut self, ip: &IpAddr) {
        self.f("inet.size", 1, FieldClass::Len);
        self.off += if ip.is_ipv4() { 4 } else { 16 };
        self.f("inet.port", 4, FieldClass::Scalar);
    }
}

/// Fields of the message body of `resp` (offsets relative to the message body).
pub fn field_map(resp: &Response) -> (Vec<Field>, usize) {
    let mut w = Walk { off: 0, fields: vec![] };
    match resp {
        Response::Ready => {}
        Response::Authenticate(s) => w.string("authenticator", s),
        Response::AuthChallenge(b) | Response::AuthSuccess(b) => w.bytes_opt("token", b.as_deref()),
        Response::Supported(m) => {
            w.f("options.count", 2, FieldClass::Count);
            for (k, v) in m {
                w.string("option.key", k);
                w.string_list("option.values", v);
            }
        }
        Response::Error(e) => {
            w.f("error.code", 4, FieldClass::Code);
            w.string("error.message", &e.message);
            match &e.extra {
                ErrorExtra::None => {}
                ErrorExtra::Unavailable { .. } => {
                    w.f("consistency", 2, FieldClass::Scalar);
                    w.f("required", 4, FieldClass::Scalar);
                    w.f("alive", 4, FieldClass::Scalar);
                }
                ErrorExtra::WriteTimeout { write_type, .. } => {
                    w.f("consistency", 2, FieldClass::Scalar);
                    w.f("received", 4, FieldClass::Scalar);
                    w.f("blockfor", 4, FieldClass::Scalar);
                    w.string("write_type", write_type);
                }
                ErrorExtra::ReadTimeout { .. } => {
                    w.f("consistency", 2, FieldClass::Scalar);
                    w.f("received", 4, FieldClass::Scalar);
                    w.f("blockfor", 4, FieldClass::Scalar);
                    w.f("data_present", 1, FieldClass::Scalar);
                }
                ErrorExtra::ReadFailure { .. } => {
                    w.f("consistency", 2, FieldClass::Scalar);
                    w.f("received", 4, FieldClass::Scalar);
                    w.f("blockfor", 4, FieldClass::Scalar);
                    w.f("numfailures", 4, FieldClass::Scalar);
                    w.f("data_present", 1, FieldClass::Scalar);
                }
                ErrorExtra::FunctionFailure { keyspace, function, arg_types } => {
                    w.string("keyspace", keyspace);
                    w.string("function", function);
                    w.string_list("arg_types", arg_types);
                }
                ErrorExtra::WriteFailure { write_type, .. } => {
                    w.f("consistency", 2, FieldClass::Scalar);
                    w.f("received", 4, FieldClass::Scalar);
                    w.f("blockfor", 4, FieldClass::Scalar);
                    w.f("numfailures", 4, FieldClass::Scalar);
                    w.string("write_type", write_type);
                }
                ErrorExtra::AlreadyExists { keyspace, table } => {
                    w.string("keyspace", keyspace);
                    w.string("table", table);
                }
                ErrorExtra::Unprepared { id } => w.short_bytes("statement_id", id),
                ErrorExtra::RateLimit { .. } => {
                    w.f("op_type", 1, FieldClass::Scalar);
                    w.f("rejected_by_coordinator", 1, FieldClass::Scalar);
                }
                ErrorExtra::Raw(b) => w.off += b.len(),
            }
        }
        Response::Event(ev) => match ev {
            Event::TopologyChange { change, addr, .. } | Event::StatusChange { change, addr, .. } => {
                w.string("event.type", if matches!(ev, Event::TopologyChange { .. }) { "TOPOLOGY_CHANGE" } else { "STATUS_CHANGE" });
                w.string("event.change", change);
                w.inet(addr);
            }
            Event::SchemaChange(sc) => {
                w.string("event.type", "SCHEMA_CHANGE");
                w.schema_change(sc);
            }
        },
        Response::Result(r) => {
            w.f("result.kind", 4, FieldClass::Code);
            match r {
                ResultBody::Void => {}
                ResultBody::SetKeyspace(k) => w.string("keyspace", k),
                ResultBody::SchemaChange(sc) => w.schema_change(sc),
                ResultBody::Rows { metadata, rows } => {
                    w.result_metadata(metadata, "");
                    w.f("rows_count", 4, FieldClass::Count);
                    for (ri, row) in rows.iter().enumerate() {
                        for cell in row {
                            // name the first rows' cells; all of them are mutated alike
                            w.bytes_opt(if ri == 0 { "cell" } else { "cell+" }, cell.as_deref());
                        }
                    }
                }
                ResultBody::Prepared { id, result_metadata_id, prepared_metadata: pm, result_metadata } => {
                    w.short_bytes("prepared.id", id);
                    if let Some(m) = result_metadata_id {
                        w.short_bytes("prepared.result_metadata_id", m);
                    }
                    let global = pm.global_spec && !pm.columns.is_empty();
                    w.f("prepared.flags", 4, FieldClass::Flags);
                    w.f("prepared.col_count", 4, FieldClass::Count);
                    w.f("prepared.pk_count", 4, FieldClass::Count);
                    for _ in &pm.pk_indexes {
                        w.f("prepared.pk_index", 2, FieldClass::Scalar);
                    }
                    w.col_specs(&pm.columns, global);
                    w.result_metadata(result_metadata, "result_metadata.");
                }
            }
        }
    }
    (w.fields, w.off)
}

/// Field map of the extension block that precedes the message body.
pub fn envelope_fields(env: &Envelope) -> (Vec<Field>, usize) {
    let mut w = Walk { off: 0, fields: vec![] };
    if env.tracing_id.is_some() {
        w.off += 16;
    }
    if let Some(ws) = &env.warnings {
        w.string_list("warnings", ws);
    }
    if let Some(p) = &env.custom_payload {
        w.f("payload.count", 2, FieldClass::Count);
        for (k, v) in p {
            w.string("payload.key", k);
            w.bytes_opt("payload.value", Some(v));
        }
    }
    (w.fields, w.off)
}

pub const KNOWN_TYPE_IDS: [u16; 26] = [
    0x0000, 0x0001, 0x0002, 0x0003, 0x0004, 0x0005, 0x0006, 0x0007, 0x0008, 0x0009, 0x000B, 0x000C, 0x000D, 0x000E, 0x000F, 0x0010, 0x0011, 0x0012, 0x0013, 0x0014,
    0x0015, 0x0020, 0x0021, 0x0022, 0x0030, 0x0031,
];

/// The replacement values tried for a field (label, big-endian bytes).
pub fn mutation_values(f: &Field, cur: &[u8]) -> Vec<(String, Vec<u8>)> {
    let mut out: Vec<(String, Vec<u8>)> = Vec::new();
    match f.width {
        4 => {
            let v = i32::from_be_bytes(cur.try_into().unwrap());
            let mut push = |l: &str, x: i32| out.push((l.to_string(), x.to_be_bytes().to_vec()));
            match f.class {
                FieldClass::Flags => {
                    for b in 0..32 {
                        push(&format!("flip-bit{b}"), v ^ (1i32 << b));
                    }
                    push("all-ones", -1);
                    push("zero", 0);
                }
                FieldClass::Code => {
                    for c in [
                        0, 1, 2, 3, 4, 5, 6, 0x000A, 0x0100, 0x1000, 0x1001, 0x1002, 0x1003, 0x1100, 0x1200, 0x1300, 0x1400, 0x1500, 0x2000, 0x2100, 0x2200, 0x2300,
                        0x2400, 0x2500, RATE_LIMIT_CODE, -1, i32::MAX, i32::MIN,
                    ] {
                        push(&format!("code={c:#x}"), c);
                    }
                }
                _ => {
                    push("0", 0);
                    push("-1", -1);
                    push("-2", -2);
                    push("i32::MAX", i32::MAX);
                    push("i32::MIN", i32::MIN);
                    push("+1", v.wrapping_add(1));
                    push("-1rel", v.wrapping_sub(1));
                    push("65536", 65536);
                    push("2^24", 1 << 24);
                    push("2^20", 1 << 20);
                }
            }
        }
        2 => {
            let v = u16::from_be_bytes(cur.try_into().unwrap());
            let mut push = |l: &str, x: u16| out.push((l.to_string(), x.to_be_bytes().to_vec()));
            match f.class {
                FieldClass::TypeId => {
                    for id in KNOWN_TYPE_IDS {
                        push(&format!("id={id:#06x}"), id);
                    }
                    for id in [0x000Au16, 0x0016, 0x0023, 0x0032, 0x7fff, 0xffff] {
                        push(&format!("id={id:#06x}"), id);
                    }
                }
                _ => {
                    push("0", 0);
                    push("0xffff", 0xffff);
                    push("0x7fff", 0x7fff);
                    push("0x8000", 0x8000);
                    push("+1", v.wrapping_add(1));
                    push("-1rel", v.wrapping_sub(1));
                }
            }
        }
        1 => {
            let v = cur[0];
            for (l, x) in [("0", 0u8), ("0xff", 0xff), ("+1", v.wrapping_add(1)), ("-1rel", v.wrapping_sub(1)), ("4", 4), ("16", 16), ("0x80", 0x80)] {
                out.push((l.to_string(), vec![x]));
            }
        }
        _ => {}
    }
    out.retain(|(_, b)| b.as_slice() != cur);
    out.dedup_by(|a, b| a.1 == b.1);
    out
}

// ---------------------------------------------------------------------------------------------
// hostile frames that are generated directly
// ---------------------------------------------------------------------------------------------

pub fn result_rows_body(flags: i32, col_count: i32, specs_and_rows: &[u8]) -> Vec<u8> {
    let mut w = Writer::new();
    w.int(2);
    w.int(flags);
    w.int(col_count);
    w.raw(specs_and_rows);
    w.into_inner()
}

pub fn plain_frame(opcode: u8, body: &[u8]) -> Vec<u8> {
    frame::encode_frame(0x84, 0, 3, opcode, body)
}

#[derive(Clone, Debug)]
pub enum Deep {
    /// one column whose type is `wrap` nested `depth` times around int; `rows`: also one row with a value nested as deep
    Type { wrap: &'static str, depth: usize, with_value: bool, prepared: bool },
    /// one column of custom type: `name(` repeated `depth` times, optionally closed; `prepared`: the column is a
    /// bind marker of a PREPARED response instead of a result column
    Custom { name: &'static str, depth: usize, closed: bool, prepared: bool },
    /// custom type string built to re-parse sub-expressions at every second level
    CustomReparse { depth: usize },
}

impl Deep {
    pub fn label(&self) -> String {
        match self {
            Deep::Type { wrap, with_value, prepared, .. } => {
                format!("type-nesting({wrap}{}{})", if *with_value { "+value" } else { "" }, if *prepared { ",prepared" } else { "" })
            }
            Deep::Custom { name, closed, prepared, .. } => {
                format!("custom-type-nesting({name}{}{})", if *closed { "" } else { ",unclosed" }, if *prepared { ",prepared" } else { "" })
            }
            Deep::CustomReparse { .. } => "custom-type-param-count-mismatch-nesting".into(),
        }
    }
    /// root-cause label used in signatures
    pub fn root(&self) -> &'static str {
        match self {
            Deep::Type { with_value: true, .. } => "value-nesting",
            Deep::Type { wrap, .. } if wrap.ends_with("65535") => "type-nesting-count65535",
            Deep::Type { .. } => "type-nesting",
            Deep::Custom { closed: false, .. } => "custom-type-unclosed-paren",
            Deep::Custom { .. } => "custom-type-nesting",
            Deep::CustomReparse { .. } => "custom-type-param-count-mismatch-nesting",
        }
    }
    pub fn depth(&self) -> usize {
        match self {
            Deep::Type { depth, .. } | Deep::Custom { depth, .. } | Deep::CustomReparse { depth } => *depth,
        }
    }
    pub fn frame(&self) -> Vec<u8> {
        match self {
            Deep::Type { wrap, depth, with_value, prepared } => {
                let mut w = Writer::new();
                // column spec: ks, table, name, then the type
                w.string("ks");
                w.string("t");
                w.string("c");
                for _ in 0..*depth {
                    match *wrap {
                        "list" => w.short(0x0020),
                        "set" => w.short(0x0022),
                        "map" => {
                            // map<int, map<int, ...>>
                            w.short(0x0021);
                            w.short(0x0009);
                        }
                        "tuple1" => {
                            w.short(0x0031);
                            w.short(1);
                        }
                        "tuple65535" => {
                            // declares 65535 elements, the first being the next level
                            w.short(0x0031);
                            w.short(0xffff);
                        }
                        "udt65535" => {
                            w.short(0x0030);
                            w.string("k");
                            w.string("u");
                            w.short(0xffff);
                            w.string("f");
                        }
                        "udt1" => {
                            w.short(0x0030);
                            w.string("k");
                            w.string("u");
                            w.short(1);
                            w.string("f");
                        }
                        _ => unreachable!(),
                    }
                }
                w.short(0x0009);
                if *prepared {
                    // PREPARED: id, prepared metadata (flags, col_count=1, pk_count=0, spec), result metadata (NO_METADATA)
                    let mut b = Writer::new();
                    b.int(4);
                    b.short_bytes(&[1]);
                    b.int(0);
                    b.int(1);
                    b.int(0);
                    b.raw(&w.buf);
                    b.int(RM_NO_METADATA);
                    b.int(0);
                    return plain_frame(Opcode::Result as u8, &b.into_inner());
                }
                if *with_value {
                    w.int(1);
                    // value: list/set: [count=1][len][...]; innermost int
                    let mut val = 7i32.to_be_bytes().to_vec();
                    for _ in 0..*depth {
                        let mut o = Writer::new();
                        match *wrap {
                            "list" | "set" => {
                                o.int(1);
                                o.bytes(&val);
                            }
                            "map" => {
                                o.int(1);
                                o.bytes(&1i32.to_be_bytes());
                                o.bytes(&val);
                            }
                            _ => o.bytes(&val),
                        }
                        val = o.into_inner();
                    }
                    w.bytes(&val);
                } else {
                    w.int(0);
                }
                plain_frame(Opcode::Result as u8, &result_rows_body(0, 1, &w.buf))
            }
            Deep::Custom { name, depth, closed, prepared } => {
                let mut s = String::new();
                for _ in 0..*depth {
                    s.push_str(name);
                    s.push('(');
                }
                s.push_str("Int32Type");
                if *closed {
                    for _ in 0..*depth {
                        s.push(')');
                    }
                }
                if *prepared { custom_type_prepared_frame(&s) } else { custom_type_frame(&s) }
            }
            Deep::CustomReparse { depth } => {
                // L(k) = "ListType(" L(k+1) ",Int32Type)": every level has one parameter too many
                let mut s = String::new();
                for _ in 0..*depth {
                    s.push_str("ListType(");
                }
                s.push_str("Int32Type");
                for _ in 0..*depth {
                    s.push_str(",Int32Type)");
                }
                custom_type_frame(&s)
            }
        }
    }
}

/// RESULT Rows, one column of custom type `class` (truncated to what a [string] can carry), no rows.
pub fn custom_type_frame(class: &str) -> Vec<u8> {
    let mut w = Writer::new();
    w.string("ks");
    w.string("t");
    w.string("c");
    w.short(0x0000);
    let b = class.as_bytes();
    let n = b.len().min(65535);
    w.short(n as u16);
    w.raw(&b[..n]);
    w.int(0);
    plain_frame(Opcode::Result as u8, &result_rows_body(0, 1, &w.buf))
}

/// PREPARED with one bind marker of custom type `class`, empty result metadata.
pub fn custom_type_prepared_frame(class: &str) -> Vec<u8> {
    let mut b = Writer::new();
    b.int(4);
    b.short_bytes(&[1]);
    b.int(0);
    b.int(1);
    b.int(0);
    b.string("ks");
    b.string("t");
    b.string("c");
    b.short(0x0000);
    let s = class.as_bytes();
    let n = s.len().min(65535);
    b.short(n as u16);
    b.raw(&s[..n]);
    b.int(RM_NO_METADATA);
    b.int(0);
    plain_frame(Opcode::Result as u8, &b.into_inner())
}

/// Frames whose embedded lengths promise far more than they carry: (label, comp, frame)
pub fn length_liars() -> Vec<(String, &'static str, u8, Vec<u8>)> {
    let mut v = Vec::new();
    let void = Response::Result(ResultBody::Void).encode_body();
    // the smallest frames with a count that promises what the frame cannot hold (also found by the field
    // mutations; listed here so that the reported example is the minimal one)
    v.push(("result-rows.col_count=i32::MAX (12-byte body)".to_string(), "result-rows", 0u8, plain_frame(Opcode::Result as u8, &result_rows_body(0, i32::MAX, &[]))));
    {
        // PREPARED: id=[01], flags=0, col_count, pk_count
        let mk = |col_count: i32, pk_count: i32| {
            let mut b = Writer::new();
            b.int(4);
            b.short_bytes(&[1]);
            b.int(0);
            b.int(col_count);
            b.int(pk_count);
            plain_frame(Opcode::Result as u8, &b.into_inner())
        };
        v.push(("result-prepared.pk_count=i32::MAX (19-byte body)".to_string(), "result-prepared", 0u8, mk(0, i32::MAX)));
        v.push(("result-prepared.col_count=i32::MAX (19-byte body)".to_string(), "result-prepared", 0u8, mk(i32::MAX, 0)));
    }
    // header length far beyond the bytes that follow
    for (l, len) in [("0xffffffff", 0xffff_ffffu32), ("0x7fffffff", 0x7fff_ffff), ("0x40000000", 0x4000_0000), ("0x08000000", 0x0800_0000), ("0x01000001", 0x0100_0001)] {
        let mut f = plain_frame(Opcode::Result as u8, &void);
        f[5..9].copy_from_slice(&len.to_be_bytes());
        v.push((format!("header.length={l}"), "frame-header", 0u8, f));
    }
    // LZ4: 4-byte uncompressed length prefix
    let good = lz4_flex::block::compress(&void);
    for (l, n) in [("0x7fffffff", 0x7fff_ffffu32), ("0xffffffff", 0xffff_ffff), ("0x40000000", 0x4000_0000), ("0x10000000", 0x1000_0000), ("0x01000000", 0x0100_0000), ("0", 0), ("actual+1", void.len() as u32 + 1), ("actual-1", void.len() as u32 - 1)] {
        let mut body = n.to_be_bytes().to_vec();
        body.extend_from_slice(&good);
        v.push((format!("lz4.uncompressed_length={l}"), "lz4", 1u8, frame::encode_frame(0x84, 1, 3, Opcode::Result as u8, &body)));
    }
    // LZ4 block whose match copies expand a few bytes enormously: token 0x1f + 255-run length bytes
    {
        let mut blk = vec![0x1f, b'A', 0x01, 0x00];
        blk.extend(std::iter::repeat(0xff).take(2000));
        blk.push(0);
        for n in [600_000u32, 0x7fff_ffff] {
            let mut body = n.to_be_bytes().to_vec();
            body.extend_from_slice(&blk);
            v.push((format!("lz4.match-run/declared={n:#x}"), "lz4", 1u8, frame::encode_frame(0x84, 1, 3, Opcode::Result as u8, &body)));
        }
    }
    // Snappy: varint preamble = uncompressed length
    let good = snap::raw::Encoder::new().compress_vec(&void).unwrap();
    for (l, pre) in [
        ("0xffffffff", vec![0xff, 0xff, 0xff, 0xff, 0x0f]),
        ("0x7fffffff", vec![0xff, 0xff, 0xff, 0xff, 0x07]),
        ("0x40000000", vec![0x80, 0x80, 0x80, 0x80, 0x04]),
        ("0x10000000", vec![0x80, 0x80, 0x80, 0x80, 0x01]),
        ("0x01000000", vec![0x80, 0x80, 0x80, 0x08]),
        ("2^35", vec![0x80, 0x80, 0x80, 0x80, 0x80, 0x01]),
        ("unterminated-varint", vec![0xff, 0xff, 0xff, 0xff, 0xff, 0xff, 0xff, 0xff, 0xff, 0xff, 0xff]),
    ] {
        let mut body = pre.clone();
        // drop the genuine one-byte preamble, keep the genuine element stream
        body.extend_from_slice(&good[1..]);
        v.push((format!("snappy.uncompressed_length={l}"), "snappy", 2u8, frame::encode_frame(0x84, 1, 3, Opcode::Result as u8, &body)));
    }
    v
}

// ---------------------------------------------------------------------------------------------
// random generation
// ---------------------------------------------------------------------------------------------

fn rand_ident(rng: &mut Rng) -> String {
    const POOL: [&str; 8] = ["a", "col", "ks1", "Tab", "żółw", "", "x_y", "long_identifier_name_0123456789"];
    rng.pick(&POOL).to_string()
}

pub fn rand_type(rng: &mut Rng, depth: u32) -> ColType {
    let leaf = depth == 0 || rng.chance(3, 5);
    if leaf {
        return match rng.below(19) {
            0 => ColType::Ascii,
            1 => ColType::BigInt,
            2 => ColType::Blob,
            3 => ColType::Boolean,
            4 => ColType::Counter,
            5 => ColType::Double,
            6 => ColType::Float,
            7 => ColType::Int,
            8 => ColType::Timestamp,
            9 => ColType::Uuid,
            10 => ColType::Text,
            11 => ColType::Timeuuid,
            12 => ColType::Inet,
            13 => ColType::Date,
            14 => ColType::Time,
            15 => ColType::SmallInt,
            16 => ColType::TinyInt,
            17 => ColType::Varint,
            _ => ColType::Decimal,
        };
    }
    match rng.below(5) {
        0 => ColType::List(Box::new(rand_type(rng, depth - 1))),
        1 => ColType::Set(Box::new(rand_type(rng, depth - 1))),
        2 => ColType::Map(Box::new(rand_type(rng, depth - 1)), Box::new(rand_type(rng, depth - 1))),
        3 => ColType::Tuple((0..rng.usize(1, 3)).map(|_| rand_type(rng, depth - 1)).collect()),
        _ => ColType::Udt {
            keyspace: rand_ident(rng),
            name: rand_ident(rng),
            fields: (0..rng.usize(0, 3)).map(|i| (format!("f{i}"), rand_type(rng, depth - 1))).collect(),
        },
    }
}

/// a well-formed value of type `t` (None = null)
pub fn rand_value(rng: &mut Rng, t: &ColType, allow_null: bool) -> Option<Vec<u8>> {
    if allow_null && rng.chance(1, 6) {
        return None;
    }
    Some(match t {
        ColType::Ascii => {
            let n = rng.usize(0, 6);
            (0..n).map(|_| b'a' + rng.below(26) as u8).collect()
        }
        ColType::Text => ["", "x", "héllo", "日本", "tab\there"][rng.below(5) as usize].as_bytes().to_vec(),
        ColType::Blob => {
            let n = rng.usize(0, 9);
            rng.bytes(n)
        }
        ColType::Boolean => vec![rng.below(2) as u8],
        ColType::BigInt | ColType::Counter | ColType::Timestamp => rng.i64_boundary().to_be_bytes().to_vec(),
        ColType::Time => (rng.below(86_400_000_000_000) as i64).to_be_bytes().to_vec(),
        ColType::Double => rng.u64().to_be_bytes().to_vec(),
        ColType::Float | ColType::Int | ColType::Date => rng.u32().to_be_bytes().to_vec(),
        ColType::Uuid | ColType::Timeuuid => rng.bytes(16),
        ColType::Inet => {
            let n = if rng.bool() { 4 } else { 16 };
            rng.bytes(n)
        }
        ColType::SmallInt => rng.bytes(2),
        ColType::TinyInt => rng.bytes(1),
        ColType::Varint => {
            let n = rng.usize(1, 9);
            rng.bytes(n)
        }
        ColType::Decimal => {
            let mut v = (rng.range(-5, 20) as i32).to_be_bytes().to_vec();
            let n = rng.usize(1, 9);
            v.extend(rng.bytes(n));
            v
        }
        ColType::List(e) | ColType::Set(e) => {
            let n = rng.usize(0, 3);
            // collection elements are never null
            let items: Vec<Option<Vec<u8>>> = (0..n).map(|_| rand_value(rng, e, false)).collect();
            v_seq(&items).unwrap()
        }
        ColType::Map(k, v) => {
            let n = rng.usize(0, 3);
            let items: Vec<(Option<Vec<u8>>, Option<Vec<u8>>)> = (0..n).map(|_| (rand_value(rng, k, false), rand_value(rng, v, false))).collect();
            v_map(&items).unwrap()
        }
        ColType::Tuple(ts) => v_fields(&ts.iter().map(|t| rand_value(rng, t, true)).collect::<Vec<_>>()).unwrap(),
        ColType::Udt { fields, .. } => v_fields(&fields.iter().map(|(_, t)| rand_value(rng, t, true)).collect::<Vec<_>>()).unwrap(),
        _ => vec![],
    })
}

/// A random well-formed RESULT Rows / PREPARED case (round-trip oracle applies).
pub fn rand_case(rng: &mut Rng, idx: usize) -> Case {
    let ncols = rng.usize(0, 5);
    let same_table = rng.bool();
    let (ks, tb) = (rand_ident(rng), rand_ident(rng));
    let cols: Vec<ColSpec> = (0..ncols)
        .map(|i| {
            let t = rand_type(rng, 3);
            if same_table { ColSpec::new(&ks, &tb, &format!("c{i}"), t) } else { ColSpec::new(&rand_ident(rng), &rand_ident(rng), &format!("c{i}"), t) }
        })
        .collect();
    let feat = (rng.below(16) as u8) & !FEAT_TABLETS;
    if rng.chance(1, 5) {
        let pm = PreparedMetadata {
            extra_flags: if rng.bool() { 0x8000_0000u32 as i32 } else { 0 },
            pk_indexes: (0..rng.usize(0, ncols.min(3))).map(|i| i as u16).collect(),
            columns: cols.clone(),
            global_spec: same_table,
        };
        let rm_cols: Vec<ColSpec> = (0..rng.usize(0, 3)).map(|i| ColSpec::new(&ks, &tb, &format!("r{i}"), rand_type(rng, 2))).collect();
        let mut c = case(
            &format!("rand/prepared/{idx}"),
            "result-prepared",
            Response::Result(ResultBody::Prepared {
                id: {
                    let n = rng.usize(0, 16);
                    rng.bytes(n)
                },
                result_metadata_id: if feat & FEAT_METADATA_ID != 0 { Some(rng.bytes(16)) } else { None },
                prepared_metadata: pm,
                result_metadata: ResultMetadata { columns: rm_cols, global_spec: true, ..Default::default() },
            }),
        );
        c.feat = feat;
        c.feat_free = FEAT_RATE_LIMIT | FEAT_TABLETS;
        return c;
    }
    let nrows = if ncols == 0 { 0 } else { rng.usize(0, 4) };
    let rows: Vec<Row> = (0..nrows).map(|_| cols.iter().map(|c| rand_value(rng, &c.typ, true)).collect()).collect();
    let mut c = rows_case(&format!("rand/rows/{idx}"), cols, rows, same_table, vec![]);
    if rng.chance(1, 3) {
        c = with_meta(c, |m| m.paging_state = Some(vec![1, 2, 3]));
    }
    if feat & FEAT_METADATA_ID != 0 && rng.bool() {
        c = with_meta(c, |m| m.new_metadata_id = Some(vec![7; 16]));
    }
    c.feat = feat;
    c.feat_free = FEAT_RATE_LIMIT | FEAT_LWT | FEAT_TABLETS;
    if rng.chance(1, 4) {
        c.env.tracing_id = Some(rng.bytes(16).try_into().unwrap());
    }
    if rng.chance(1, 4) {
        c.env.warnings = Some(vec![rand_ident(rng)]);
    }
    c.stream = rng.range(-1, 32767) as i16;
    c
}
