//! Counting global allocator (DESIGN §3.1).
//!
//! The binary has ONE `#[global_allocator]` (declared in main.rs as
//! `static GLOBAL: checks::c08::CountingAlloc = checks::c08::CountingAlloc;`).
//! It is a pass-through to `System` unless a decode thread armed it; then it
//! records, for that thread only, the largest single request and the peak of
//! live bytes since arming, remembers WHERE the largest request and the request
//! that crossed the per-record budget came from (raw return addresses, cheap;
//! symbolised only in a tracing child) and REFUSES (returns null, exactly as an
//! exhausted system would) requests that take the live total above a hard
//! ceiling, so that absurd reservations fail fast and identically on every
//! machine and build variant.

use std::alloc::{GlobalAlloc, Layout, System};
use std::cell::Cell;
use std::sync::Mutex;
use std::sync::atomic::{AtomicBool, AtomicI64, AtomicU32, AtomicU64, AtomicUsize, Ordering::Relaxed};

pub struct CountingAlloc;

/// cheap global gate: false ⇒ every other check of this binary pays one relaxed load
static ARMED: AtomicBool = AtomicBool::new(false);
static LIVE: AtomicI64 = AtomicI64::new(0);
static PEAK: AtomicI64 = AtomicI64::new(0);
static MAX_REQ: AtomicU64 = AtomicU64::new(0);
static N_ALLOCS: AtomicU64 = AtomicU64::new(0);
static BUDGET: AtomicU64 = AtomicU64::new(u64::MAX);
static HARD: AtomicU64 = AtomicU64::new(u64::MAX);
static TRIPPED: AtomicBool = AtomicBool::new(false);
static REFUSED: AtomicU64 = AtomicU64::new(0);
static TRACE: AtomicBool = AtomicBool::new(false);
/// decode context of the armed thread: (stage code << 8) | kind code, maintained by child.rs
pub static CTX: AtomicU32 = AtomicU32::new(0);

/// requests below this size are never remembered as "the largest request"
const SITE_FLOOR: usize = 64 << 10;
const BT_DEPTH: usize = 48;

/// Where one interesting request came from.
struct Slot {
    n: AtomicUsize,
    ctx: AtomicU32,
    size: AtomicU64,
    frames: [AtomicUsize; BT_DEPTH],
    /// symbolised form (trace mode only)
    site: Mutex<Option<String>>,
}

impl Slot {
    const fn new() -> Self {
        Slot {
            n: AtomicUsize::new(0),
            ctx: AtomicU32::new(0),
            size: AtomicU64::new(0),
            frames: [const { AtomicUsize::new(0) }; BT_DEPTH],
            site: Mutex::new(None),
        }
    }
    fn clear(&self) {
        self.n.store(0, Relaxed);
        self.ctx.store(0, Relaxed);
        self.size.store(0, Relaxed);
        if let Ok(mut s) = self.site.lock() {
            *s = None;
        }
    }
    /// return addresses relative to a fixed function of this binary (same in every process of it)
    fn key(&self) -> String {
        let n = self.n.load(Relaxed).min(BT_DEPTH);
        let anchor = anchor();
        let mut s = String::new();
        for f in &self.frames[..n] {
            // frames inside this executable only: shared libraries sit at a different distance in every process
            let d = f.load(Relaxed).wrapping_sub(anchor) as isize;
            if d.unsigned_abs() > (256 << 20) {
                continue;
            }
            if !s.is_empty() {
                s.push(',');
            }
            s.push_str(&format!("{d:x}"));
        }
        s
    }
}

static SLOT_MAX: Slot = Slot::new();
static SLOT_CROSS: Slot = Slot::new();

fn anchor() -> usize {
    anchor as fn() -> usize as usize
}

thread_local! {
    /// this thread's allocations are the ones being measured
    static COUNT_ME: Cell<bool> = const { Cell::new(false) };
    /// re-entrancy guard while the hook itself allocates (backtrace capture)
    static IN_HOOK: Cell<bool> = const { Cell::new(false) };
}

#[derive(Debug, Clone, Default)]
pub struct AllocStats {
    pub peak_live: u64,
    pub max_single: u64,
    pub allocs: u64,
    pub over_budget: bool,
    /// size of the request that was refused because of the hard ceiling (0 = none)
    pub refused: u64,
    /// The request to blame when the budget was exceeded: the largest single request if it accounts
    /// for at least half of the peak, otherwise the one that crossed the budget.
    /// `bt`: its return addresses (stable key), `site`: symbolised (trace mode), `ctx`: decode context.
    pub bt: String,
    pub site: Option<String>,
    pub ctx: u32,
}

/// Arms measurement for the calling thread. `budget`: report threshold;
/// `hard`: live-byte ceiling above which requests are refused.
pub fn arm(budget: u64, hard: u64, trace: bool) {
    LIVE.store(0, Relaxed);
    PEAK.store(0, Relaxed);
    MAX_REQ.store(0, Relaxed);
    N_ALLOCS.store(0, Relaxed);
    BUDGET.store(budget, Relaxed);
    HARD.store(hard, Relaxed);
    TRIPPED.store(false, Relaxed);
    REFUSED.store(0, Relaxed);
    TRACE.store(trace, Relaxed);
    SLOT_MAX.clear();
    SLOT_CROSS.clear();
    COUNT_ME.with(|c| c.set(true));
    ARMED.store(true, Relaxed);
}

fn stats(take_site: bool) -> AllocStats {
    let peak = PEAK.load(Relaxed).max(0) as u64;
    let mx = MAX_REQ.load(Relaxed);
    let over = TRIPPED.load(Relaxed);
    let refused = REFUSED.load(Relaxed);
    let (mut bt, mut site, mut ctx) = (String::new(), None, 0);
    if over || refused > 0 {
        let use_max = SLOT_MAX.n.load(Relaxed) > 0 && (refused > 0 || SLOT_MAX.size.load(Relaxed).saturating_mul(2) >= peak);
        let slot = if use_max { &SLOT_MAX } else { &SLOT_CROSS };
        bt = slot.key();
        ctx = slot.ctx.load(Relaxed);
        if take_site {
            site = slot.site.lock().ok().and_then(|s| s.clone());
        }
    }
    AllocStats { peak_live: peak, max_single: mx, allocs: N_ALLOCS.load(Relaxed), over_budget: over, refused, bt, site, ctx }
}

pub fn disarm() -> AllocStats {
    ARMED.store(false, Relaxed);
    COUNT_ME.with(|c| c.set(false));
    stats(true)
}

/// Snapshot without disarming (used by the watchdog when the decode thread never returns).
pub fn peek() -> AllocStats {
    stats(false)
}

fn raw_stderr(msg: &str) {
    unsafe {
        libc::write(2, msg.as_ptr() as *const libc::c_void, msg.len());
    }
}

fn fmt_u64(mut v: u64, buf: &mut [u8; 20]) -> &str {
    let mut i = 20;
    if v == 0 {
        i -= 1;
        buf[i] = b'0';
    }
    while v > 0 {
        i -= 1;
        buf[i] = b'0' + (v % 10) as u8;
        v /= 10;
    }
    std::str::from_utf8(&buf[i..]).unwrap_or("?")
}

/// Extracts `first frame in a scylla crate | innermost frame outside std/alloc/this module`.
pub fn site_from_backtrace(bt: &str) -> String {
    let mut first_scylla: Option<String> = None;
    let mut innermost: Option<String> = None;
    for line in bt.lines() {
        let l = line.trim_start();
        // frame lines look like "12: path::to::function"
        let Some((idx, sym)) = l.split_once(": ") else { continue };
        if idx.is_empty() || !idx.bytes().all(|b| b.is_ascii_digit()) {
            continue;
        }
        let sym = normalize_symbol(sym);
        let is_rt = sym.starts_with("std::")
            || sym.starts_with("core::")
            || sym.starts_with("alloc::")
            || sym.starts_with("<alloc::")
            || sym.starts_with("<core::")
            || sym.starts_with("<std::")
            || sym.starts_with("__rust")
            || sym.starts_with("__rustc")
            || sym.starts_with("rust_")
            || sym.starts_with("hashbrown::")
            || sym.starts_with("<hashbrown::")
            || sym.contains("checks::c08::alloc")
            || sym.contains("CountingAlloc");
        if is_rt {
            continue;
        }
        if innermost.is_none() {
            innermost = Some(sym.clone());
        }
        let s = sym.trim_start_matches('<');
        if s.starts_with("scylla_cql") || s.starts_with("scylla::") || sym.contains(" as scylla_cql") {
            first_scylla = Some(sym);
            break;
        }
        if sym.contains("verif_harness") {
            // reached the harness without passing through driver code
            break;
        }
    }
    match (first_scylla, innermost) {
        (Some(a), Some(b)) if a != b => format!("{a}|{b}"),
        (Some(a), _) => a,
        (None, Some(b)) => format!("?|{b}"),
        (None, None) => "?".into(),
    }
}

/// Strips the hash suffix, closure markers and generic arguments so that the name is the same
/// under both symbol manglings (legacy: `f::{{closure}}::h0123…`, v0: `f::<T>::{closure#0}`).
pub fn normalize_symbol(sym: &str) -> String {
    let mut s = sym.trim().to_string();
    if let Some(p) = s.rfind("::h") {
        let tail = &s[p + 3..];
        if tail.len() == 16 && tail.bytes().all(|b| b.is_ascii_hexdigit()) {
            s.truncate(p);
        }
    }
    s = s.replace("::{{closure}}", "");
    // ::{closure#N}
    while let Some(p) = s.find("::{closure#") {
        match s[p..].find('}') {
            Some(e) => s.replace_range(p..p + e + 1, ""),
            None => break,
        }
    }
    // ::<...> (balanced; "->" inside fn types does not close a bracket)
    while let Some(p) = s.find("::<") {
        let bytes = s.as_bytes();
        let mut depth = 0usize;
        let mut end = None;
        let mut i = p + 2;
        while i < bytes.len() {
            match bytes[i] {
                b'<' => depth += 1,
                b'>' if i > 0 && bytes[i - 1] != b'-' => {
                    depth -= 1;
                    if depth == 0 {
                        end = Some(i);
                        break;
                    }
                }
                _ => {}
            }
            i += 1;
        }
        match end {
            Some(e) => s.replace_range(p..e + 1, ""),
            None => break,
        }
    }
    s
}

/// Remembers where the current request comes from (called with the request not yet served).
#[cold]
fn remember(slot: &Slot, size: usize) {
    IN_HOOK.with(|h| h.set(true));
    let mut buf = [std::ptr::null_mut::<libc::c_void>(); BT_DEPTH];
    let n = unsafe { libc::backtrace(buf.as_mut_ptr(), BT_DEPTH as libc::c_int) }.max(0) as usize;
    for (i, p) in buf.iter().take(n).enumerate() {
        slot.frames[i].store(*p as usize, Relaxed);
    }
    slot.n.store(n, Relaxed);
    slot.ctx.store(CTX.load(Relaxed), Relaxed);
    slot.size.store(size as u64, Relaxed);
    if TRACE.load(Relaxed) {
        let bt = std::backtrace::Backtrace::force_capture().to_string();
        let site = site_from_backtrace(&bt);
        if std::env::var_os("C08_FULL_BT").is_some() {
            raw_stderr(&bt);
        }
        if let Ok(mut s) = slot.site.lock() {
            *s = Some(site);
        }
    }
    IN_HOOK.with(|h| h.set(false));
}

/// The request is refused: the process will most likely abort, so everything the parent needs goes to stderr now.
#[cold]
fn announce_refusal(size: usize) {
    IN_HOOK.with(|h| h.set(true));
    let mut b1 = [0u8; 20];
    let mut b2 = [0u8; 20];
    raw_stderr("C08-ALLOC-REFUSED size=");
    raw_stderr(fmt_u64(size as u64, &mut b1));
    raw_stderr(" ctx=");
    raw_stderr(fmt_u64(SLOT_MAX.ctx.load(Relaxed) as u64, &mut b2));
    raw_stderr(" bt=");
    raw_stderr(&SLOT_MAX.key());
    if let Some(site) = SLOT_MAX.site.lock().ok().and_then(|s| s.clone()) {
        raw_stderr(" site=");
        raw_stderr(&site);
    }
    raw_stderr("\n");
    IN_HOOK.with(|h| h.set(false));
}

#[inline]
fn counted() -> bool {
    // `try_with`: thread-locals may already be gone during thread teardown
    COUNT_ME.try_with(|c| c.get()).unwrap_or(false) && !IN_HOOK.try_with(|c| c.get()).unwrap_or(true)
}

/// returns false when the request must be refused
#[inline]
fn on_alloc(size: usize) -> bool {
    if !counted() {
        return true;
    }
    N_ALLOCS.fetch_add(1, Relaxed);
    let live = LIVE.fetch_add(size as i64, Relaxed) + size as i64;
    let prev_max = MAX_REQ.fetch_max(size as u64, Relaxed);
    PEAK.fetch_max(live, Relaxed);
    if size >= SITE_FLOOR && size as u64 > prev_max {
        remember(&SLOT_MAX, size);
    }
    if live > 0 && live as u64 > BUDGET.load(Relaxed) && !TRIPPED.swap(true, Relaxed) {
        remember(&SLOT_CROSS, size);
    }
    if live > 0 && live as u64 > HARD.load(Relaxed) {
        LIVE.fetch_sub(size as i64, Relaxed);
        REFUSED.fetch_max(size as u64, Relaxed);
        if SLOT_MAX.size.load(Relaxed) != size as u64 {
            remember(&SLOT_MAX, size);
        }
        announce_refusal(size);
        return false;
    }
    true
}

#[inline]
fn on_dealloc(size: usize) {
    if counted() {
        LIVE.fetch_sub(size as i64, Relaxed);
    }
}

unsafe impl GlobalAlloc for CountingAlloc {
    #[inline]
    unsafe fn alloc(&self, l: Layout) -> *mut u8 {
        if ARMED.load(Relaxed) && !on_alloc(l.size()) {
            return std::ptr::null_mut();
        }
        unsafe { System.alloc(l) }
    }
    #[inline]
    unsafe fn alloc_zeroed(&self, l: Layout) -> *mut u8 {
        if ARMED.load(Relaxed) && !on_alloc(l.size()) {
            return std::ptr::null_mut();
        }
        unsafe { System.alloc_zeroed(l) }
    }
    #[inline]
    unsafe fn dealloc(&self, p: *mut u8, l: Layout) {
        if ARMED.load(Relaxed) {
            on_dealloc(l.size());
        }
        unsafe { System.dealloc(p, l) }
    }
    #[inline]
    unsafe fn realloc(&self, p: *mut u8, l: Layout, new_size: usize) -> *mut u8 {
        if ARMED.load(Relaxed) {
            // a moving realloc holds both blocks for a moment: count the new one first
            if !on_alloc(new_size) {
                return std::ptr::null_mut();
            }
            let q = unsafe { System.realloc(p, l, new_size) };
            on_dealloc(if q.is_null() { new_size } else { l.size() });
            return q;
        }
        unsafe { System.realloc(p, l, new_size) }
    }
}
