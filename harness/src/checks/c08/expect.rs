//! The reference side of the round-trip oracle: what a well-formed frame SAYS,
//! derived from the `wire` structs it was generated from (protocol spec), never
//! from the driver.

use super::child::{FEAT_LWT, FEAT_METADATA_ID, FEAT_RATE_LIMIT, RATE_LIMIT_CODE};
use super::gens::{Case, CaseBody};
use super::summary as sm;
use crate::wire::response::{ColSpec, ColType, ErrorBody, ErrorExtra, Event, Response, ResultBody, ResultMetadata, SchemaChange};
use std::net::IpAddr;

pub struct Expect {
    pub summary: String,
    pub rows: Option<ExpectRows>,
}

pub struct ExpectRows {
    pub nrows: u64,
    /// canonical rows as every typed / dynamic target must render them
    pub rows_text: String,
    pub rows_hash: u64,
    /// raw cells (hex) as the `ColumnIterator` target must render them
    pub raw_hash: u64,
}

pub fn canon_type(t: &ColType, case: &Case) -> String {
    match t {
        ColType::Custom(s) => case.custom.get(s).map(|(c, _)| c.clone()).unwrap_or_else(|| format!("custom-unmodelled({s})")),
        ColType::Ascii => "ascii".into(),
        ColType::BigInt => "bigint".into(),
        ColType::Blob => "blob".into(),
        ColType::Boolean => "boolean".into(),
        ColType::Counter => "counter".into(),
        ColType::Decimal => "decimal".into(),
        ColType::Double => "double".into(),
        ColType::Float => "float".into(),
        ColType::Int => "int".into(),
        ColType::Timestamp => "timestamp".into(),
        ColType::Uuid => "uuid".into(),
        ColType::Text => "text".into(),
        ColType::Varint => "varint".into(),
        ColType::Timeuuid => "timeuuid".into(),
        ColType::Inet => "inet".into(),
        ColType::Date => "date".into(),
        ColType::Time => "time".into(),
        ColType::SmallInt => "smallint".into(),
        ColType::TinyInt => "tinyint".into(),
        ColType::Duration => "duration".into(),
        ColType::List(e) => format!("list<{}>", canon_type(e, case)),
        ColType::Set(e) => format!("set<{}>", canon_type(e, case)),
        ColType::Map(k, v) => format!("map<{},{}>", canon_type(k, case), canon_type(v, case)),
        ColType::Udt { keyspace, name, fields } => {
            let f: Vec<String> = fields.iter().map(|(n, t)| format!("{}:{}", sm::q(n), canon_type(t, case))).collect();
            format!("udt({}.{}){{{}}}", sm::q(keyspace), sm::q(name), f.join(","))
        }
        ColType::Tuple(ts) => format!("tuple<{}>", ts.iter().map(|t| canon_type(t, case)).collect::<Vec<_>>().join(",")),
        ColType::Raw(id, _) => format!("raw-unmodelled({id:#x})"),
    }
}

fn be_int(b: &[u8]) -> i64 {
    let mut v: i64 = if b.first().map(|x| x & 0x80 != 0).unwrap_or(false) { -1 } else { 0 };
    for x in b {
        v = (v << 8) | *x as i64;
    }
    v
}

/// splits `n` [bytes] items (int length, negative = null) off `b`
fn take_bytes_items(mut b: &[u8], n: usize) -> Option<Vec<Option<&[u8]>>> {
    let mut v = Vec::with_capacity(n.min(1 << 16));
    for _ in 0..n {
        if b.len() < 4 {
            return None;
        }
        let l = i32::from_be_bytes(b[..4].try_into().unwrap());
        b = &b[4..];
        if l < 0 {
            v.push(None);
        } else {
            let l = l as usize;
            if b.len() < l {
                return None;
            }
            v.push(Some(&b[..l]));
            b = &b[l..];
        }
    }
    Some(v)
}

/// Canonical value per the CQL v4 value formats (spec section 6). Unmodelled types render as `?`.
pub fn canon_value(t: &ColType, v: Option<&[u8]>, case: &Case) -> String {
    let Some(b) = v else { return sm::V_NULL.into() };
    let t = match t {
        ColType::Custom(s) => match case.custom.get(s).and_then(|(_, eq)| eq.as_ref()) {
            Some(eq) => eq,
            None => return sm::V_OPAQUE.into(),
        },
        t => t,
    };
    let stringish = matches!(t, ColType::Ascii | ColType::Text | ColType::Blob);
    if b.is_empty() && !stringish {
        return sm::V_EMPTY.into();
    }
    match t {
        ColType::Ascii | ColType::Text => sm::v_text(std::str::from_utf8(b).unwrap_or("<invalid utf-8>")),
        ColType::Blob => sm::v_blob(b),
        ColType::Boolean => sm::v_bool(b[0] != 0),
        ColType::Int | ColType::BigInt | ColType::SmallInt | ColType::TinyInt | ColType::Counter | ColType::Timestamp | ColType::Time => sm::v_int(be_int(b)),
        ColType::Date => sm::v_int(u32::from_be_bytes(b.try_into().unwrap_or([0; 4])) as i64),
        ColType::Float => sm::v_f32(u32::from_be_bytes(b.try_into().unwrap_or([0; 4]))),
        ColType::Double => sm::v_f64(u64::from_be_bytes(b.try_into().unwrap_or([0; 8]))),
        ColType::Uuid | ColType::Timeuuid => sm::v_uuid(&b.try_into().unwrap_or([0; 16])),
        ColType::Inet => {
            let ip: IpAddr = if b.len() == 4 {
                IpAddr::from(<[u8; 4]>::try_from(b).unwrap())
            } else {
                IpAddr::from(<[u8; 16]>::try_from(b).unwrap_or([0; 16]))
            };
            sm::v_inet(&ip)
        }
        ColType::List(e) | ColType::Set(e) => {
            let n = i32::from_be_bytes(b[..4].try_into().unwrap_or([0; 4])).max(0) as usize;
            let items = take_bytes_items(&b[4.min(b.len())..], n).unwrap_or_default();
            let c: Vec<String> = items.iter().map(|i| canon_value(e, *i, case)).collect();
            if matches!(t, ColType::List(_)) { sm::v_list(c) } else { sm::v_set(c) }
        }
        ColType::Map(k, v) => {
            let n = i32::from_be_bytes(b[..4].try_into().unwrap_or([0; 4])).max(0) as usize;
            let items = take_bytes_items(&b[4.min(b.len())..], 2 * n).unwrap_or_default();
            sm::v_map(items.chunks(2).filter(|c| c.len() == 2).map(|c| (canon_value(k, c[0], case), canon_value(v, c[1], case))).collect())
        }
        ColType::Tuple(ts) => {
            let items = take_bytes_items(b, ts.len()).unwrap_or_default();
            sm::v_tuple(ts.iter().enumerate().map(|(i, t)| canon_value(t, items.get(i).copied().flatten(), case)).collect())
        }
        ColType::Udt { fields, .. } => {
            let items = take_bytes_items(b, fields.len()).unwrap_or_default();
            sm::v_udt(fields.iter().enumerate().map(|(i, (n, t))| (n.clone(), canon_value(t, items.get(i).copied().flatten(), case))).collect())
        }
        _ => sm::V_OPAQUE.into(),
    }
}

fn schema_change_line(sc: &SchemaChange) -> String {
    sm::schema_change(&sc.change_type, &sc.target, &sc.keyspace, sc.name.as_ref(), sc.args.as_ref())
}

fn col_line(c: &ColSpec, case: &Case) -> String {
    sm::col(&c.keyspace, &c.table, &c.name, &canon_type(&c.typ, case))
}

fn error_line(e: &ErrorBody, feat: u8) -> String {
    let detail = match &e.extra {
        ErrorExtra::None | ErrorExtra::Raw(_) => sm::err_simple(e.code),
        ErrorExtra::Unavailable { cl, required, alive } => sm::err_unavailable(*cl, *required, *alive),
        ErrorExtra::WriteTimeout { cl, received, blockfor, write_type } => sm::err_write_timeout(*cl, *received, *blockfor, write_type),
        ErrorExtra::ReadTimeout { cl, received, blockfor, data_present } => sm::err_read_timeout(*cl, *received, *blockfor, *data_present != 0),
        ErrorExtra::ReadFailure { cl, received, blockfor, numfailures, data_present } => {
            sm::err_read_failure(*cl, *received, *blockfor, *numfailures, *data_present != 0)
        }
        ErrorExtra::FunctionFailure { keyspace, function, arg_types } => sm::err_function_failure(keyspace, function, arg_types),
        ErrorExtra::WriteFailure { cl, received, blockfor, numfailures, write_type } => {
            sm::err_write_failure(*cl, *received, *blockfor, *numfailures, write_type)
        }
        ErrorExtra::AlreadyExists { keyspace, table } => sm::err_already_exists(keyspace, table),
        ErrorExtra::Unprepared { id } => sm::err_unprepared(id),
        ErrorExtra::RateLimit { op_type, rejected_by_coordinator } => {
            if feat & FEAT_RATE_LIMIT != 0 && e.code == RATE_LIMIT_CODE {
                sm::err_rate_limit(*op_type, *rejected_by_coordinator != 0)
            } else {
                // not negotiated: an unknown code, trailing bytes are not interpreted
                sm::err_simple(e.code)
            }
        }
    };
    sm::error(&e.message, &detail)
}

fn result_metadata_lines(m: &ResultMetadata, id: Option<&[u8]>, case: &Case, s: &mut String) {
    sm::push(s, &sm::meta_id(id));
    sm::push(s, &sm::col_count(m.columns.len() as u64));
    if !m.no_metadata {
        for c in &m.columns {
            sm::push(s, &col_line(c, case));
        }
    }
}

/// Expected summary of `case` when sent with header `flags`/`body_len` as encoded.
pub fn expect(case: &Case, header_flags: u8, body_len: usize) -> Expect {
    let mut s = String::new();
    let opcode = case.opcode();
    sm::push(&mut s, &sm::header(0x84, header_flags, case.stream, opcode, body_len as u64));
    sm::push(&mut s, &sm::trace_id(case.env.tracing_id.as_ref()));
    sm::push(&mut s, &sm::warnings(case.env.warnings.as_deref().unwrap_or(&[])));
    sm::push(&mut s, &sm::payload(case.env.custom_payload.as_ref().map(|m| m.iter().map(|(k, v)| (k.clone(), v.clone())).collect())));
    if let Some(t) = &case.tablet_line {
        sm::push(&mut s, t);
    }
    let mut rows_out = None;
    match &case.body {
        CaseBody::Raw { expect_line, .. } => sm::push(&mut s, expect_line),
        CaseBody::Wire(resp) => match resp {
            Response::Ready => sm::push(&mut s, "ready"),
            Response::Error(e) => sm::push(&mut s, &error_line(e, case.feat)),
            Response::Authenticate(a) => sm::push(&mut s, &sm::authenticate(a)),
            Response::AuthSuccess(b) => sm::push(&mut s, &sm::auth_bytes("auth_success", b.as_deref())),
            Response::AuthChallenge(b) => sm::push(&mut s, &sm::auth_bytes("auth_challenge", b.as_deref())),
            Response::Supported(m) => sm::push(&mut s, &sm::supported(m.iter().map(|(k, v)| (k.clone(), v.clone())).collect())),
            Response::Event(ev) => match ev {
                Event::TopologyChange { change, addr, port } => sm::push(&mut s, &sm::node_event("TOPOLOGY_CHANGE", change, addr, *port as i64)),
                Event::StatusChange { change, addr, port } => sm::push(&mut s, &sm::node_event("STATUS_CHANGE", change, addr, *port as i64)),
                Event::SchemaChange(sc) => sm::push(&mut s, &format!("event {}", schema_change_line(sc))),
            },
            Response::Result(r) => match r {
                ResultBody::Void => sm::push(&mut s, "result void"),
                ResultBody::SetKeyspace(k) => sm::push(&mut s, &sm::set_keyspace(k)),
                ResultBody::SchemaChange(sc) => sm::push(&mut s, &format!("result {}", schema_change_line(sc))),
                ResultBody::Prepared { id, result_metadata_id, prepared_metadata: pm, result_metadata: rm } => {
                    let global = pm.global_spec && !pm.columns.is_empty();
                    let flags = pm.extra_flags | if global { 1 } else { 0 };
                    let lwt = case.feat & FEAT_LWT != 0 && (flags as u32) & 0x8000_0000 == 0x8000_0000;
                    sm::push(&mut s, &sm::prepared_head(id, flags, lwt));
                    sm::push(&mut s, &sm::col_count(pm.columns.len() as u64));
                    sm::push(&mut s, &sm::pk_indexes(&pm.pk_indexes.iter().enumerate().map(|(seq, idx)| (*idx, seq as u16)).collect::<Vec<_>>()));
                    for c in &pm.columns {
                        sm::push(&mut s, &col_line(c, case));
                    }
                    sm::push(&mut s, "result-metadata");
                    let id = if case.feat & FEAT_METADATA_ID != 0 { result_metadata_id.as_deref() } else { None };
                    result_metadata_lines(rm, id, case, &mut s);
                }
                ResultBody::Rows { metadata: m, rows } => {
                    sm::push(&mut s, &sm::rows_head(m.paging_state.as_deref()));
                    let cached = super::gens::cached_columns();
                    let cols: &[ColSpec] = if m.no_metadata { &cached } else { &m.columns };
                    if m.no_metadata {
                        // the response carries no column specs: the columns are the cached ones (case.cached == 1)
                        sm::push(&mut s, &sm::meta_id(None));
                        sm::push(&mut s, &sm::col_count(cols.len() as u64));
                        for c in cols {
                            sm::push(&mut s, &col_line(c, case));
                        }
                    } else {
                        let id = if case.feat & FEAT_METADATA_ID != 0 { m.new_metadata_id.as_deref() } else { None };
                        result_metadata_lines(m, id, case, &mut s);
                    }
                    sm::push(&mut s, &sm::rows_count(rows.len() as u64));
                    let mut text = String::new();
                    let mut h = sm::Hasher::new();
                    let mut hr = sm::Hasher::new();
                    for r in rows {
                        let line = sm::row(r.iter().zip(cols).map(|(cell, c)| canon_value(&c.typ, cell.as_deref(), case)).collect());
                        h.line(&line);
                        text.push_str(&line);
                        text.push('\n');
                        hr.line(&sm::row(r.iter().map(|cell| cell.as_ref().map(|b| sm::v_blob(b)).unwrap_or_else(|| sm::V_NULL.into())).collect()));
                    }
                    rows_out = Some(ExpectRows { nrows: rows.len() as u64, rows_text: text, rows_hash: h.finish(), raw_hash: hr.finish() });
                }
            },
        },
    }
    Expect { summary: s, rows: rows_out }
}
