//! Canonical text for "what a response says". Both sides use these formatters:
//! the child feeds them from the DRIVER's decoded structs, the parent from the
//! `wire` structs the frame was generated from. Only primitive formatting is
//! shared; neither side sees the other's data.

use crate::fw;
use std::net::IpAddr;

pub const V_NULL: &str = "null";
pub const V_EMPTY: &str = "empty";
/// value of a type whose semantics are not modelled here (decimal, varint, duration, vector, custom)
pub const V_OPAQUE: &str = "?";

pub fn push(s: &mut String, line: &str) {
    s.push_str(line);
    s.push('\n');
}

pub fn q(s: &str) -> String {
    format!("{s:?}")
}

pub fn hash_text(s: &str) -> u64 {
    fw::hash64(s.as_bytes())
}

pub struct Hasher(u64);
impl Hasher {
    pub fn new() -> Self {
        Hasher(0x1234_5678_9abc_def1)
    }
    pub fn line(&mut self, l: &str) {
        self.0 = fw::hash64(format!("{:016x}{l}", self.0).as_bytes());
    }
    pub fn finish(&self) -> u64 {
        self.0
    }
}

fn hex_opt(b: Option<&[u8]>) -> String {
    match b {
        None => "-".into(),
        Some(b) => format!("0x{}", fw::hex(b)),
    }
}

pub fn header(version: u8, flags: u8, stream: i16, opcode: u8, body_len: u64) -> String {
    format!("hdr version={version:#x} flags={flags:#x} stream={stream} opcode={opcode:#x} body_len={body_len}")
}
pub fn trace_id(t: Option<&[u8; 16]>) -> String {
    format!("trace {}", hex_opt(t.map(|t| &t[..])))
}
pub fn warnings(w: &[String]) -> String {
    format!("warnings [{}]", w.iter().map(|x| q(x)).collect::<Vec<_>>().join(","))
}
pub fn payload(p: Option<Vec<(String, Vec<u8>)>>) -> String {
    match p {
        None => "payload -".into(),
        Some(mut v) => {
            v.sort();
            format!("payload {{{}}}", v.iter().map(|(k, b)| format!("{}=0x{}", q(k), fw::hex(b))).collect::<Vec<_>>().join(","))
        }
    }
}
pub fn tablet(first: i64, last: i64, replicas: &[([u8; 16], i64)]) -> String {
    format!("tablet first={first} last={last} replicas=[{}]", replicas.iter().map(|(u, s)| format!("{}:{s}", fw::hex(u))).collect::<Vec<_>>().join(","))
}
pub fn authenticate(name: &str) -> String {
    format!("authenticate {}", q(name))
}
pub fn auth_bytes(kind: &str, b: Option<&[u8]>) -> String {
    format!("{kind} {}", hex_opt(b))
}
pub fn supported(mut m: Vec<(String, Vec<String>)>) -> String {
    m.sort();
    format!(
        "supported {{{}}}",
        m.iter().map(|(k, v)| format!("{}=[{}]", q(k), v.iter().map(|x| q(x)).collect::<Vec<_>>().join(","))).collect::<Vec<_>>().join(",")
    )
}
pub fn node_event(kind: &str, change: &str, ip: &IpAddr, port: i64) -> String {
    format!("event {kind} {change} {ip} {port}")
}
pub fn client_routes(conn: &[String], hosts: &[[u8; 16]]) -> String {
    format!(
        "event CLIENT_ROUTES_CHANGE UPDATE_NODES [{}] [{}]",
        conn.iter().map(|x| q(x)).collect::<Vec<_>>().join(","),
        hosts.iter().map(|h| fw::hex(h)).collect::<Vec<_>>().join(",")
    )
}
pub fn schema_change(change: &str, target: &str, ks: &str, name: Option<&String>, args: Option<&Vec<String>>) -> String {
    format!(
        "schema_change {change} {target} {} {} {}",
        q(ks),
        name.map(|n| q(n)).unwrap_or_else(|| "-".into()),
        args.map(|a| format!("[{}]", a.iter().map(|x| q(x)).collect::<Vec<_>>().join(","))).unwrap_or_else(|| "-".into())
    )
}
pub fn set_keyspace(ks: &str) -> String {
    format!("result set_keyspace {}", q(ks))
}
pub fn prepared_head(id: &[u8], flags: i32, lwt: bool) -> String {
    format!("result prepared id=0x{} flags={flags:#x} lwt={lwt}", fw::hex(id))
}
pub fn pk_indexes(pk: &[(u16, u16)]) -> String {
    // (index, sequence) pairs; the driver keeps them sorted by index
    let mut v = pk.to_vec();
    v.sort();
    format!("pk [{}]", v.iter().map(|(i, s)| format!("{i}@{s}")).collect::<Vec<_>>().join(","))
}
pub fn meta_id(id: Option<&[u8]>) -> String {
    format!("metadata_id {}", hex_opt(id))
}
pub fn col_count(n: u64) -> String {
    format!("col_count {n}")
}
pub fn col(ks: &str, table: &str, name: &str, typ: &str) -> String {
    format!("col {}.{}.{} {typ}", q(ks), q(table), q(name))
}
pub fn rows_head(paging: Option<&[u8]>) -> String {
    format!("result rows paging={}", hex_opt(paging))
}
pub fn rows_count(n: u64) -> String {
    format!("rows_count {n}")
}
pub fn row(cells: Vec<String>) -> String {
    format!("[{}]", cells.join(" | "))
}

// ---- errors ----
pub fn error(reason: &str, detail: &str) -> String {
    format!("error reason={} {detail}", q(reason))
}
pub fn err_simple(code: i32) -> String {
    format!("code={code:#x}")
}
pub fn err_unavailable(cl: u16, required: i32, alive: i32) -> String {
    format!("code=0x1000 cl={cl} required={required} alive={alive}")
}
pub fn err_write_timeout(cl: u16, received: i32, blockfor: i32, wt: &str) -> String {
    format!("code=0x1100 cl={cl} received={received} blockfor={blockfor} write_type={}", q(wt))
}
pub fn err_read_timeout(cl: u16, received: i32, blockfor: i32, data_present: bool) -> String {
    format!("code=0x1200 cl={cl} received={received} blockfor={blockfor} data_present={data_present}")
}
pub fn err_read_failure(cl: u16, received: i32, blockfor: i32, numfailures: i32, data_present: bool) -> String {
    format!("code=0x1300 cl={cl} received={received} blockfor={blockfor} numfailures={numfailures} data_present={data_present}")
}
pub fn err_function_failure(ks: &str, function: &str, args: &[String]) -> String {
    format!("code=0x1400 ks={} function={} args=[{}]", q(ks), q(function), args.iter().map(|x| q(x)).collect::<Vec<_>>().join(","))
}
pub fn err_write_failure(cl: u16, received: i32, blockfor: i32, numfailures: i32, wt: &str) -> String {
    format!("code=0x1500 cl={cl} received={received} blockfor={blockfor} numfailures={numfailures} write_type={}", q(wt))
}
pub fn err_already_exists(ks: &str, table: &str) -> String {
    format!("code=0x2400 ks={} table={}", q(ks), q(table))
}
pub fn err_unprepared(id: &[u8]) -> String {
    format!("code=0x2500 id=0x{}", fw::hex(id))
}
pub fn err_rate_limit(op: u8, rejected: bool) -> String {
    format!("rate_limit op={op} rejected_by_coordinator={rejected}")
}

// ---- values ----
pub fn v_int(i: i64) -> String {
    i.to_string()
}
pub fn v_bool(b: bool) -> String {
    b.to_string()
}
pub fn v_text(s: &str) -> String {
    q(s)
}
pub fn v_blob(b: &[u8]) -> String {
    format!("0x{}", fw::hex(b))
}
pub fn v_f32(bits: u32) -> String {
    format!("f{bits:08x}")
}
pub fn v_f64(bits: u64) -> String {
    format!("d{bits:016x}")
}
pub fn v_uuid(b: &[u8; 16]) -> String {
    format!("u{}", fw::hex(b))
}
pub fn v_inet(ip: &IpAddr) -> String {
    format!("ip{ip}")
}
pub fn v_list(v: Vec<String>) -> String {
    format!("[{}]", v.join(","))
}
/// sets and maps are compared as sets (element order is not part of the claim)
pub fn v_set(mut v: Vec<String>) -> String {
    v.sort();
    format!("{{{}}}", v.join(","))
}
pub fn v_map(mut v: Vec<(String, String)>) -> String {
    v.sort();
    format!("{{{}}}", v.iter().map(|(k, x)| format!("{k}={x}")).collect::<Vec<_>>().join(","))
}
pub fn v_tuple(v: Vec<String>) -> String {
    format!("({})", v.join(","))
}
pub fn v_udt(v: Vec<(String, String)>) -> String {
    format!("{{{}}}", v.iter().map(|(k, x)| format!("{}:{x}", q(k))).collect::<Vec<_>>().join(","))
}
