//! C08 — decoding any bytes from the network returns a value or an error, never a crash.
//!
//! PARENT side. Inputs are generated here, handed in batches to CHILD processes of this same
//! binary (`child.rs`: `verif-harness child c08`), and each record's fate is classified:
//! clean verdict / Rust panic / stack overflow / allocation failure or budget excess /
//! CPU budget excess / other signal. A child that dies is restarted after the fatal record.
//!
//! Generators (`gens.rs`):
//!  (a) well-formed frames of every response kind built with the independent `wire` codec, under every
//!      equivalent feature set x {none, lz4, snappy} x read splits, with a ROUND-TRIP oracle (`expect.rs`:
//!      what the frame says, derived from the `wire` structs) + seeded random well-formed RESULTs;
//!  (b) every truncation point of (a), with the header length adjusted and not adjusted;
//!  (c) field-aware mutations from an exact field map of every case (every count / length / flags / type id /
//!      code field x boundary values), type nestings to depth 10^6, 65535-element tuples/UDTs per level,
//!      class-string nestings up to what a [string] can carry, lying lengths (header, LZ4 prefix, Snappy preamble);
//!  (d) random bytes: byte edits of (a), random bodies under valid headers, splices, pure noise.
//!
//! Signatures name (entry point, what the BYTES say the response is, root cause, crash class):
//!   `<stage>:<kind>:alloc@<module::function of the driver that asked for the memory>`
//!   `<stage>:<kind>:<nesting label>:stack-overflow-2MiB|-8MiB`   (2 MiB = tokio worker, 8 MiB = main thread)
//!   `<stage>:<kind>:<label>:cpu-budget`                           (decode thread CPU time, never wall time)
//!   `<stage family>:panic@<file>:<message, digits masked>`
//!   `roundtrip:<kind>:<aspect>`                                   (well-formed frame decoded differently)
//! They do not depend on which generator found the input, so the same defect found by the field mutations and by
//! random bytes is reported once.

pub mod alloc;
pub mod child;
pub mod expect;
pub mod gens;
pub mod summary;

pub use alloc::CountingAlloc;
pub use child::child;

use crate::fw::children::{ChildEnd, run_self};
use crate::fw::{self, Ctx, Outcome, Rng};
use crate::wire::frame::{self as wframe, Opcode};
use child::Rec;
use expect::Expect;
use gens::{Case, CaseBody, Deep, FieldClass};
use serde_json::{Value, json};
use std::collections::HashMap;
use std::sync::atomic::{AtomicUsize, Ordering::Relaxed};
use std::sync::{Arc, Mutex};
use std::time::Duration;

/// RLIMIT_AS of a child (backstop; the counting allocator refuses above 3 GiB live on its own)
const CHILD_AS_LIMIT: u64 = 4 << 30;
const BATCH: usize = 2500;

#[derive(Clone)]
struct Oracle {
    expect: Arc<Expect>,
    must: Arc<Vec<&'static str>>,
    case_name: Arc<String>,
}

#[derive(Clone)]
struct Item {
    rec: Rec,
    /// generator class: wellformed | truncation | field-mutation | deep-nesting | length | random | canary
    genc: &'static str,
    /// mutated field / generator label (message + attribution of stack overflows and cpu excess)
    label: String,
    /// response kind the generator started from (coverage only)
    kind: &'static str,
    oracle: Option<Oracle>,
    /// how to rebuild a large input instead of carrying its hex
    regen: Option<Value>,
    /// canary: the way this record is expected to end
    canary: Option<&'static str>,
    /// finer generator label: only spreads the tracing re-runs, never part of a signature
    fine: String,
}

fn item(rec: Rec, genc: &'static str, label: impl Into<String>, kind: &'static str) -> Item {
    Item { rec, genc, label: label.into(), kind, oracle: None, regen: None, canary: None, fine: String::new() }
}

fn replay_json(it: &Item) -> Value {
    let mut j = json!({"feat": it.rec.feat, "comp": it.rec.comp, "split": it.rec.split, "cached": it.rec.cached, "gen": it.genc, "label": it.label});
    match &it.regen {
        Some(g) if it.rec.frame.len() > 4096 => j["regen"] = g.clone(),
        _ => j["frame_hex"] = json!(fw::hex(&it.rec.frame)),
    }
    if let Some(o) = &it.oracle {
        j["case"] = json!(*o.case_name);
        j["expect_summary"] = json!(o.expect.summary);
        if let Some(r) = &o.expect.rows {
            j["expect_rows_hash"] = json!(r.rows_hash.to_string());
            j["expect_raw_hash"] = json!(r.raw_hash.to_string());
            j["expect_nrows"] = json!(r.nrows);
        }
        j["must_typecheck"] = json!(*o.must);
    }
    j
}

fn deep_to_json(d: &Deep) -> Value {
    match d {
        Deep::Type { wrap, depth, with_value, prepared } => json!({"deep": "type", "wrap": wrap, "depth": depth, "with_value": with_value, "prepared": prepared}),
        Deep::Custom { name, depth, closed, prepared } => json!({"deep": "custom", "name": name, "depth": depth, "closed": closed, "prepared": prepared}),
        Deep::CustomReparse { depth } => json!({"deep": "reparse", "depth": depth}),
    }
}

fn deep_from_json(j: &Value) -> Option<Deep> {
    let depth = j["depth"].as_u64()? as usize;
    fn leak(s: &str) -> &'static str {
        Box::leak(s.to_string().into_boxed_str())
    }
    Some(match j["deep"].as_str()? {
        "type" => Deep::Type { wrap: leak(j["wrap"].as_str()?), depth, with_value: j["with_value"].as_bool()?, prepared: j["prepared"].as_bool()? },
        "custom" => Deep::Custom { name: leak(j["name"].as_str()?), depth, closed: j["closed"].as_bool()?, prepared: j["prepared"].as_bool().unwrap_or(false) },
        "reparse" => Deep::CustomReparse { depth },
        _ => return None,
    })
}

// ---------------------------------------------------------------------------------------------
// talking to children
// ---------------------------------------------------------------------------------------------

struct BatchEnd {
    /// verdict per record id
    verdicts: HashMap<u32, Value>,
    /// id of the record the child died on (no verdict), with how it died
    died_on: Option<(u32, ChildEnd, String)>,
    timeout: bool,
}

fn child_args(ctx: &Ctx, extra: &[&str]) -> Vec<String> {
    let mut a = vec!["child".to_string(), "c08".to_string()];
    for e in extra {
        a.push(e.to_string());
    }
    let _ = ctx;
    a
}

fn mem_limit(ctx: &Ctx) -> u64 {
    // ASan needs terabytes of shadow address space
    if ctx.variant == "asan" { 0 } else { CHILD_AS_LIMIT }
}

fn run_batch(ctx: &Ctx, recs: &[&Rec], extra: &[&str], timeout: Duration) -> BatchEnd {
    let mut input = Vec::new();
    for r in recs {
        r.encode(&mut input);
    }
    let res = run_self(&child_args(ctx, extra), &input, timeout, mem_limit(ctx));
    let mut verdicts = HashMap::new();
    let mut last_begun: Option<u32> = None;
    for line in String::from_utf8_lossy(&res.stdout).lines() {
        if let Some(id) = line.strip_prefix("B ") {
            last_begun = id.trim().parse().ok();
        } else if let Some(rest) = line.strip_prefix("E ") {
            if let Some((id, js)) = rest.split_once(' ') {
                if let (Ok(id), Ok(v)) = (id.parse::<u32>(), serde_json::from_str::<Value>(js)) {
                    verdicts.insert(id, v);
                    if last_begun == Some(id) {
                        last_begun = None;
                    }
                }
            }
        }
    }
    let timeout_hit = matches!(res.end, ChildEnd::Timeout);
    let died_on = match (&res.end, last_begun) {
        (ChildEnd::Exit(0), None) => None,
        // exit 3: the child left after reporting a cpu-budget verdict
        (ChildEnd::Exit(3), None) => None,
        (_, Some(id)) => Some((id, res.end, res.stderr)),
        (_, None) => None,
    };
    BatchEnd { verdicts, died_on, timeout: timeout_hit }
}

#[derive(Debug, Clone, PartialEq, Eq)]
enum Death {
    StackOverflow,
    AllocFail(u64),
    Signal(i32),
    Exit(i32),
    Timeout,
}

fn classify_death(end: &ChildEnd, stderr: &str) -> Death {
    if stderr.contains("has overflowed its stack") || stderr.contains("AddressSanitizer: stack-overflow") {
        return Death::StackOverflow;
    }
    if let Some(p) = stderr.find("memory allocation of ") {
        let n: u64 = stderr[p + 21..].chars().take_while(|c| c.is_ascii_digit()).collect::<String>().parse().unwrap_or(0);
        return Death::AllocFail(n);
    }
    match end {
        ChildEnd::Signal(s) => Death::Signal(*s),
        ChildEnd::Exit(c) => Death::Exit(*c),
        ChildEnd::Timeout => Death::Timeout,
    }
}

struct Trace {
    stage: String,
    kind: String,
    verdict: Option<Value>,
    death: Option<Death>,
    site: Option<String>,
    stderr_tail: String,
    stderr_full: String,
}

/// Re-runs one record alone in a tracing child (stage markers, allocation site backtrace).
fn trace_one(ctx: &Ctx, rec: &Rec, stack8: bool) -> Trace {
    let mut r = rec.clone();
    r.id = 0;
    let mut input = Vec::new();
    r.encode(&mut input);
    let mut extra = vec!["--trace", "--cpu-limit-ms", "3000"];
    if stack8 {
        extra.push("--stack8");
    }
    let res = run_self(&child_args(ctx, &extra), &input, Duration::from_secs(120), mem_limit(ctx));
    let out = String::from_utf8_lossy(&res.stdout).into_owned();
    let mut stage = String::new();
    let mut kind = String::new();
    let mut verdict = None;
    for line in out.lines() {
        if let Some(s) = line.strip_prefix("S ") {
            stage = s.trim().to_string();
        } else if let Some(k) = line.strip_prefix("K ") {
            kind = k.trim().to_string();
        } else if let Some(rest) = line.strip_prefix("E 0 ") {
            verdict = serde_json::from_str::<Value>(rest).ok();
        }
    }
    let site = res.stderr.lines().rev().find(|l| l.starts_with("C08-ALLOC-REFUSED ")).and_then(|l| l.split_once(" site=").map(|(_, s)| s.trim().to_string()));
    let death = if verdict.is_none() { Some(classify_death(&res.end, &res.stderr)) } else { None };
    let tail: String = res.stderr.lines().filter(|l| !l.trim().is_empty()).rev().take(6).collect::<Vec<_>>().into_iter().rev().collect::<Vec<_>>().join(" / ");
    Trace { stage, kind, verdict, death, site, stderr_tail: tail.chars().take(600).collect(), stderr_full: res.stderr }
}

// ---------------------------------------------------------------------------------------------
// evaluation
// ---------------------------------------------------------------------------------------------

struct Shared {
    /// how many trace re-runs were spent per provisional key
    traced: Mutex<HashMap<String, u32>>,
    /// allocation call path (return addresses) → symbolised site, filled by tracing children
    sites: Mutex<HashMap<String, String>>,
}

/// Symbolised site of an over-budget / refused request with call path `bt` (cached; resolved by re-running `rec` in a tracing child).
fn resolve_site(ctx: &Ctx, sh: &Shared, o: &mut Outcome, bt: &str, rec: &Rec) -> String {
    if let Some(s) = sh.sites.lock().unwrap().get(bt) {
        return s.clone();
    }
    let t = trace_one(ctx, rec, false);
    o.note_add("trace_reruns", 1);
    let site = t.verdict.as_ref().and_then(|v| v["site"].as_str().map(|s| s.to_string())).or(t.site).unwrap_or_else(|| "?".into());
    if site != "?" {
        sh.sites.lock().unwrap().insert(bt.to_string(), site.clone());
    }
    site
}

fn short_site(site: &str) -> String {
    // "scylla_cql::frame::response::result::deser_col_specs_generic|alloc..." → "result::deser_col_specs_generic"
    let first = site.split('|').next().unwrap_or(site);
    if first.starts_with('<') {
        return first.to_string();
    }
    let segs: Vec<&str> = first.split("::").collect();
    let n = segs.len();
    if n >= 2 { format!("{}::{}", segs[n - 2], segs[n - 1]) } else { first.to_string() }
}

fn norm_digits(s: &str) -> String {
    let mut out = String::new();
    let mut in_num = false;
    for c in s.chars() {
        if c.is_ascii_digit() {
            if !in_num {
                out.push('#');
            }
            in_num = true;
        } else {
            in_num = false;
            out.push(c);
        }
    }
    out.chars().take(80).collect()
}

fn strip_repo_path(loc: &str) -> String {
    // ".../scylla-cql-core/src/frame/types.rs:123" → "scylla-cql-core/src/frame/types.rs"
    let file = loc.rsplit_once(':').map(|(f, _)| f).unwrap_or(loc);
    for anchor in ["scylla-cql-core/", "scylla-cql/", "scylla/src/", "scylla-macros/"] {
        if let Some(p) = file.find(anchor) {
            return file[p..].to_string();
        }
    }
    if let Some(p) = file.find("/registry/src/") {
        let rest = &file[p + 14..];
        return rest.split_once('/').map(|(_, r)| r.to_string()).unwrap_or_else(|| rest.to_string());
    }
    if let Some(p) = file.find("/library/") {
        return file[p + 1..].to_string();
    }
    file.to_string()
}

fn want_trace(sh: &Shared, key: &str, max: u32) -> bool {
    let mut g = sh.traced.lock().unwrap();
    let n = g.entry(key.to_string()).or_insert(0);
    if *n >= max {
        return false;
    }
    *n += 1;
    true
}

/// Does the (uncompressed) input carry a type class string, i.e. is the custom-type parser involved?
fn has_class_string(it: &Item) -> bool {
    let frame = &it.rec.frame;
    let has = |b: &[u8]| b.windows(5).any(|w| w == b"Type(");
    if has(frame) {
        return true;
    }
    if frame.len() > 9 && frame[1] & 1 != 0 {
        if let Some(c) = gens::comp_of(it.rec.comp) {
            if let Ok(body) = wframe::decompress(c, &frame[9..]) {
                return has(&body);
            }
        }
    }
    false
}

/// What a non-terminating decode is attributed to: what the INPUT shows if that is telling (a type class string is
/// present: the custom-type parser), else the generator's label. Deliberately independent of which generator found it.
fn cpu_label(it: &Item) -> String {
    if has_class_string(it) { "custom-type-string".to_string() } else { root_label(it) }
}

/// generator label → the part that names a root cause (no values, no depths)
fn root_label(it: &Item) -> String {
    let l = it.label.split('=').next().unwrap_or(&it.label);
    l.to_string()
}

fn sig_kind(stage: &str, kind: &str, it: &Item) -> String {
    match stage {
        // before the message body is looked at, the response kind plays no role
        "frame-header" => "frame".to_string(),
        "tablet-payload" => "payload".to_string(),
        "body-ext" => match it.rec.comp {
            1 => "lz4".to_string(),
            2 => "snappy".to_string(),
            _ => "uncompressed".to_string(),
        },
        _ => kind.to_string(),
    }
}

fn describe(it: &Item) -> String {
    format!(
        "input: {} bytes, generator {} [{}], base {}, features {:#x}, compression {}, cached metadata {}",
        it.rec.frame.len(),
        it.genc,
        it.label,
        it.kind,
        it.rec.feat,
        it.rec.comp,
        it.rec.cached
    )
}

/// panic / cpu / over-budget verdicts written by the batch child itself
fn report_verdict(ctx: &Ctx, sh: &Shared, o: &mut Outcome, it: &Item, v: &Value) {
    let stage = v["stage"].as_str().unwrap_or("?").to_string();
    let kind = sig_kind(&stage, v["kind"].as_str().unwrap_or("?"), it);
    let replay = replay_json(it);
    let input_len = it.rec.frame.len();
    let r = v["r"].as_str().unwrap_or("?");
    if r == "panic" {
        let loc = v["loc"].as_str().unwrap_or("?");
        let msg = v["panic"].as_str().unwrap_or("?");
        o.class("crash:panic");
        // one root cause shows up under every response kind and every row target: key by stage family + site + message
        let fam = if stage.starts_with("rows<") { "rows" } else { stage.as_str() };
        o.violation(
            format!("{fam}:panic@{}:{}", strip_repo_path(loc), norm_digits(msg)),
            format!("panic while decoding (stage {stage}) at {loc}: {msg}; {}", describe(it)),
            replay,
        );
    } else if r == "cpu" {
        o.class("crash:cpu-budget");
        o.violation(
            format!("{stage}:{kind}:{}:cpu-budget", cpu_label(it)),
            format!(
                "decoding did not finish: the decode thread had used {} ms of CPU time when it was stopped (limit {} ms) in stage {stage}; {}",
                v["cpu_us"].as_u64().unwrap_or(0) / 1000,
                child::CPU_LIMIT.as_millis(),
                describe(it)
            ),
            replay,
        );
    } else {
        let site = match v["site"].as_str() {
            Some(s) => s.to_string(),
            None => resolve_site(ctx, sh, o, v["bt"].as_str().unwrap_or(""), &it.rec),
        };
        o.class("crash:alloc-budget");
        o.violation(
            format!("{stage}:{kind}:alloc@{}", short_site(&site)),
            format!(
                "allocation out of proportion: peak live {} bytes, largest single request {} bytes, budget {} bytes for a {input_len}-byte input; requested at {site} in stage {stage}; the call then returned {}; {}",
                v["pk"],
                v["mx"],
                child::budget(input_len),
                v["r"],
                describe(it)
            ),
            replay,
        );
    }
}

/// The batch child died on this record.
fn report_death(ctx: &Ctx, sh: &Shared, o: &mut Outcome, it: &Item, d: &Death, stderr: &str) {
    let replay = replay_json(it);
    let input_len = it.rec.frame.len();
    match d {
        Death::AllocFail(n) => {
            // the allocator hook wrote context and site before refusing
            let line = stderr.lines().rev().find(|l| l.starts_with("C08-ALLOC-REFUSED ")).unwrap_or("");
            let field = |k: &str| line.split(' ').find_map(|p| p.strip_prefix(k)).unwrap_or("");
            let ctxw: u32 = field("ctx=").parse().unwrap_or(0);
            let site = resolve_site(ctx, sh, o, field("bt="), &it.rec);
            let (stage, kind) = child::ctx_names(ctxw);
            let kind = sig_kind(&stage, kind, it);
            o.class("crash:alloc-abort");
            o.violation(
                format!("{stage}:{kind}:alloc@{}", short_site(&site)),
                format!(
                    "process aborted: allocation of {n} bytes failed (live-byte ceiling 3 GiB, address space 4 GiB) at {site} in stage {stage}; budget for this input is {} bytes; {}",
                    child::budget(input_len),
                    describe(it)
                ),
                replay,
            );
        }
        _ => {
            // where it happened is only known from a tracing re-run; spend few of them per kind of input
            let prov = format!("{d:?}|{}|{}|{}|{}", it.genc, it.kind, root_label(it), it.fine);
            o.note_add("deaths_needing_rerun", 1);
            if !want_trace(sh, &prov, if it.genc == "random" { 8 } else { 2 }) {
                return;
            }
            let t = trace_one(ctx, &it.rec, false);
            o.note_add("trace_reruns", 1);
            let stage = if t.stage.is_empty() { "?".to_string() } else { t.stage.clone() };
            let kind = sig_kind(&stage, if t.kind.is_empty() { "?" } else { &t.kind }, it);
            match (&t.death, d) {
                (Some(Death::StackOverflow), _) => {
                    let t8 = trace_one(ctx, &it.rec, true);
                    let also8 = matches!(t8.death, Some(Death::StackOverflow));
                    let class = if also8 { "stack-overflow-8MiB" } else { "stack-overflow-2MiB" };
                    o.class(&format!("crash:{class}"));
                    // whether the class string is closed plays no role for the recursion depth
                    let what = root_label(it).replace("custom-type-unclosed-paren", "custom-type-nesting");
                    o.violation(
                        format!("{stage}:{kind}:{what}:{class}"),
                        format!(
                            "stack overflow while decoding (stage {stage}) on a 2 MiB thread (tokio worker size){}; {}; child stderr: {}",
                            if also8 { " and again on an 8 MiB thread (main-thread size)" } else { "; an 8 MiB thread survives" },
                            describe(it),
                            t.stderr_tail
                        ),
                        replay,
                    );
                }
                (Some(td), _) => {
                    o.class("crash:signal");
                    let how = match td {
                        Death::Signal(s) => format!("signal-{s}"),
                        Death::Exit(c) => format!("exit-{c}"),
                        Death::AllocFail(_) => "alloc".to_string(),
                        _ => "died".to_string(),
                    };
                    o.violation(
                        format!("{stage}:{kind}:{}:died-{how}", root_label(it)),
                        format!("child process died ({td:?}) in stage {stage}; {}; child stderr: {}", describe(it), t.stderr_tail),
                        replay,
                    );
                }
                (None, _) => o.inconclusive(format!("a batch child died ({d:?}) on a record that decodes normally when re-run alone ({})", it.label)),
            }
        }
    }
}

fn eval_oracle(ctx: &Ctx, o: &mut Outcome, it: &Item, orc: &Oracle, v: &Value) {
    let replay = replay_json(it);
    let case = &*orc.case_name;
    let kind = it.kind;
    if v["r"] != "ok" {
        o.violation(
            format!("roundtrip:{kind}:decode-error"),
            format!("well-formed frame '{case}' was refused at stage {} (features {:#x}, compression {}, split {:#x})", v["es"], it.rec.feat, it.rec.comp, it.rec.split),
            replay,
        );
        return;
    }
    let want = summary::hash_text(&orc.expect.summary).to_string();
    if v["h"].as_str() != Some(&want) {
        let sig = format!("roundtrip:{kind}:content-differs");
        if o.violations.iter().any(|x| x.signature == sig) {
            return;
        }
        // the decoded text for the report (a tracing child supplies it when the verdict at hand is a terse one)
        let got = match v["sum"].as_str() {
            Some(s) => s.to_string(),
            None => trace_one(ctx, &it.rec, false).verdict.as_ref().and_then(|v| v["sum"].as_str()).unwrap_or("<not available>").to_string(),
        };
        o.violation(
            sig,
            format!(
                "well-formed frame '{case}' decoded to different content (features {:#x}, compression {}, split {:#x}); expected:\n{}\ndecoded:\n{}",
                it.rec.feat, it.rec.comp, it.rec.split, orc.expect.summary, got
            ),
            replay,
        );
        return;
    }
    if let Some(er) = &orc.expect.rows {
        let empty = vec![];
        let ts = v["t"].as_array().unwrap_or(&empty);
        for t in ts {
            let name = t[0].as_str().unwrap_or("?");
            let tc = t[1].as_bool().unwrap_or(false);
            if !tc {
                if orc.must.iter().any(|m| *m == name) {
                    o.violation(
                        format!("roundtrip:{kind}:typecheck-refused<{name}>"),
                        format!("target {name} must pass type_check on '{case}' but was refused"),
                        replay.clone(),
                    );
                }
                continue;
            }
            o.class(&format!("target-decoded:{name}"));
            let n = t[2].as_u64().unwrap_or(0);
            let err = t[3].as_bool().unwrap_or(false);
            let h = t[5].as_str().unwrap_or("");
            let want_h = if name == "Raw" { er.raw_hash.to_string() } else { er.rows_hash.to_string() };
            let must = orc.must.iter().any(|m| *m == name);
            // derived targets whose attributes relax the type check render their own view of a UDT (an absent or
            // empty value becomes all-missing fields): compared only where the case names them, otherwise they are
            // run for "a value or an error, never a crash"
            if name.starts_with("Walk(") {
                o.class("observed:lazy-collection-walked(not compared)");
                continue;
            }
            if (name.contains("UdtLoose") || name.contains("UdtOrdered")) && !must {
                o.class("observed:loose-derived-target-decoded(not asserted)");
                continue;
            }
            if err && !must {
                // e.g. a non-Option target meeting a null: refusing the row is legitimate
                o.class("observed:typed-target-refused-a-wellformed-row(not asserted)");
                continue;
            }
            let opaque = name != "Raw" && er.rows_text.contains(summary::V_OPAQUE);
            if err || n != er.nrows || (h != want_h && !opaque) {
                o.violation(
                    format!("roundtrip:{kind}:rows-differ<{name}>"),
                    format!(
                        "target {name} on well-formed '{case}': {n} rows decoded (error: {err}), expected {} rows:\n{}",
                        er.nrows,
                        er.rows_text.chars().take(1500).collect::<String>()
                    ),
                    replay.clone(),
                );
            }
        }
        for m in orc.must.iter() {
            if !ts.iter().any(|t| t[0].as_str() == Some(m)) {
                o.inconclusive(format!("target {m} not run by the child"));
            }
        }
    }
}

fn eval_clean(ctx: &Ctx, sh: &Shared, o: &mut Outcome, it: &Item, v: &Value) {
    let key = fw::hash64(&[&it.rec.frame[..], &[it.rec.feat, it.rec.comp, it.rec.cached], &it.rec.split.to_le_bytes()[..]].concat());
    // non-trivial: the input went past the 9-byte header check
    o.case(key, v["es"].as_str() != Some("frame-header"));
    o.class(&format!("gen:{}", it.genc));
    eval_clean_inner(ctx, sh, o, it, v);
}

fn eval_clean_inner(ctx: &Ctx, sh: &Shared, o: &mut Outcome, it: &Item, v: &Value) {
    let r = v["r"].as_str().unwrap_or("?");
    // (a canary that merely ran into the batch child's low CPU threshold goes through the confirmation path below)
    if let Some(c) = it.canary.filter(|c| !(r == "cpu" && *c != "cpu")) {
        let seen = match c {
            "panic" => r == "panic",
            "cpu" => r == "cpu",
            "over-budget" => v["ob"] == true,
            _ => false,
        };
        if seen {
            o.class(&format!("sentinel:{c}-detected"));
        } else {
            o.inconclusive(format!("sentinel canary '{c}' was not detected (verdict {v})"));
        }
        return;
    }
    match r {
        "panic" => {
            o.note_add("bad_records:panic", 1);
            report_verdict(ctx, sh, o, it, v);
            return;
        }
        "cpu" => {
            // A batch child only SUSPECTS (low CPU threshold). A child with the full limit decides. Once a kind of
            // input has been confirmed as non-terminating a few times, further suspects of that kind are only counted.
            o.class("suspect:slow-record");
            let prov = format!("cpu|{}|{}|{}", it.genc, it.kind, cpu_label(it));
            let confirmed_before = sh.traced.lock().unwrap().get(&prov).copied().unwrap_or(0);
            if confirmed_before >= if it.genc == "random" { 3 } else { 2 } {
                o.note_add("suspects_not_individually_confirmed", 1);
                return;
            }
            let t = trace_one(ctx, &it.rec, false);
            o.note_add("trace_reruns", 1);
            match t.verdict {
                Some(tv) if tv["r"] == "cpu" => {
                    *sh.traced.lock().unwrap().entry(prov).or_insert(0) += 1;
                    o.note_add("bad_records:cpu", 1);
                    report_verdict(ctx, sh, o, it, &tv);
                }
                Some(tv) => {
                    // merely slow (machine load, page faults): judge it by what the confirming child saw
                    o.class("observed:suspect-finished-within-cpu-limit");
                    eval_clean_inner(ctx, sh, o, it, &tv);
                }
                None => match t.death {
                    Some(d) => report_death(ctx, sh, o, it, &d, &t.stderr_full),
                    None => o.inconclusive("a confirming child produced neither verdict nor death"),
                },
            }
            return;
        }
        "ok" => {
            o.class("outcome:decoded");
            o.class(&format!("decoded:{}", it.kind));
        }
        _ => {
            o.class("outcome:error-returned");
            o.class(&format!("error-at:{}", v["es"].as_str().unwrap_or("?")));
        }
    }
    if v["ob"] == true || v["rf"].as_u64().unwrap_or(0) > 0 {
        o.note_add("bad_records:over-budget", 1);
        report_verdict(ctx, sh, o, it, v);
        return;
    }
    // step budget: a row of >= 1 column consumes >= 4 input bytes
    if let Some(ts) = v["t"].as_array() {
        for t in ts {
            if t[4] == true {
                if v["ncols"].as_u64().unwrap_or(0) > 0 {
                    o.violation(
                        format!("rows<{}>:result-rows:more-rows-than-input-bytes", t[0].as_str().unwrap_or("?")),
                        format!("target {} yielded more Ok rows ({}) than the input has bytes ({}) with {} columns", t[0], t[2], it.rec.frame.len(), v["ncols"]),
                        replay_json(it),
                    );
                } else {
                    // zero columns: rows_count is not bounded by the input; the iterator itself allocates nothing (noted only)
                    o.class("observed:zero-column-rows-count-exceeds-input(not asserted)");
                }
                break;
            }
        }
    }
    if let Some(orc) = &it.oracle {
        eval_oracle(ctx, o, it, orc, v);
        o.class("oracle:roundtrip-compared");
    }
    let pk = v["pk"].as_u64().unwrap_or(0);
    let cur = o.notes.get("max_peak_live_bytes_within_budget").and_then(|x| x.as_u64()).unwrap_or(0);
    if pk > cur {
        o.note("max_peak_live_bytes_within_budget", json!(pk));
    }
}

/// Runs all items through children, restarting after every death, and evaluates them.
fn run_items(ctx: &Ctx, sh: &Shared, items: &mut [Item], o: &mut Outcome) {
    for (i, it) in items.iter_mut().enumerate() {
        it.rec.id = i as u32;
    }
    let mut start = 0usize;
    while start < items.len() {
        let end = (start + BATCH).min(items.len());
        let recs: Vec<&Rec> = items[start..end].iter().map(|i| &i.rec).collect();
        let slow = if matches!(ctx.variant.as_str(), "asan" | "tsan") { 10 } else { 1 };
        let suspect_ms = (child::CPU_SUSPECT_MS * slow).to_string();
        let extra: Vec<&str> = vec!["--cpu-limit-ms", &suspect_ms];
        let tb = std::time::Instant::now();
        let be = run_batch(ctx, &recs, &extra, Duration::from_secs(600));
        if std::env::var_os("C08_VERBOSE").map(|v| v == "2").unwrap_or(false) {
            eprintln!(
                "  [batch {}..{}] {:.2}s verdicts={} died_on={:?}",
                start,
                end,
                tb.elapsed().as_secs_f64(),
                be.verdicts.len(),
                be.died_on.as_ref().map(|(i, e, _)| (*i, format!("{e:?}")))
            );
        }
        let mut next = end;
        if let Some((id, _, _)) = &be.died_on {
            next = *id as usize + 1;
        } else {
            // a child that left after a cpu verdict: continue after the last verdict it wrote
            let maxv = be.verdicts.keys().copied().max().map(|m| m as usize + 1).unwrap_or(start);
            if maxv < end && be.verdicts.get(&((maxv.max(1) - 1) as u32)).map(|v| v["r"] == "cpu").unwrap_or(false) {
                next = maxv;
            } else if maxv < end && !be.timeout {
                // no verdict and no death marker: harness-level trouble with this batch
                o.inconclusive(format!("a batch child ended without covering its records ({} of {})", maxv - start, end - start));
                next = end;
            }
        }
        for idx in start..next.min(end) {
            let it = items[idx].clone();
            if let Some(v) = be.verdicts.get(&(idx as u32)) {
                eval_clean(ctx, sh, o, &it, v);
            } else if let Some((id, endk, stderr)) = &be.died_on {
                if *id as usize == idx {
                    let d = classify_death(endk, stderr);
                    let key = fw::hash64(&it.rec.frame);
                    o.case(key, true);
                    o.class(&format!("gen:{}", it.genc));
                    if let Some(c) = it.canary {
                        let seen = matches!((c, &d), ("abort", Death::Signal(6)) | ("stack-overflow", Death::StackOverflow) | ("alloc-abort", Death::AllocFail(_)));
                        if seen {
                            o.class(&format!("sentinel:{c}-detected"));
                        } else {
                            o.inconclusive(format!("sentinel canary '{c}' ended as {d:?}"));
                        }
                        continue;
                    }
                    if d == Death::Timeout {
                        o.inconclusive(format!("watchdog: a batch child exceeded its wall-clock limit on a record ({}); not a verdict", it.label));
                        continue;
                    }
                    o.note_add(
                        match &d {
                            Death::StackOverflow => "bad_records:stack-overflow",
                            Death::AllocFail(_) => "bad_records:alloc-abort",
                            _ => "bad_records:died",
                        },
                        1,
                    );
                    report_death(ctx, sh, o, &it, &d, stderr);
                }
            }
        }
        start = next.max(start + 1);
    }
}

// ---------------------------------------------------------------------------------------------
// job list
// ---------------------------------------------------------------------------------------------

fn oracle_of(c: &Case, frame: &[u8]) -> Option<Oracle> {
    if !c.oracle {
        return None;
    }
    let body_len = frame.len() - 9;
    Some(Oracle { expect: Arc::new(expect::expect(c, frame[1], body_len)), must: Arc::new(c.must_typecheck.clone()), case_name: Arc::new(c.name.clone()) })
}

fn rec(frame: Vec<u8>, feat: u8, comp: u8, split: u32, cached: u8) -> Rec {
    Rec { id: 0, feat, comp, split, cached, frame }
}

/// all feature sets under which `c` means the same thing
fn feats_of(c: &Case) -> Vec<u8> {
    (0u8..16).filter(|f| f & !c.feat_free == c.feat & !c.feat_free).collect()
}

fn gen_roundtrip(cases: &[Case], rng: &mut Rng, exhaustive_splits: usize) -> Vec<Item> {
    let mut v = Vec::new();
    for (ci, c) in cases.iter().enumerate() {
        for comp in 0u8..3 {
            let frame = c.frame(gens::comp_of(comp));
            let orc = oracle_of(c, &frame);
            for feat in feats_of(c) {
                let mut it = item(rec(frame.clone(), feat, comp, 0, c.cached), "wellformed", format!("case:{}", c.name), c.kind);
                // under another (equivalent) feature set the expectation is the same
                it.oracle = orc.clone();
                v.push(it);
            }
            // a compressed frame must also decode when a DIFFERENT algorithm... is not negotiated: that is an error, not a crash
            if comp != 0 {
                let other = 3 - comp;
                v.push(item(rec(frame.clone(), c.feat, other, 0, c.cached), "wellformed", format!("case:{}:wrong-algorithm", c.name), c.kind));
                v.push(item(rec(frame.clone(), c.feat, 0, 0, c.cached), "wellformed", format!("case:{}:compression-not-negotiated", c.name), c.kind));
            }
            // read splitting: every offset for the first cases, a few offsets for the rest
            let splits: Vec<u32> = if ci < exhaustive_splits && comp == 0 {
                (1..frame.len() as u32).collect()
            } else {
                let mut s = vec![1, 8, 9, 10, 0x8000_0001, 0x8000_0007];
                s.push(1 + rng.below(frame.len() as u64 - 1) as u32);
                s
            };
            for sp in splits {
                let mut it = item(rec(frame.clone(), c.feat, comp, sp, c.cached), "wellformed", format!("case:{}:split", c.name), c.kind);
                it.oracle = orc.clone();
                v.push(it);
            }
        }
    }
    v
}

fn gen_truncations(c: &Case, comps: &[u8]) -> Vec<Item> {
    let mut v = Vec::new();
    for &comp in comps {
        let frame = c.frame(gens::comp_of(comp));
        for cut in 0..frame.len() {
            // (1) the stream ends early: header still announces the full length
            v.push(item(rec(frame[..cut].to_vec(), c.feat, comp, 0, c.cached), "truncation", "stream-cut", c.kind));
            // (2) a shorter body with a consistent header
            if cut >= 9 {
                let mut f = frame[..cut].to_vec();
                f[5..9].copy_from_slice(&((cut - 9) as u32).to_be_bytes());
                v.push(item(rec(f, c.feat, comp, 0, c.cached), "truncation", "body-cut", c.kind));
            }
        }
    }
    v
}

fn gen_field_mutations(c: &Case, feats: &[u8]) -> Vec<Item> {
    let mut v = Vec::new();
    let frame = c.frame(None);
    let env_len = c.envelope_len();
    let mut fields: Vec<gens::Field> = Vec::new();
    // frame header fields
    fields.push(gens::Field { off: 0, width: 1, name: "header.version".into(), class: FieldClass::Scalar });
    fields.push(gens::Field { off: 1, width: 1, name: "header.flags".into(), class: FieldClass::Scalar });
    fields.push(gens::Field { off: 4, width: 1, name: "header.opcode".into(), class: FieldClass::Scalar });
    fields.push(gens::Field { off: 5, width: 4, name: "header.length".into(), class: FieldClass::Len });
    let (ef, _) = gens::envelope_fields(&c.env);
    for mut f in ef {
        f.off += 9;
        fields.push(f);
    }
    if let CaseBody::Wire(r) = &c.body {
        let (bf, _) = gens::field_map(r);
        for mut f in bf {
            f.off += 9 + env_len;
            fields.push(f);
        }
    }
    for f in &fields {
        let cur = &frame[f.off..f.off + f.width];
        let mut vals = gens::mutation_values(f, cur);
        if f.name == "header.flags" {
            vals = (0..8).map(|b| (format!("flip-bit{b}"), vec![cur[0] ^ (1 << b)])).collect();
            vals.push(("0xff".into(), vec![0xff]));
        }
        if f.name == "header.opcode" {
            vals = (0u8..=0x11).chain([0x7f, 0x80, 0xff]).filter(|o| *o != cur[0]).map(|o| (format!("opcode={o:#x}"), vec![o])).collect();
        }
        if f.name == "header.version" {
            vals = [0x04u8, 0x83, 0x85, 0x03, 0x00, 0xff, 0x80].iter().map(|x| (format!("{x:#x}"), vec![*x])).collect();
        }
        for (label, bytes) in vals {
            let mut fr = frame.clone();
            fr[f.off..f.off + f.width].copy_from_slice(&bytes);
            for &feat in feats {
                // header flag flips are also tried with a compression negotiated (bit 0 = compressed body)
                let comps: &[u8] = if f.name == "header.flags" { &[0, 1, 2] } else { &[0] };
                for &comp in comps {
                    v.push(item(rec(fr.clone(), feat, comp, 0, c.cached), "field-mutation", format!("{}={}", f.name, label), c.kind));
                }
            }
        }
    }
    v
}

/// `n` random pairs of simultaneous field mutations of case `c`
fn gen_field_mutation_pairs(c: &Case, rng: &mut Rng, n: usize) -> Vec<Item> {
    let mut v = Vec::new();
    let CaseBody::Wire(r) = &c.body else { return v };
    let frame = c.frame(None);
    let base = 9 + c.envelope_len();
    let (fields, _) = gens::field_map(r);
    if fields.len() < 2 {
        return v;
    }
    let feats = feats_of(c);
    for _ in 0..n {
        let a = rng.pick(&fields).clone();
        let b = rng.pick(&fields).clone();
        if a.off == b.off {
            continue;
        }
        let mut fr = frame.clone();
        let mut label = String::new();
        for f in [&a, &b] {
            let cur = fr[base + f.off..base + f.off + f.width].to_vec();
            let vals = gens::mutation_values(f, &cur);
            if vals.is_empty() {
                continue;
            }
            let (l, bytes) = rng.pick(&vals).clone();
            fr[base + f.off..base + f.off + f.width].copy_from_slice(&bytes);
            label = if label.is_empty() { format!("{}={}", f.name, l) } else { format!("{label}+{}", f.name) };
        }
        v.push(item(rec(fr, *rng.pick(&feats), 0, 0, c.cached), "field-mutation", label, c.kind));
    }
    v
}

fn gen_deep(quick: bool) -> Vec<Item> {
    let mut v = Vec::new();
    let depths: &[usize] = &[10, 1_000, 20_000, 100_000];
    let mut ds: Vec<Deep> = Vec::new();
    for &depth in depths {
        for wrap in ["list", "set", "map", "tuple1", "udt1"] {
            ds.push(Deep::Type { wrap, depth, with_value: false, prepared: false });
        }
        ds.push(Deep::Type { wrap: "list", depth, with_value: false, prepared: true });
    }
    // small frames in optimised builds: make sure the main-thread size is exceeded there too
    ds.push(Deep::Type { wrap: "list", depth: 1_000_000, with_value: false, prepared: false });
    // values nested as deep as a type that still parses
    for depth in [10usize, 200, 1_000, 3_000] {
        ds.push(Deep::Type { wrap: "list", depth, with_value: true, prepared: false });
        ds.push(Deep::Type { wrap: "map", depth, with_value: true, prepared: false });
        ds.push(Deep::Type { wrap: "tuple1", depth, with_value: true, prepared: false });
    }
    // 65535 declared elements per level: 4 (tuple) / 13 (udt) input bytes buy megabytes
    for depth in [1usize, 3, 10, 100, 1_000] {
        ds.push(Deep::Type { wrap: "tuple65535", depth, with_value: false, prepared: false });
        ds.push(Deep::Type { wrap: "udt65535", depth, with_value: false, prepared: false });
        ds.push(Deep::Type { wrap: "tuple65535", depth, with_value: false, prepared: true });
    }
    // custom type strings: a [string] carries at most 65535 bytes, i.e. ~8000 levels of "SetType("
    for depth in [10usize, 1_000, 4_000, 8_000] {
        for name in ["SetType", "ListType", "FrozenType", "TupleType"] {
            ds.push(Deep::Custom { name, depth, closed: false, prepared: false });
        }
        ds.push(Deep::Custom { name: "ListType", depth: depth.min(6_000), closed: true, prepared: false });
        ds.push(Deep::Custom { name: "ListType", depth: depth.min(6_000), closed: true, prepared: true });
        ds.push(Deep::Custom { name: "SetType", depth, closed: false, prepared: true });
        ds.push(Deep::Custom {
            name: "org.apache.cassandra.db.marshal.MapType(Int32Type,org.apache.cassandra.db.marshal.ListType",
            depth: depth.min(600),
            closed: false,
            prepared: false,
        });
    }
    for depth in [4usize, 16, 24, 32, 64, 200] {
        ds.push(Deep::CustomReparse { depth });
    }
    let _ = quick;
    for d in ds {
        let f = d.frame();
        let label = d.label();
        let mut it = item(rec(f, 0, 0, 0, 0), "deep-nesting", format!("{label}/depth={}", d.depth()), "result-rows");
        // the signature names the root cause, not the wrapper type or the depth that happened to be first
        it.label = d.root().to_string();
        it.fine = label;
        it.regen = Some(deep_to_json(&d));
        v.push(it);
    }
    v
}

fn gen_liars() -> Vec<Item> {
    gens::length_liars().into_iter().map(|(label, kind, comp, f)| item(rec(f, 0, comp, 0, 0), "length", label, kind)).collect()
}

/// Custom-type class strings whose identifiers (hex-encoded UDT name / field names, type names,
/// vector dimensions) are replaced by hostile ones: multi-byte alphanumerics with even and odd byte
/// lengths, non-hex ASCII, empty, odd-length hex, digits of other scripts, overlong numbers.
fn gen_class_string_identifiers() -> Vec<Item> {
    const P: &str = "org.apache.cassandra.db.marshal.";
    let idents = ["\u{4e2d}a", "a\u{e9}b", "6\u{661}6", "\u{e9}", "\u{e9}\u{e9}", "zz", "6", "616", "", "6g", "\u{666}\u{666}", "\u{ff41}\u{ff42}", "61\u{0}", "6 1", "99999999999999999999", "-1", "0x10"];
    let mut v = Vec::new();
    for id in idents {
        let shapes = [
            format!("{P}UserType(ks,{id},61:{P}Int32Type)"),
            format!("{P}UserType(ks,6162,{id}:{P}Int32Type)"),
            format!("{P}UserType(ks,6162,61:{P}Int32Type,{id}:{P}UTF8Type)"),
            format!("{P}UserType({id},6162,61:{P}Int32Type)"),
            format!("{P}VectorType({P}Int32Type , {id})"),
            format!("{P}{id}"),
            format!("{P}ListType({id})"),
            format!("{P}FrozenType({P}UserType(ks,{id},{id}:{P}Int32Type))"),
            format!("{P}MapType({id},{P}Int32Type)"),
            format!("{id}"),
        ];
        for (k, class) in shapes.iter().enumerate() {
            for prepared in [false, true] {
                let frame = if prepared { gens::custom_type_prepared_frame(class) } else { gens::custom_type_frame(class) };
                let mut it = item(rec(frame, 0, 0, 0, 0), "field-mutation", "custom-type-identifier", if prepared { "result-prepared" } else { "result-rows" });
                it.fine = format!("shape{k}:{}", id.escape_unicode());
                v.push(it);
            }
        }
    }
    v
}

/// Nested `VectorType` class strings (fixed-width and variable-width leaves, dimensions at the
/// 16-bit boundary) in a RESULT Rows that also holds ONE non-null cell, so that the per-element
/// width (a product of all inner dimensions) is computed when the cell is read.
fn gen_vector_sizes() -> Vec<Item> {
    const P: &str = "org.apache.cassandra.db.marshal.";
    let mut v = Vec::new();
    for leaf in ["UUIDType", "LongType", "Int32Type", "BooleanType", "DoubleType", "UTF8Type"] {
        for depth in 1usize..=7 {
            for dims in [0u32, 1, 2, 255, 256, 32768, 65535] {
                let mut class = format!("{P}{leaf}");
                for _ in 0..depth {
                    class = format!("{P}VectorType({class} , {dims})");
                }
                for cell_len in [0usize, 3, 16, 64] {
                    let mut w = crate::wire::prim::Writer::new();
                    w.string("ks");
                    w.string("t");
                    w.string("c");
                    w.short(0x0000);
                    w.short(class.len() as u16);
                    w.raw(class.as_bytes());
                    w.int(1);
                    w.int(cell_len as i32);
                    w.raw(&vec![0x01; cell_len]);
                    let frame = gens::plain_frame(Opcode::Result as u8, &gens::result_rows_body(0, 1, &w.buf));
                    let mut it = item(rec(frame, 0, 0, 0, 0), "field-mutation", "vector-nesting-with-a-cell", "result-rows");
                    it.fine = format!("{leaf}/depth={depth}/dims={dims}/cell={cell_len}");
                    v.push(it);
                }
            }
        }
    }
    v
}

fn gen_canaries() -> Vec<Vec<Item>> {
    let mk = |feat: u8, what: &'static str| {
        let mut it = item(rec(vec![0x84, 0, 0, 0, 2, 0, 0, 0, 0], feat, 0, 0, 0), "canary", what, "canary");
        it.canary = Some(what);
        it
    };
    vec![
        vec![mk(0xEF, "panic"), mk(0xEA, "over-budget"), mk(0xEC, "alloc-abort")],
        vec![mk(0xED, "stack-overflow")],
        vec![mk(0xEE, "abort")],
        vec![mk(0xEB, "cpu")],
    ]
}

fn gen_random(cases: &[Case], rng: &mut Rng, n: usize) -> Vec<Item> {
    let mut v = Vec::with_capacity(n);
    let opcodes = [0x00u8, 0x02, 0x03, 0x06, 0x08, 0x0C, 0x0E, 0x10];
    for i in 0..n {
        let feat = (rng.below(16)) as u8;
        let cached = if rng.chance(1, 8) { 1 } else { 0 };
        match i % 5 {
            // nothing but noise, header included (the version byte is kept valid half of the time)
            4 => {
                let n = rng.usize(0, 40);
                let mut f = rng.bytes(n);
                if rng.bool() && !f.is_empty() {
                    f[0] = 0x84;
                }
                v.push(item(rec(f, feat, rng.below(3) as u8, 0, cached), "random", "noise", "random"));
            }
            // 1–4 byte edits of a well-formed frame
            0 | 1 => {
                let mut c = rng.pick(cases);
                if c.name.starts_with("rows/custom") && !rng.chance(1, 8) {
                    c = rng.pick(cases);
                }
                let comp = if rng.chance(1, 6) { 1 + rng.below(2) as u8 } else { 0 };
                let mut f = c.frame(gens::comp_of(comp));
                for _ in 0..rng.usize(1, 4) {
                    let p = rng.below(f.len() as u64) as usize;
                    f[p] = match rng.below(4) {
                        0 => rng.u32() as u8,
                        1 => 0xff,
                        2 => 0,
                        _ => f[p].wrapping_add(1),
                    };
                }
                // keep the header honest half of the time so that the body is reached
                if rng.bool() && f.len() >= 9 {
                    let l = (f.len() - 9) as u32;
                    f[5..9].copy_from_slice(&l.to_be_bytes());
                    f[0] = 0x84;
                }
                v.push(item(rec(f, feat, comp, 0, cached.max(c.cached)), "random", "byte-edits", c.kind));
            }
            // random body under a valid header
            2 => {
                let n = rng.usize(0, 64);
                let mut body = rng.bytes(n);
                let op = *rng.pick(&opcodes);
                if op == 0x08 && body.len() >= 4 && rng.chance(3, 4) {
                    body[..4].copy_from_slice(&(1 + rng.below(5) as i32).to_be_bytes());
                }
                if rng.bool() {
                    // small numbers make counts and lengths plausible
                    for b in body.iter_mut() {
                        if rng.chance(2, 3) {
                            *b &= 0x03;
                        }
                    }
                }
                let flags = if rng.chance(1, 5) { rng.below(16) as u8 } else { 0 };
                let comp = if flags & 1 != 0 { 1 + rng.below(2) as u8 } else { 0 };
                v.push(item(rec(wframe::encode_frame(0x84, flags, rng.u32() as i16, op, &body), feat, comp, 0, cached), "random", "random-body", "random"));
            }
            // splice: prefix of one well-formed frame body + suffix of another
            _ => {
                let a = rng.pick(cases).frame(None);
                let b = rng.pick(cases).frame(None);
                let pa = rng.usize(9, a.len());
                let pb = rng.usize(9, b.len());
                let mut body = a[9..pa].to_vec();
                body.extend_from_slice(&b[pb..]);
                v.push(item(rec(wframe::encode_frame(0x84, a[1], 1, a[4], &body), feat, 0, 0, cached), "random", "splice", "random"));
            }
        }
    }
    v
}

fn gen_rand_wellformed(rng: &mut Rng, n: usize, base: usize) -> Vec<Item> {
    let mut v = Vec::new();
    for i in 0..n {
        let c = gens::rand_case(rng, base + i);
        let comp = rng.below(3) as u8;
        let frame = c.frame(gens::comp_of(comp));
        let split = if rng.chance(1, 3) { 1 + rng.below(frame.len() as u64 - 1) as u32 } else { 0 };
        let mut it = item(rec(frame.clone(), c.feat, comp, split, 0), "wellformed", "random-wellformed", c.kind);
        it.oracle = oracle_of(&c, &frame);
        v.push(it);
    }
    v
}

fn quick_tier(ctx: &Ctx) -> bool {
    ctx.quick()
}

enum Job {
    /// two fields mutated at once (thorough): (case index, shard)
    FieldMut2(usize, u64),
    Canary(usize),
    RoundTrip,
    Trunc(usize),
    FieldMut(usize),
    Deep(usize),
    Liars,
    Random(u64, usize),
    RandWell(u64, usize),
}

/// Field maps must describe the encoder's layout exactly, otherwise "field-aware" is a lie.
fn selfcheck_field_maps(cases: &[Case], o: &mut Outcome) {
    for c in cases {
        if let CaseBody::Wire(r) = &c.body {
            let (fields, end) = gens::field_map(r);
            let body = r.encode_body();
            if end != body.len() || fields.iter().any(|f| f.off + f.width > body.len()) {
                o.inconclusive(format!("field map of case '{}' does not match its encoding ({} vs {} bytes)", c.name, end, body.len()));
            }
        }
        let (_, eend) = gens::envelope_fields(&c.env);
        if eend != c.envelope_len() {
            o.inconclusive(format!("envelope field map of case '{}' is off", c.name));
        }
    }
}

fn declare(o: &mut Outcome, full: bool) {
    for c in ["gen:wellformed", "gen:truncation", "outcome:decoded", "outcome:error-returned", "oracle:roundtrip-compared"] {
        o.require_class(c);
    }
    if full {
        for c in [
            "gen:field-mutation",
            "gen:deep-nesting",
            "gen:length",
            "gen:random",
            "sentinel:panic-detected",
            "sentinel:over-budget-detected",
            "sentinel:alloc-abort-detected",
            "sentinel:stack-overflow-detected",
            "sentinel:abort-detected",
            "sentinel:cpu-detected",
            "target-decoded:Row",
            "target-decoded:Raw",
            "target-decoded:(i32,String)",
            "target-decoded:(Option<Vec<i32>>,)",
            "target-decoded:(map,set,tuple)",
            "target-decoded:(Option<UdtAB>,)",
            "target-decoded:(Option<UdtLoose>,)",
            "target-decoded:(Option<UdtOrdered>,)",
            "target-decoded:Walk(VectorIterator<f32>)",
            "target-decoded:Walk(ListlikeIterator<i32>)",
        ] {
            o.require_class(c);
        }
    }
}

fn samples(o: &mut Outcome) {
    o.sample(json!({"class": "F1-shape", "frame_hex": fw::hex(&gens::plain_frame(Opcode::Result as u8, &gens::result_rows_body(0, i32::MAX, &[]))), "what": "RESULT Rows, flags=0, col_count=i32::MAX, nothing else"}));
    o.sample(json!({"class": "deep-nesting", "what": "RESULT Rows, one column whose type is 0x0020 (list) repeated 20000 times then int", "bytes": 40_050}));
    o.sample(json!({"class": "length", "what": "frame header length=0x7fffffff followed by a 4-byte body"}));
    o.sample(json!({"class": "length", "what": "LZ4 body with uncompressed-length prefix 0x7fffffff and a 6-byte block"}));
    o.sample(json!({"class": "truncation", "what": "every prefix of 'rows/map-set-tuple' with the header length adjusted and not adjusted"}));
    o.sample(json!({"class": "wellformed", "what": "ERROR WRITE_TIMEOUT cl=6 received=1 blockfor=2 write_type=BATCH_LOG, lz4, read split after 11 bytes"}));
}

// ---------------------------------------------------------------------------------------------
// in-process mode (Miri): the non-crashing part of (a)/(b) without children or allocator games
// ---------------------------------------------------------------------------------------------

fn run_in_process(ctx: &Ctx) -> Outcome {
    let mut o = Outcome::new();
    declare(&mut o, false);
    let cases = gens::base_cases();
    // cases that exercise the self-borrowing metadata container (yoke) and every response family
    const PICK: [&str; 12] = [
        "rows/int-text/global",
        "rows/map-set-tuple",
        "prepared/basic",
        "rows/udt",
        "rows/custom/0",
        "error/unavailable",
        "event/schema/function",
        "supported",
        "rows/no-metadata/cached",
        "rows/int-text/traced+warnings",
        "rows/custom/nested",
        "rows/list-list-int",
    ];
    let n = ctx.vol(6, 12) as usize;
    for c in cases.iter().filter(|c| PICK.iter().take(n).any(|p| *p == c.name)) {
        let frame = c.frame(None);
        let Some(orc) = oracle_of(c, &frame) else { continue };
        let mut it = item(rec(frame.clone(), c.feat, 0, 0, c.cached), "wellformed", format!("case:{}", c.name), c.kind);
        it.oracle = Some(orc);
        let mut todo = vec![it];
        for cut in (9..frame.len()).step_by(7) {
            let mut f = frame[..cut].to_vec();
            f[5..9].copy_from_slice(&((cut - 9) as u32).to_be_bytes());
            todo.push(item(rec(f, c.feat, 0, 0, c.cached), "truncation", "body-cut", c.kind));
        }
        for it in todo {
            let key = fw::hash64(&it.rec.frame);
            match fw::catch(|| child::pipeline(&it.rec, true)) {
                Err(p) => o.violation(format!("in-process:panic:{}", norm_digits(&p)), format!("panic while decoding '{}' in-process: {p}", it.label), replay_json(&it)),
                Ok(out) => {
                    o.case(key, true);
                    o.class(&format!("gen:{}", it.genc));
                    o.class(if out.err_stage.is_empty() { "outcome:decoded" } else { "outcome:error-returned" });
                    if let Some(orc) = &it.oracle {
                        o.class("oracle:roundtrip-compared");
                        // same judgement as for a child's verdict
                        let v = child::verdict_json(&it.rec, Ok(out), &alloc::AllocStats::default(), Duration::ZERO, true);
                        eval_oracle(ctx, &mut o, &it, orc, &v);
                    }
                }
            }
        }
    }
    o
}

// ---------------------------------------------------------------------------------------------
// replay
// ---------------------------------------------------------------------------------------------

fn run_replay(ctx: &Ctx, path: &str) -> Outcome {
    let mut o = Outcome::new();
    let Ok(text) = std::fs::read_to_string(path) else {
        o.inconclusive(format!("cannot read replay file {path}"));
        return o;
    };
    let j: Value = serde_json::from_str(&text).unwrap_or(Value::Null);
    let r = &j["replay"];
    let frame = if let Some(h) = r["frame_hex"].as_str() {
        fw::unhex(h)
    } else if let Some(d) = deep_from_json(&r["regen"]) {
        d.frame()
    } else {
        o.inconclusive("replay file has neither frame_hex nor regen");
        return o;
    };
    let mut it = item(
        rec(frame, r["feat"].as_u64().unwrap_or(0) as u8, r["comp"].as_u64().unwrap_or(0) as u8, r["split"].as_u64().unwrap_or(0) as u32, r["cached"].as_u64().unwrap_or(0) as u8),
        "replay",
        r["label"].as_str().unwrap_or("replay").to_string(),
        "replay",
    );
    if let Some(s) = r["expect_summary"].as_str() {
        let rows = r["expect_rows_hash"].as_str().map(|h| expect::ExpectRows {
            nrows: r["expect_nrows"].as_u64().unwrap_or(0),
            rows_text: String::new(),
            rows_hash: h.parse().unwrap_or(0),
            raw_hash: r["expect_raw_hash"].as_str().and_then(|x| x.parse().ok()).unwrap_or(0),
        });
        let must: Vec<&'static str> = r["must_typecheck"].as_array().map(|a| a.iter().filter_map(|x| x.as_str()).map(|s| &*Box::leak(s.to_string().into_boxed_str())).collect()).unwrap_or_default();
        it.oracle = Some(Oracle { expect: Arc::new(Expect { summary: s.to_string(), rows }), must: Arc::new(must), case_name: Arc::new(r["case"].as_str().unwrap_or("?").to_string()) });
    }
    let sh = Shared { traced: Mutex::new(HashMap::new()), sites: Mutex::new(HashMap::new()) };
    let mut items = vec![it];
    run_items(ctx, &sh, &mut items, &mut o);
    o
}

pub fn run(ctx: &Ctx) -> Outcome {
    if let Some(p) = &ctx.replay {
        return run_replay(ctx, p);
    }
    if ctx.miri() {
        return run_in_process(ctx);
    }
    // Children that abort must not spend 0.2 s symbolising a backtrace that nobody reads
    // (single-threaded at this point: workers are spawned below).
    unsafe { std::env::set_var("RUST_BACKTRACE", "0") };
    let mut o = Outcome::new();
    if let Err(e) = crate::wire::self_test() {
        o.inconclusive(format!("wire codec self-test failed: {e}"));
        return o;
    }
    declare(&mut o, true);
    if matches!(ctx.variant.as_str(), "asan" | "tsan") {
        o.required_classes.retain(|c| c != "gen:deep-nesting");
    }
    samples(&mut o);
    let cases = Arc::new(gens::base_cases());
    selfcheck_field_maps(&cases, &mut o);
    o.note("base_cases", json!(cases.len()));

    let mut jobs: Vec<Job> = Vec::new();
    for i in 0..gen_canaries().len() {
        jobs.push(Job::Canary(i));
    }
    let sanitizer = matches!(ctx.variant.as_str(), "asan" | "tsan");
    let ndeep = gen_deep(ctx.quick()).len();
    for i in 0..ndeep.div_ceil(8) {
        // stack depth is not what a sanitizer build is for (its frames are larger, thresholds differ)
        if !sanitizer {
            jobs.push(Job::Deep(i));
        }
    }
    jobs.push(Job::Liars);
    jobs.push(Job::RoundTrip);
    for i in 0..cases.len() {
        jobs.push(Job::FieldMut(i));
    }
    for i in 0..cases.len() {
        jobs.push(Job::Trunc(i));
    }
    if !quick_tier(ctx) {
        for i in 0..cases.len() {
            for s in 0..ctx.vol(1, 4) {
                jobs.push(Job::FieldMut2(i, s));
            }
        }
    }
    let shard = 4000usize;
    let n_random = ctx.vol(190_000, 6_000_000) as usize;
    for s in 0..n_random.div_ceil(shard) {
        jobs.push(Job::Random(s as u64, shard.min(n_random - s * shard)));
    }
    let n_well = ctx.vol(30_000, 1_000_000) as usize;
    for s in 0..n_well.div_ceil(shard) {
        jobs.push(Job::RandWell(s as u64, shard.min(n_well - s * shard)));
    }

    if let Some(only) = ctx.extra.get("only") {
        // development aid: --only=canary|deep|liars|roundtrip|fieldmut|trunc|random|randwell
        jobs.retain(|j| {
            let n = match j {
                Job::FieldMut2(..) => "fieldmut2",
                Job::Canary(_) => "canary",
                Job::RoundTrip => "roundtrip",
                Job::Trunc(_) => "trunc",
                Job::FieldMut(_) => "fieldmut",
                Job::Deep(_) => "deep",
                Job::Liars => "liars",
                Job::Random(..) => "random",
                Job::RandWell(..) => "randwell",
            };
            let case_ok = match (ctx.extra.get("case"), j) {
                (Some(c), Job::Trunc(i)) | (Some(c), Job::FieldMut(i)) | (Some(c), Job::FieldMut2(i, _)) => &cases[*i].name == c,
                _ => true,
            };
            only.split(',').any(|o| o == n) && case_ok
        });
        o.inconclusive(format!("development run restricted to --only={only}"));
    }
    let sh = Shared { traced: Mutex::new(HashMap::new()), sites: Mutex::new(HashMap::new()) };
    let next = AtomicUsize::new(0);
    let results: Mutex<Vec<(usize, Outcome)>> = Mutex::new(Vec::new());
    let quick = ctx.quick();
    let worker_panics = fw::par(ctx, ctx.workers.max(1), |_, _| {
        loop {
            let ji = next.fetch_add(1, Relaxed);
            if ji >= jobs.len() {
                break;
            }
            let mut jo = Outcome::new();
            let mut items: Vec<Item> = match &jobs[ji] {
                Job::FieldMut2(i, sh_) => gen_field_mutation_pairs(&cases[*i], &mut ctx.rng(7_000_000 + *i as u64 * 100 + sh_), 1500),
                Job::Canary(i) => gen_canaries().swap_remove(*i),
                Job::RoundTrip => gen_roundtrip(&cases, &mut ctx.rng(11), if quick { 12 } else { cases.len() }),
                Job::Trunc(i) => gen_truncations(&cases[*i], if quick && i % 6 != 0 { &[0] } else { &[0, 1, 2] }),
                Job::FieldMut(i) => {
                    let c = &cases[*i];
                    let all = feats_of(c);
                    let feats: Vec<u8> = if quick { vec![c.feat, *all.last().unwrap()] } else { all };
                    let mut f = feats;
                    f.dedup();
                    gen_field_mutations(c, &f)
                }
                Job::Deep(i) => gen_deep(quick).into_iter().skip(i * 8).take(8).collect(),
                Job::Liars => {
                    let mut v = gen_liars();
                    v.extend(gen_class_string_identifiers());
                    v.extend(gen_vector_sizes());
                    v
                }
                Job::Random(s, n) => gen_random(&cases, &mut ctx.rng(100 + s), *n),
                Job::RandWell(s, n) => gen_rand_wellformed(&mut ctx.rng(100_000 + s), *n, *s as usize * 1_000_000),
            };
            let t0 = std::time::Instant::now();
            let n_items = items.len();
            run_items(ctx, &sh, &mut items, &mut jo);
            if std::env::var_os("C08_VERBOSE").is_some() {
                let what = match &jobs[ji] {
                    Job::FieldMut2(i, s) => format!("fieldmut2:{}:{s}", cases[*i].name),
                    Job::Canary(i) => format!("canary{i}"),
                    Job::RoundTrip => "roundtrip".into(),
                    Job::Trunc(i) => format!("trunc:{}", cases[*i].name),
                    Job::FieldMut(i) => format!("fieldmut:{}", cases[*i].name),
                    Job::Deep(i) => format!("deep{i}"),
                    Job::Liars => "liars".into(),
                    Job::Random(s, _) => format!("random{s}"),
                    Job::RandWell(s, _) => format!("randwell{s}"),
                };
                eprintln!("[c08 job {ji} {what}] {n_items} items {:.1}s (t={:.1})", t0.elapsed().as_secs_f64(), ctx.elapsed());
            }
            results.lock().unwrap().push((ji, jo));
        }
        Outcome::new()
    });
    o.merge(worker_panics);
    let mut rs = results.into_inner().unwrap();
    rs.sort_by_key(|(i, _)| *i);
    for (_, r) in rs {
        // `max_*` notes are maxima, not sums
        let mx = r.notes.get("max_peak_live_bytes_within_budget").and_then(|v| v.as_u64()).unwrap_or(0);
        let cur = o.notes.get("max_peak_live_bytes_within_budget").and_then(|v| v.as_u64()).unwrap_or(0);
        o.merge(r);
        o.note("max_peak_live_bytes_within_budget", json!(mx.max(cur)));
    }
    o.exhaustive = Some(false);
    o
}
