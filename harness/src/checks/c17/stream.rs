//! C17 part `stream` — a typed row stream never hands out a value read from a column that does not
//! fit the Rust type, also when only a LATER page of a paged result carries the unfitting metadata
//! (the schema changed while paging) and the consumer keeps polling after the error.
//!
//! A mock node serves pages whose metadata the test chooses page by page: pages of the type the
//! consumer asked for hold known values; "foreign" pages hold cells of another type with the same
//! byte length (so that a reinterpretation would succeed silently). Oracle: every `Ok` item of the
//! stream is, in order, one of the known values of the fitting pages; nothing else is ever `Ok`.

use crate::checks::e2e::{connect, runtime, single_node_spec};
use crate::fw::{self, Ctx, Outcome, Rng};
use crate::mock::*;
use crate::wire::request::Request;
use crate::wire::response::*;
use futures::StreamExt;
use serde_json::json;
use std::collections::HashMap;
use std::sync::{Arc, Mutex};
use std::time::Duration;

const PREFIX: &str = "SELECT v FROM ks.typed WHERE q = ";

#[derive(Clone, Debug)]
struct Page {
    /// true: the column has the type the consumer reads (int / bigint); false: a text column of the same width
    fits: bool,
    /// the cells: for a fitting page the numbers, for a foreign page the numbers whose bytes spell the text
    cells: Vec<i64>,
}

#[derive(Clone, Debug)]
struct Script {
    wide: bool, // false: consumer reads i32 from int; true: i64 from bigint
    pages: Vec<Page>,
}

struct H {
    scripts: Mutex<HashMap<u64, Script>>,
}

impl Handler for H {
    fn on_request(&self, rq: Rq) {
        let (q, ps) = match &*rq.request {
            Request::Query { query, params } => (query.strip_prefix(PREFIX).and_then(|s| s.trim().parse::<u64>().ok()), params.paging_state.clone()),
            _ => (None, None),
        };
        let Some(q) = q else {
            rq.void();
            return;
        };
        let Some(s) = self.scripts.lock().unwrap().get(&q).cloned() else {
            rq.void();
            return;
        };
        let idx = match ps {
            None => 0,
            Some(b) => std::str::from_utf8(&b).ok().and_then(|t| t.strip_prefix("p")).and_then(|t| t.parse::<usize>().ok()).unwrap_or(0),
        };
        let page = &s.pages[idx.min(s.pages.len() - 1)];
        let ty = match (page.fits, s.wide) {
            (true, false) => ColType::Int,
            (true, true) => ColType::BigInt,
            (false, _) => ColType::Text,
        };
        let rows: Vec<Row> = page.cells.iter().map(|c| vec![Some(if s.wide { c.to_be_bytes().to_vec() } else { (*c as i32).to_be_bytes().to_vec() })]).collect();
        let next = if idx + 1 < s.pages.len() { Some(format!("p{}", idx + 1).into_bytes()) } else { None };
        rq.rows(vec![ColSpec::new("ks", "typed", "v", ty)], rows, next);
    }
}

fn gen_script(rng: &mut Rng) -> Script {
    let wide = rng.bool();
    let n = rng.usize(2, 5);
    let mut pages = Vec::new();
    for i in 0..n {
        // the first page always fits (the stream is created from it); later ones fit or not
        let fits = i == 0 || rng.chance(1, 2);
        let cells: Vec<i64> = (0..rng.usize(if fits { 0 } else { 2 }, 4))
            .map(|_| if fits { rng.range(-1000, 1000) } else if wide { i64::from_be_bytes(*b"abcdefgh") + rng.range(0, 200) } else { i32::from_be_bytes(*b"efgh") as i64 + rng.range(0, 200) })
            .collect();
        pages.push(Page { fits, cells });
    }
    if pages.iter().all(|p| p.fits) {
        let k = pages.len() - 1;
        pages[k] = Page { fits: false, cells: vec![if wide { i64::from_be_bytes(*b"abcdefgh") } else { i32::from_be_bytes(*b"efgh") as i64 }; 3] };
    }
    Script { wide, pages }
}

pub fn run(ctx: &Ctx) -> Outcome {
    let mut o = Outcome::new();
    let rt = runtime(2);
    let n = ctx.vol(150, 6000);
    let mut rng = ctx.rng(1717);
    rt.block_on(async {
        let h = Arc::new(H { scripts: Mutex::new(HashMap::new()) });
        let mut spec = single_node_spec();
        spec.keyspaces[0].tables.push(TableDef::new("typed", &[("q", "bigint")], &[("v", "int")]));
        let cluster = MockCluster::start(spec, h.clone()).await;
        let session = match connect(&cluster, |b| b).await {
            Ok(s) => s,
            Err(e) => {
                o.inconclusive(format!("C17 stream part could not start: {e}"));
                cluster.shutdown();
                return;
            }
        };
        for q in 0..n {
            let s = gen_script(&mut rng);
            h.scripts.lock().unwrap().insert(q, s.clone());
            let replay = json!({"kind": "stream", "script": format!("{s:?}")});
            let mut st = scylla::statement::Statement::new(format!("{PREFIX}{q}"));
            st.set_page_size(2);
            let pager = match tokio::time::timeout(Duration::from_secs(20), session.query_iter(st, ())).await {
                Ok(Ok(p)) => p,
                other => {
                    o.inconclusive(format!("query_iter did not start: {:?}", other.map(|r| r.map(|_| ()).map_err(|e| e.to_string()))));
                    continue;
                }
            };
            // values the consumer may legitimately see, in order
            let legit: Vec<i64> = s.pages.iter().filter(|p| p.fits).flat_map(|p| p.cells.iter().copied()).collect();
            let mut got_ok: Vec<i64> = Vec::new();
            let mut errs = 0usize;
            let mut polls = 0usize;
            macro_rules! drain {
                ($stream:expr, $conv:expr) => {{
                    let mut stream = $stream;
                    loop {
                        polls += 1;
                        if polls > 60 {
                            break;
                        }
                        match tokio::time::timeout(Duration::from_secs(20), stream.next()).await {
                            Err(_) => {
                                o.inconclusive("typed row stream did not answer within 20 s");
                                break;
                            }
                            Ok(None) => break,
                            Ok(Some(Ok(v))) => got_ok.push($conv(v)),
                            // the consumer keeps polling after an error
                            Ok(Some(Err(_))) => errs += 1,
                        }
                    }
                }};
            }
            if s.wide {
                match pager.rows_stream::<(i64,)>() {
                    Ok(st) => drain!(st, |v: (i64,)| v.0),
                    Err(e) => {
                        o.violation("stream:first-page-refused", format!("the first page fits (bigint read as i64) but rows_stream refused it: {e}"), replay.clone());
                        continue;
                    }
                }
            } else {
                match pager.rows_stream::<(i32,)>() {
                    Ok(st) => drain!(st, |v: (i32,)| v.0 as i64),
                    Err(e) => {
                        o.violation("stream:first-page-refused", format!("the first page fits (int read as i32) but rows_stream refused it: {e}"), replay.clone());
                        continue;
                    }
                }
            }
            o.case(fw::hash64(format!("stream:{s:?}").as_bytes()), true);
            o.class("stream:later-page-with-unfitting-metadata");
            if errs > 0 {
                o.class("stream:consumer-polled-on-after-a-type-check-error");
            }
            // every Ok value must be a legit one, in order (a prefix-respecting subsequence is fine: after an
            // error the stream may end or go on with the next fitting page)
            let mut k = 0usize;
            let mut bad = None;
            for v in &got_ok {
                match legit[k..].iter().position(|x| x == v) {
                    Some(p) => k += p + 1,
                    None => {
                        bad = Some(*v);
                        break;
                    }
                }
            }
            if let Some(v) = bad {
                let bytes = if s.wide { v.to_be_bytes().to_vec() } else { (v as i32).to_be_bytes().to_vec() };
                o.violation(
                    "stream:bytes-of-an-unfitting-column-handed-out",
                    format!("the typed stream yielded Ok({v}) (bytes {:?} = {:?}), which no fitting page holds; fitting values in order: {legit:?}; yielded {got_ok:?} with {errs} errors", bytes, String::from_utf8_lossy(&bytes)),
                    replay.clone(),
                );
            } else if got_ok.len() < s.pages[0].cells.len() {
                o.violation("stream:fitting-first-page-not-delivered", format!("the first page's {} fitting rows were not all delivered: {got_ok:?}", s.pages[0].cells.len()), replay.clone());
            }
            if o.want_sample() {
                o.sample(json!({"stream": {"script": format!("{s:?}"), "ok_items": got_ok, "error_items": errs}}));
            }
        }
        for v in cluster.log().violations() {
            o.node_violation("c17", &v, json!({"kind": "stream"}));
        }
        drop(session);
        cluster.shutdown();
    });
    for c in ["stream:later-page-with-unfitting-metadata", "stream:consumer-polled-on-after-a-type-check-error"] {
        o.require_class(c);
    }
    o
}
