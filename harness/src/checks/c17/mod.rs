//! C17 — type mismatches are always rejected and a failed bind leaves the request intact.
//!
//! Two monitors:
//!  1. `matrix`  — Rust carrier type x CQL column type, enumerated completely, for
//!     `SerializeValue::serialize` (+ `SerializedValues::add_value`) and for
//!     `DeserializeValue::type_check` (+ the row-level type check). Oracle:
//!     `refmodel::typecompat` (a table written from the documentation).
//!  2. `rollback` — every prefix of generated value lists x every failure kind through
//!     `SerializedValues::add_value`, plus `from_serializable` / `from_closure` / `RowWriter`.

pub mod catalogue;
pub mod matrix;
pub mod rollback;
pub mod snap;
pub mod stream;

use crate::fw::{self, Ctx, Outcome, Rng};
use crate::refmodel::typecompat::{self as model, Dir, Ty, Verdict};
use serde_json::json;

const ROLLBACK_STREAM_BASE: u64 = 1_000_000;

fn want_part(ctx: &Ctx, p: &str) -> bool {
    match ctx.part.as_deref() {
        None | Some("all") => true,
        Some(x) => x == p,
    }
}

fn replay(ctx: &Ctx, path: &str) -> Outcome {
    let mut o = Outcome::new();
    let v: serde_json::Value = match std::fs::read_to_string(path).ok().and_then(|s| serde_json::from_str(&s).ok()) {
        Some(v) => v,
        None => {
            o.inconclusive("unreadable replay file");
            return o;
        }
    };
    let r = &v["replay"];
    match r["kind"].as_str() {
        Some("matrix") => {
            let carriers = catalogue::catalogue();
            let (Some(c), Some(ty)) = (carriers.iter().find(|c| Some(c.name) == r["carrier"].as_str()), Ty::from_json(&r["type"])) else {
                o.inconclusive("replay names an unknown carrier or type");
                return o;
            };
            let pre = matrix::prefilled();
            let pre_snap = snap::take(&pre).expect("prefilled snapshot");
            let ct = catalogue::column_type(&ty);
            let spec = matrix::spec_for(&ct);
            matrix::eval_ser(&mut o, c, &ty, &ct, &pre, &pre_snap);
            matrix::eval_de(&mut o, c, &ty, &ct, spec);
        }
        Some("rollback") => {
            let seed = r["seed"].as_u64().unwrap_or(ctx.seed);
            rollback::case(&mut o, seed, r["stream"].as_u64().unwrap_or(0));
        }
        Some("static_rows") => rollback::static_rows(&mut o),
        Some("too_many") => rollback::too_many(&mut o, &mut ctx.rng(7)),
        Some("oversize") => rollback::oversize(&mut o),
        _ => o.inconclusive("unrecognised replay file"),
    }
    o
}

pub fn run(ctx: &Ctx) -> Outcome {
    if let Some(p) = &ctx.replay {
        return replay(ctx, p);
    }
    let mut out = Outcome::new();
    if let Err(e) = model::self_test() {
        out.inconclusive(format!("oracle self-test failed: {e}"));
        return out;
    }
    let workers = ctx.workers.max(1);
    let do_matrix = want_part(ctx, "matrix");
    let do_rollback = want_part(ctx, "rollback");

    // ---------------- part 1: the matrix ----------------
    if do_matrix {
        let types = catalogue::column_types(ctx.miri());
        let n_types = types.len();
        let m = fw::par(ctx, workers, |w, _rng| {
            let mut o = Outcome::new();
            let mut carriers = catalogue::catalogue();
            if ctx.miri() {
                // every third carrier only (see `column_types`)
                let mut i = 0;
                carriers.retain(|_| {
                    i += 1;
                    i % 3 == 1
                });
            }
            let pre = matrix::prefilled();
            let pre_snap = match snap::take(&pre) {
                Ok(s) => s,
                Err(e) => {
                    o.violation("matrix:prefill:inconsistent", e, json!({"kind": "prefill"}));
                    return o;
                }
            };
            for (i, ty) in types.iter().enumerate() {
                if i % workers != w {
                    continue;
                }
                matrix::eval_type(&mut o, &carriers, ty, &pre, &pre_snap);
            }
            if w == 0 {
                o.note("matrix_carriers", json!(carriers.len()));
                o.note("matrix_carriers_ser", json!(carriers.iter().filter(|c| c.value.is_some()).count()));
                o.note("matrix_carriers_de", json!(carriers.iter().filter(|c| c.typeck.is_some()).count()));
                o.note("matrix_column_types", json!(n_types));
                // literal samples, with the oracle's verdict
                let all = catalogue::catalogue();
                let find = |name: &str| all.iter().find(|c| c.name == name).unwrap();
                let nat = |n| Ty::Nat(n);
                let lit: Vec<(&str, Ty, Dir)> = vec![
                    ("i32", nat(model::Nat::BigInt), Dir::Ser),
                    ("Vec<i64>", Ty::list(nat(model::Nat::Int)), Dir::Ser),
                    ("BTreeMap<i64,Vec<i32>>", Ty::map(nat(model::Nat::BigInt), Ty::list(nat(model::Nat::BigInt))), Dir::De),
                    ("HashSet<i32>", Ty::list(nat(model::Nat::Int)), Dir::Ser),
                ];
                for (name, ty, dir) in lit {
                    let v = model::verdict(&find(name).car, &ty, dir);
                    o.sample(json!({"matrix": {"carrier": name, "column_type": ty.show(), "direction": format!("{dir:?}"), "oracle": match v {
                        Verdict::Accept => "MUST_ACCEPT".to_string(),
                        Verdict::Reject { depth } => format!("MUST_REJECT (mismatch at depth {depth})"),
                        Verdict::Either(why) => format!("EITHER / not asserted: {why}"),
                    }}}));
                }
            }
            o
        });
        out.merge(m);
        for c in ["ser:accept", "ser:reject", "de:accept", "de:reject", "ser:reject-at-depth-0", "ser:reject-at-depth-1", "de:reject-at-depth-1", "ser:reject-after-partial-write"] {
            out.require_class(c);
        }
        if !ctx.miri() {
            for c in ["ser:either", "de:either", "ser:reject-at-depth-2", "de:reject-at-depth-2"] {
                out.require_class(c);
            }
            for k in ["native", "list", "set", "map", "vector", "tuple", "udt"] {
                let d = if k == "native" { 0 } else { 1 };
                out.require_class(&format!("type:{k}:depth{d}"));
                if k != "native" {
                    out.require_class(&format!("type:{k}:depth2"));
                }
            }
        }
        // the matrix is enumerated completely: every catalogue carrier x every column type of the family
        out.exhaustive = Some(true);
        out.note(
            "exhaustive_part",
            json!("matrix: every carrier of the catalogue x every column type of the family {20 natives; list/set/vector<n,2|3>/tuple/UDT shapes over every native; map<k,v>, tuple<a,b>, udt{a,b} over every native pair; every container shape over the one-level family (9 shapes x 20 natives)}, both directions. The rollback part is sampled (seeded)."),
        );
    }

    // ---------------- part 1b: derived Rust types (structs mapped to UDTs / rows) ----------------
    // A struct deriving DeserializeValue / DeserializeRow is a Rust type like any other: a database-side
    // type it does not fit must be refused by type_check, one the attribute docs accept must pass, and
    // type_check saying yes must not be followed by a deserializer that gives up. The struct family,
    // the enumeration of database-side field lists and the docs-derived interpreter are C16's; only its
    // verdicts about the READ-side type check are taken over here.
    if want_part(ctx, "derived") && !ctx.miri() {
        let mut sub = ctx.clone();
        sub.replay = None;
        sub.part = None;
        sub.extra.insert("max_db".into(), if ctx.quick() { "5".into() } else { "6".into() });
        let d = super::c16::run(&sub);
        let typecheck_verdict = |sig: &str| {
            sig.starts_with("de_")
                && (sig.contains("accepted-but-documented-reject") || sig.contains("rejected-but-documented-accept") || sig.contains("type_check-rejects-documented-metadata") || sig.ends_with(":panic"))
        };
        let mut n = 0u64;
        for (k, v) in &d.classes {
            if k.starts_with("de_") {
                out.class_n(&format!("derived:{k}"), *v);
                n += *v;
            }
        }
        out.evals(n);
        for v in d.violations {
            if typecheck_verdict(&v.signature) {
                out.violation(format!("derived:{}", v.signature), v.message, json!({"kind": "derived", "c16_replay": v.replay}));
            }
        }
        for i in d.inconclusive {
            out.inconclusive(format!("derived part: {i}"));
        }
        for c in ["derived:de_udt:by_name:accept", "derived:de_udt:ordered:accept", "derived:de_udt:by_name:reject", "derived:de_udt:ordered:reject"] {
            out.require_class(c);
        }
    }

    // ---------------- part 1c: typed row streams over pages whose metadata changes ----------------
    if want_part(ctx, "stream") && !ctx.miri() && matches!(ctx.variant.as_str(), "dbg" | "rel") {
        out.merge(stream::run(ctx));
    }

    // ---------------- part 2: rollback ----------------
    if do_rollback {
        // one list = (len+1) prefixes x 15 failure kinds + row paths  ~ 90 evaluated cases
        let lists = if ctx.miri() { 1 } else { ctx.vol(4_000, 300_000) };
        let seed = ctx.seed;
        let r = fw::par(ctx, workers, |w, mut rng: Rng| {
            let mut o = Outcome::new();
            let mut i = w as u64;
            while i < lists {
                rollback::case(&mut o, seed, ROLLBACK_STREAM_BASE + i);
                i += workers as u64;
            }
            if w == 0 {
                rollback::vector_lengths(&mut o);
                rollback::lazy_iterators(&mut o);
                rollback::empty_values(&mut o);
                rollback::static_rows(&mut o);
                rollback::swallowed_error_probe(&mut o);
                o.sample(json!({"rollback": {"prefix": ["i32->int", "String->text"], "then": "Vec<CqlValue>[Int x3, Text]->list<int>", "expect": "Err; bytes, element_count(), iter() unchanged"}}));
                o.sample(json!({"rollback": {"prefix": "65535 values", "then": "any value", "expect": "Err(TooManyValues); unchanged"}}));
            }
            if w == 1 % workers && !ctx.miri() {
                rollback::too_many(&mut o, &mut rng);
                if !ctx.quick() {
                    for _ in 0..4 {
                        rollback::too_many(&mut o, &mut rng);
                    }
                }
            }
            if w == 2 % workers && !ctx.quick() && matches!(ctx.variant.as_str(), "dbg" | "rel") && ctx.extra.get("oversize").map(|s| s.as_str()) != Some("0") {
                rollback::oversize(&mut o);
            }
            o
        });
        out.merge(r);
        for k in rollback::FAIL_KINDS {
            out.require_class(&format!("rollback:failed:{k}"));
        }
        for c in ["rollback:failed-on-nonempty-prefix", "rollback:list-completed", "row:from_serializable-ok", "row:failing-row-rejected", "row:rowwriter-ok", "row:static-ok", "vector:exact-length-accepted", "vector:wrong-length-refused", "vector:length-congruent-mod-65536-refused", "lazy:fitting-column-accepted", "lazy:element-type-mismatch-refused", "empty:accepted-for-an-emptiable-type", "empty:refused-for-a-non-emptiable-type"] {
            out.require_class(c);
        }
        if !ctx.miri() {
            out.require_class("rollback:failed:too-many-values");
            out.require_class("toomany:65536th-refused");
            out.require_class("toomany:65535-accepted");
        }
        if !ctx.quick() && matches!(ctx.variant.as_str(), "dbg" | "rel") && ctx.extra.get("oversize").map(|s| s.as_str()) != Some("0") {
            out.require_class("rollback:failed:oversize-cell");
        }
        if out.exhaustive.is_none() {
            out.exhaustive = Some(false);
        }
    }
    out
}
