//! C17 part 1: the carrier x column-type matrix, enumerated completely.

use super::catalogue::{Carrier, column_type};
use super::snap::{self, Snapshot};
use crate::fw::{self, Outcome};
use crate::refmodel::typecompat::{Dir, Ty, Verdict, verdict};
use scylla_cql_core::frame::response::result::{ColumnSpec, ColumnType, TableSpec};
use scylla_cql_core::serialize::CellWriter;
use scylla_cql_core::serialize::row::SerializedValues;
use scylla_cql_core::serialize::value::SerializeValue;
use serde_json::json;

const SENTINEL: [u8; 5] = [0xA5, 0x5A, 0xC3, 0x3C, 0x99];
const POISON: [u8; 4] = (-3i32).to_be_bytes();

/// A `SerializedValues` that already holds two values (an int and a text) — the "already
/// bound values" that a failed bind must leave intact.
pub fn prefilled() -> SerializedValues {
    let mut sv = SerializedValues::new();
    sv.add_value(&0x0102_0304i32, &ColumnType::Native(scylla_cql_core::frame::response::result::NativeType::Int)).expect("prefill int");
    sv.add_value(&"bound", &ColumnType::Native(scylla_cql_core::frame::response::result::NativeType::Text)).expect("prefill text");
    sv
}

/// Stable signature: entry point + failure class (+ the carrier whose impl is the site, for
/// verdicts about a type pairing; failures of `add_value` / `TypedRowIterator::new` themselves are
/// carrier-independent).
fn sig(what: &str, c: &Carrier, _ty: &Ty) -> String {
    if what.starts_with("add_value:") || what.starts_with("de:typed-iterator") { format!("matrix:{what}") } else { format!("matrix:{what}:{}", c.name) }
}

fn replay_json(dir: &str, c: &Carrier, ty: &Ty) -> serde_json::Value {
    json!({"kind": "matrix", "dir": dir, "carrier": c.name, "type": ty.to_json(), "type_text": ty.show()})
}

fn note_verdict(o: &mut Outcome, dir: &str, v: Verdict, accepted: bool) {
    o.class(&format!("{dir}:{}", v.label()));
    if let Verdict::Reject { depth } = v {
        o.class(&format!("{dir}:reject-at-depth-{}", depth.min(2)));
    }
    if let Some(id) = v.either_id() {
        o.note_add(&format!("not_asserted[{dir}:{id}].{}", if accepted { "driver_accepted" } else { "driver_rejected" }), 1);
    }
}

/// Serialization direction of one cell.
pub fn eval_ser(o: &mut Outcome, c: &Carrier, ty: &Ty, ct: &ColumnType<'static>, pre: &SerializedValues, pre_snap: &Snapshot) {
    let Some(value) = c.value.as_ref() else { return };
    let want = verdict(&c.car, ty, Dir::Ser);
    let key = fw::hash64(format!("ser|{}|{}", c.name, ty.show()).as_bytes());
    o.case(key, !matches!(want, Verdict::Either(_)));

    // (a) the bare trait method on a cell writer over a buffer that already holds bytes
    let mut buf = SENTINEL.to_vec();
    let r = fw::catch(|| value.serialize(ct, CellWriter::new(&mut buf)).map(|_| ()).map_err(|e| e.to_string()));
    let r = match r {
        Ok(r) => r,
        Err(p) => {
            o.violation(sig("ser:panic", c, ty), format!("serialize of {} into {} panicked: {p}", c.name, ty.show()), replay_json("ser", c, ty));
            return;
        }
    };
    let accepted = r.is_ok();
    note_verdict(o, "ser", want, accepted);
    match (want, accepted) {
        (Verdict::Reject { depth }, true) => o.violation(
            sig("ser:mismatch-accepted", c, ty),
            format!("a value of {} was serialized into column type {} without an error (mismatch at nesting depth {depth}); bytes written: {}", c.name, ty.show(), fw::hex(&buf[SENTINEL.len().min(buf.len())..])),
            replay_json("ser", c, ty),
        ),
        (Verdict::Accept, false) => o.violation(
            sig("ser:documented-pair-rejected", c, ty),
            format!("the documentation pairs {} with {}, but serialize failed: {}", c.name, ty.show(), r.as_ref().err().cloned().unwrap_or_default()),
            replay_json("ser", c, ty),
        ),
        _ => {}
    }
    if buf.len() < SENTINEL.len() || buf[..SENTINEL.len()] != SENTINEL {
        o.violation(sig("ser:earlier-bytes-clobbered", c, ty), format!("serialize of {} into {} modified bytes that were in the buffer before the call", c.name, ty.show()), replay_json("ser", c, ty));
        return;
    }
    let appended = &buf[SENTINEL.len()..];
    if accepted {
        // exactly one well-formed [value]
        match snap::parse_cells(appended) {
            Some(cells) if cells.len() == 1 => {}
            _ => o.violation(sig("ser:malformed-cell", c, ty), format!("serialize of {} into {} returned Ok but appended {} which is not exactly one [value]", c.name, ty.show(), fw::hex(appended)), replay_json("ser", c, ty)),
        }
    } else if !appended.is_empty() {
        // What the writer API documents for an abandoned value: nothing, or a cell whose length
        // field is the invalid marker -3 ("will trigger an error on the DB side and the serialized
        // data won't be misinterpreted").
        if appended.len() >= 4 && appended[..4] == POISON {
            o.class("ser:reject-after-partial-write");
        } else {
            o.violation(
                sig("ser:bytes-left-after-reject", c, ty),
                format!("serialize of {} into {} failed but left parsable bytes {} in the buffer", c.name, ty.show(), fw::hex(&appended[..appended.len().min(64)])),
                replay_json("ser", c, ty),
            );
        }
    }

    // (b) the same through SerializedValues::add_value on top of already-bound values
    let mut sv = pre.clone();
    let dynref: &dyn SerializeValue = &**value;
    let r2 = fw::catch(|| sv.add_value(&dynref, ct).map_err(|e| e.to_string()));
    let r2 = match r2 {
        Ok(r) => r,
        Err(p) => {
            o.violation(sig("add_value:panic", c, ty), format!("add_value of {} as {} panicked: {p}", c.name, ty.show()), replay_json("ser", c, ty));
            return;
        }
    };
    if r2.is_ok() != accepted {
        o.violation(
            sig("add_value:disagrees-with-serialize", c, ty),
            format!("{} into {}: serialize said {} but add_value said {}", c.name, ty.show(), if accepted { "Ok" } else { "Err" }, if r2.is_ok() { "Ok" } else { "Err" }),
            replay_json("ser", c, ty),
        );
    }
    let after = match snap::take(&sv) {
        Ok(s) => s,
        Err(e) => {
            o.violation(sig("add_value:inconsistent-object", c, ty), format!("after add_value of {} as {}: {e}", c.name, ty.show()), replay_json("ser", c, ty));
            return;
        }
    };
    if r2.is_err() {
        if after != *pre_snap {
            o.violation(
                sig("add_value:not-rolled-back", c, ty),
                format!("failed add_value of {} as {} changed the bound values: {}", c.name, ty.show(), snap::diff(pre_snap, &after)),
                replay_json("ser", c, ty),
            );
        }
    } else {
        let mut expect_raw = pre_snap.raw.clone();
        expect_raw.extend_from_slice(appended);
        if after.raw != expect_raw || after.count as usize != pre_snap.count as usize + 1 {
            o.violation(
                sig("add_value:bad-append", c, ty),
                format!("successful add_value of {} as {}: expected the old bytes plus one cell and count {}, got count {} and {} bytes", c.name, ty.show(), pre_snap.count + 1, after.count, after.raw.len()),
                replay_json("ser", c, ty),
            );
        }
    }
}

/// Deserialization (`type_check`) direction of one cell.
pub fn eval_de(o: &mut Outcome, c: &Carrier, ty: &Ty, ct: &ColumnType<'static>, spec: &'static [ColumnSpec<'static>]) {
    let Some(typeck) = c.typeck else { return };
    let want = verdict(&c.car, ty, Dir::De);
    let key = fw::hash64(format!("de|{}|{}", c.name, ty.show()).as_bytes());
    o.case(key, !matches!(want, Verdict::Either(_)));
    let r = match fw::catch(|| typeck(ct).map_err(|e| e.to_string())) {
        Ok(r) => r,
        Err(p) => {
            o.violation(sig("de:panic", c, ty), format!("type_check of {} against {} panicked: {p}", c.name, ty.show()), replay_json("de", c, ty));
            return;
        }
    };
    let accepted = r.is_ok();
    note_verdict(o, "de", want, accepted);
    match (want, accepted) {
        (Verdict::Reject { depth }, true) => o.violation(
            sig("de:mismatch-accepted", c, ty),
            format!("type_check of Rust type {} passed for column type {} (mismatch at nesting depth {depth}): the column bytes would be reinterpreted", c.name, ty.show()),
            replay_json("de", c, ty),
        ),
        (Verdict::Accept, false) => o.violation(
            sig("de:documented-pair-rejected", c, ty),
            format!("the documentation pairs {} with {}, but type_check failed: {}", c.name, ty.show(), r.as_ref().err().cloned().unwrap_or_default()),
            replay_json("de", c, ty),
        ),
        _ => {}
    }
    // the same question through the row layer: a one-column row of this type
    if let Some(rowck) = c.rowck {
        match fw::catch(|| rowck(spec).is_ok()) {
            Ok(row_ok) => {
                if row_ok != accepted {
                    o.violation(
                        sig("de:row-vs-value-disagree", c, ty),
                        format!("({},)::type_check on a one-column row of type {} said {} but the value type_check said {}", c.name, ty.show(), row_ok, accepted),
                        replay_json("de", c, ty),
                    );
                }
            }
            Err(p) => o.violation(sig("de:row-panic", c, ty), format!("row type_check of ({},) against {} panicked: {p}", c.name, ty.show()), replay_json("de", c, ty)),
        }
    }
    // and through the typed result iterator, which must refuse to be built for a mismatch
    if let Some(gateck) = c.gateck {
        match fw::catch(|| gateck(spec)) {
            Ok(gate_ok) => {
                if gate_ok != accepted {
                    o.violation(
                        sig("de:typed-iterator-gate-disagrees", c, ty),
                        format!("TypedRowIterator::<({},)>::new over a result with one {} column returned {} although type_check returned {}", c.name, ty.show(), if gate_ok { "Ok" } else { "Err" }, if accepted { "Ok" } else { "Err" }),
                        replay_json("de", c, ty),
                    );
                }
            }
            Err(p) => o.violation(sig("de:typed-iterator-panic", c, ty), format!("TypedRowIterator::<({},)>::new for {} panicked: {p}", c.name, ty.show()), replay_json("de", c, ty)),
        }
    }
}

/// One-column result metadata for the type. Leaked on purpose: the typed-iterator gate is asked
/// through a plain fn pointer over `'static` metadata (borrowing carriers such as `&str` only
/// implement the traits for lifetimes that outlive their own); one small allocation per column type.
pub fn spec_for(ct: &ColumnType<'static>) -> &'static [ColumnSpec<'static>] {
    Box::leak(vec![ColumnSpec::owned("c".to_string(), ct.clone(), TableSpec::owned("ks".to_string(), "tbl".to_string()))].into_boxed_slice())
}

/// All carriers against one column type.
pub fn eval_type(o: &mut Outcome, carriers: &[Carrier], ty: &Ty, pre: &SerializedValues, pre_snap: &Snapshot) {
    let ct = column_type(ty);
    let spec = spec_for(&ct);
    o.class(&format!("type:{}:depth{}", ty.kind(), ty.depth()));
    for c in carriers {
        eval_ser(o, c, ty, &ct, pre, pre_snap);
        eval_de(o, c, ty, &ct, spec);
    }
}
