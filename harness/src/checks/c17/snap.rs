//! Observation of a `SerializedValues`: everything its public API reports, cross-checked
//! with an independent parse of the `[value]` sequence (CQL protocol section 3: an `[int]`
//! length n followed by n bytes; n = -1 null, n = -2 not set, other negatives invalid).

use crate::fw;
use scylla_cql_core::frame::types::RawValue;
use scylla_cql_core::serialize::row::SerializedValues;

#[derive(Clone, Debug, PartialEq, Eq)]
pub enum Cell {
    Null,
    Unset,
    Value(Vec<u8>),
}

#[derive(Clone, Debug, PartialEq, Eq)]
pub struct Snapshot {
    /// the bytes `write_to_request` emits after the 2-byte count
    pub raw: Vec<u8>,
    /// `element_count()`
    pub count: u16,
    /// what `iter()` yields
    pub cells: Vec<Cell>,
}

/// Independent parser: `None` when the bytes are not a whole number of well-formed values.
pub fn parse_cells(mut b: &[u8]) -> Option<Vec<Cell>> {
    let mut out = Vec::new();
    while !b.is_empty() {
        if b.len() < 4 {
            return None;
        }
        let n = i32::from_be_bytes([b[0], b[1], b[2], b[3]]);
        b = &b[4..];
        match n {
            -1 => out.push(Cell::Null),
            -2 => out.push(Cell::Unset),
            n if n < 0 => return None,
            n => {
                let n = n as usize;
                if b.len() < n {
                    return None;
                }
                out.push(Cell::Value(b[..n].to_vec()));
                b = &b[n..];
            }
        }
    }
    Some(out)
}

/// Takes a snapshot and checks the object's own reports against each other:
/// `element_count() == iter().count() ==` number of encoded cells, `buffer_size()` and the
/// request header agree with the bytes.
pub fn take(sv: &SerializedValues) -> Result<Snapshot, String> {
    let mut req = Vec::with_capacity(sv.buffer_size() + 2);
    sv.write_to_request(&mut req);
    if req.len() < 2 {
        return Err("write_to_request wrote fewer than 2 bytes".into());
    }
    let hdr = u16::from_be_bytes([req[0], req[1]]);
    let raw = req[2..].to_vec();
    let count = sv.element_count();
    if hdr != count {
        return Err(format!("request header says {hdr} values, element_count() says {count}"));
    }
    if sv.buffer_size() != raw.len() {
        return Err(format!("buffer_size() = {} but {} bytes are written to the request", sv.buffer_size(), raw.len()));
    }
    if sv.is_empty() != (count == 0) {
        return Err(format!("is_empty() = {} with element_count() = {count}", sv.is_empty()));
    }
    let iterated = fw::catch(|| {
        sv.iter()
            .map(|v| match v {
                RawValue::Null => Cell::Null,
                RawValue::Unset => Cell::Unset,
                RawValue::Value(b) => Cell::Value(b.to_vec()),
            })
            .collect::<Vec<Cell>>()
    })
    .map_err(|p| format!("iter() panicked: {p} (element_count() = {count}, {} bytes)", raw.len()))?;
    if iterated.len() != count as usize {
        return Err(format!("element_count() = {count} but iter() yields {} values", iterated.len()));
    }
    match parse_cells(&raw) {
        Some(cells) if cells == iterated => Ok(Snapshot { raw, count, cells }),
        Some(cells) => Err(format!("the buffer encodes {} cells but iter() yields {} (element_count() = {count})", cells.len(), iterated.len())),
        None => Err(format!("the buffer ({} bytes) is not a sequence of well-formed values (element_count() = {count})", raw.len())),
    }
}

pub fn diff(a: &Snapshot, b: &Snapshot) -> String {
    let mut parts = Vec::new();
    if a.count != b.count {
        parts.push(format!("count {} -> {}", a.count, b.count));
    }
    if a.raw != b.raw {
        let common = a.raw.iter().zip(b.raw.iter()).take_while(|(x, y)| x == y).count();
        parts.push(format!("bytes {} -> {} (first difference at offset {common})", a.raw.len(), b.raw.len()));
    }
    if a.cells.len() != b.cells.len() {
        parts.push(format!("cells {} -> {}", a.cells.len(), b.cells.len()));
    }
    if parts.is_empty() { "no difference".into() } else { parts.join(", ") }
}
