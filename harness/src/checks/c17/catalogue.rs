//! C17 catalogue: the concrete Rust carrier types (each with a non-degenerate value) and
//! the enumeration of CQL column types (natives, containers of natives, two levels).
//! Every carrier is described to the oracle by a carrier expression (`Car`).

use crate::refmodel::typecompat::{Car, Leaf, NATIVES, Nat, SeqKind, Ty, UdtFlavor};
use scylla_cql_core::deserialize::result::{RawRowIterator, TypedRowIterator};
use scylla_cql_core::deserialize::{FrameSlice, TypeCheckError};
use scylla_cql_core::deserialize::row::DeserializeRow;
use scylla_cql_core::deserialize::value::DeserializeValue;
use scylla_cql_core::frame::response::result::{CollectionType, ColumnSpec, ColumnType, NativeType, UserDefinedType};
use scylla_cql_core::serialize::value::SerializeValue;
use scylla_cql_core::value::{
    Counter, CqlDate, CqlDecimal, CqlDecimalBorrowed, CqlDuration, CqlTime, CqlTimestamp, CqlTimeuuid, CqlValue, CqlVarint, CqlVarintBorrowed, MaybeEmpty,
    MaybeUnset, Unset,
};
use std::borrow::Cow;
use std::collections::{BTreeMap, BTreeSet, HashMap, HashSet};
use std::net::{IpAddr, Ipv4Addr};
use std::sync::Arc;

pub type TypeCk = fn(&ColumnType) -> Result<(), TypeCheckError>;
pub type RowCk = fn(&[ColumnSpec]) -> Result<(), TypeCheckError>;
/// `TypedRowIterator::<(T,)>::new(..).is_ok()` over an (empty) result with the given columns
pub type GateCk = fn(&'static [ColumnSpec<'static>]) -> bool;

/// The gate every typed result goes through ("type_check() is invoked once per result before
/// any row is read"): building the typed iterator must fail exactly when the type check fails.
fn gate<T>(specs: &'static [ColumnSpec<'static>]) -> bool
where
    T: DeserializeValue<'static, 'static>,
    (T,): DeserializeRow<'static, 'static>,
{
    TypedRowIterator::<'static, 'static, (T,)>::new(RawRowIterator::new(0, specs, FrameSlice::new_empty())).is_ok()
}

pub struct Carrier {
    pub name: &'static str,
    pub car: Car,
    /// a value of the carrier type (serialization direction); `None` for deserialize-only carriers
    pub value: Option<Box<dyn SerializeValue>>,
    /// `<T as DeserializeValue>::type_check`; `None` for serialize-only carriers
    pub typeck: Option<TypeCk>,
    /// `<(T,) as DeserializeRow>::type_check` (the same question asked through the row layer)
    pub rowck: Option<RowCk>,
    /// the typed-iterator gate for a one-column result of this type
    pub gateck: Option<GateCk>,
}

// ---- UDT carriers (derive macros, documented in udt.md and the derive rustdoc) ----

#[derive(Debug, scylla::SerializeValue, scylla::DeserializeValue)]
pub struct UdtAB {
    pub a: i32,
    pub b: String,
}
#[derive(Debug, scylla::SerializeValue, scylla::DeserializeValue)]
pub struct UdtBA {
    pub b: String,
    pub a: i32,
}
#[derive(Debug, scylla::SerializeValue, scylla::DeserializeValue)]
pub struct UdtA {
    pub a: i32,
}
#[derive(Debug, scylla::SerializeValue, scylla::DeserializeValue)]
pub struct UdtABC {
    pub a: i32,
    pub b: String,
    pub c: i64,
}
#[derive(Debug, scylla::SerializeValue, scylla::DeserializeValue)]
pub struct UdtNest {
    pub a: i32,
    pub l: Vec<i32>,
}
#[derive(Debug, scylla::SerializeValue, scylla::DeserializeValue)]
#[scylla(flavor = "enforce_order")]
pub struct UdtOrd {
    pub a: i32,
    pub b: String,
}
#[derive(Debug, scylla::SerializeValue, scylla::DeserializeValue)]
pub struct UdtOpt {
    pub a: Option<i32>,
    pub b: Option<String>,
}

fn lf(l: Leaf) -> Car {
    Car::Leaf(l)
}
fn wrap(c: Car) -> Car {
    Car::Wrap(Box::new(c))
}
fn seq(c: Car, n: usize) -> Car {
    Car::Seq(Box::new(c), n)
}
fn setof(c: Car) -> Car {
    Car::SetOf(Box::new(c))
}
fn mapof(k: Car, v: Car) -> Car {
    Car::MapOf(Box::new(k), Box::new(v))
}
fn dynseq(kind: SeqKind, elem: Car, n: usize) -> Car {
    Car::DynSeq { kind, elem: Box::new(elem), n }
}

pub const UDT_KS: &str = "ks";
pub const UDT_NAME: &str = "t";

pub fn uuid_v() -> uuid::Uuid {
    uuid::Uuid::from_u128(0x8e14e760_7fa8_11eb_bc66_000000000001)
}

pub fn catalogue() -> Vec<Carrier> {
    let mut v: Vec<Carrier> = Vec::new();

    // carrier usable in both directions
    macro_rules! both {
        ($name:expr, $ty:ty, $val:expr, $car:expr) => {{
            let x: $ty = $val;
            v.push(Carrier {
                name: $name,
                car: $car,
                value: Some(Box::new(x)),
                typeck: Some(<$ty as DeserializeValue<'static, 'static>>::type_check),
                rowck: Some(<($ty,) as DeserializeRow<'static, 'static>>::type_check),
                gateck: Some(gate::<$ty>),
            });
        }};
    }
    macro_rules! ser_only {
        ($name:expr, $ty:ty, $val:expr, $car:expr) => {{
            let x: $ty = $val;
            v.push(Carrier { name: $name, car: $car, value: Some(Box::new(x)), typeck: None, rowck: None, gateck: None });
        }};
    }
    macro_rules! de_only {
        ($name:expr, $ty:ty, $car:expr) => {{
            v.push(Carrier {
                name: $name,
                car: $car,
                value: None,
                typeck: Some(<$ty as DeserializeValue<'static, 'static>>::type_check),
                rowck: Some(<($ty,) as DeserializeRow<'static, 'static>>::type_check),
                gateck: Some(gate::<$ty>),
            });
        }};
    }

    // ---- scalars ----
    both!("bool", bool, true, lf(Leaf::Bool));
    both!("i8", i8, 0x5a, lf(Leaf::I8));
    both!("i16", i16, 0x5a5b, lf(Leaf::I16));
    both!("i32", i32, 0x5a5b5c5d, lf(Leaf::I32));
    both!("i64", i64, 0x5a5b5c5d5e5f6061, lf(Leaf::I64));
    both!("f32", f32, 1.5, lf(Leaf::F32));
    both!("f64", f64, -2.25, lf(Leaf::F64));
    both!("String", String, "hello".to_string(), lf(Leaf::Str));
    both!("&str", &'static str, "hello", lf(Leaf::Str));
    both!("Box<str>", Box<str>, "hello".into(), lf(Leaf::Str));
    both!("Arc<str>", Arc<str>, "hello".into(), lf(Leaf::Str));
    both!("Cow<str>", Cow<'static, str>, Cow::Borrowed("hello"), lf(Leaf::Str));
    both!("Vec<u8>", Vec<u8>, vec![1, 2, 3, 4, 5], lf(Leaf::Bytes));
    both!("&[u8]", &'static [u8], &[1u8, 2, 3, 4, 5][..], lf(Leaf::Bytes));
    both!("Bytes", bytes::Bytes, bytes::Bytes::from_static(&[1, 2, 3, 4, 5]), lf(Leaf::Bytes));
    ser_only!("[u8; 4]", [u8; 4], [1, 2, 3, 4], lf(Leaf::Bytes));
    both!("IpAddr", IpAddr, IpAddr::V4(Ipv4Addr::new(127, 0, 0, 1)), lf(Leaf::IpAddr));
    both!("Uuid", uuid::Uuid, uuid_v(), lf(Leaf::Uuid));
    both!("CqlTimeuuid", CqlTimeuuid, CqlTimeuuid::from(uuid_v()), lf(Leaf::CqlTimeuuid));
    both!("CqlDate", CqlDate, CqlDate((1 << 31) + 7), lf(Leaf::DateLike));
    both!("CqlTime", CqlTime, CqlTime(64_000_000_000), lf(Leaf::TimeLike));
    both!("CqlTimestamp", CqlTimestamp, CqlTimestamp(64_000), lf(Leaf::TimestampLike));
    both!("CqlDuration", CqlDuration, CqlDuration { months: 1, days: 2, nanoseconds: 3 }, lf(Leaf::CqlDuration));
    both!("CqlVarint", CqlVarint, CqlVarint::from_signed_bytes_be(vec![0x01, 0xE2, 0x40]), lf(Leaf::VarintLike));
    both!("CqlVarintBorrowed", CqlVarintBorrowed<'static>, CqlVarintBorrowed::from_signed_bytes_be_slice(&[0x01, 0xE2, 0x40]), lf(Leaf::VarintLike));
    both!("CqlDecimal", CqlDecimal, CqlDecimal::from_signed_be_bytes_and_exponent(vec![0x01, 0xE2, 0x40], 3), lf(Leaf::DecimalLike));
    both!(
        "CqlDecimalBorrowed",
        CqlDecimalBorrowed<'static>,
        CqlDecimalBorrowed::from_signed_be_bytes_slice_and_exponent(&[0x01, 0xE2, 0x40], 3),
        lf(Leaf::DecimalLike)
    );
    both!("Counter", Counter, Counter(100), lf(Leaf::Counter));
    // ---- feature-gated carriers (full-serialization) ----
    both!("chrono::NaiveDate", chrono::NaiveDate, chrono::NaiveDate::from_ymd_opt(2021, 3, 24).unwrap(), lf(Leaf::DateLike));
    both!("chrono::NaiveTime", chrono::NaiveTime, chrono::NaiveTime::from_hms_nano_opt(1, 2, 3, 456_789_012).unwrap(), lf(Leaf::TimeLike));
    both!(
        "chrono::DateTime<Utc>",
        chrono::DateTime<chrono::Utc>,
        chrono::DateTime::<chrono::Utc>::from_timestamp_millis(64_123).unwrap(),
        lf(Leaf::TimestampLike)
    );
    both!("time::Date", time::Date, time::Date::from_calendar_date(2021, time::Month::March, 24).unwrap(), lf(Leaf::DateLike));
    both!("time::Time", time::Time, time::Time::from_hms_nano(1, 2, 3, 456_789_012).unwrap(), lf(Leaf::TimeLike));
    both!("time::OffsetDateTime", time::OffsetDateTime, time::OffsetDateTime::from_unix_timestamp(64).unwrap(), lf(Leaf::TimestampLike));
    both!("num_bigint_03::BigInt", num_bigint_03::BigInt, num_bigint_03::BigInt::from(123_456_789_012i64), lf(Leaf::VarintLike));
    both!("num_bigint_04::BigInt", num_bigint_04::BigInt, num_bigint_04::BigInt::from(-123_456_789_012i64), lf(Leaf::VarintLike));
    both!("bigdecimal::BigDecimal", bigdecimal::BigDecimal, "12345.678".parse().unwrap(), lf(Leaf::DecimalLike));
    both!("secrecy_08::Secret<String>", secrecy_08::Secret<String>, secrecy_08::Secret::new("hush".to_string()), wrap(lf(Leaf::Str)));
    both!("secrecy_08::Secret<i32>", secrecy_08::Secret<i32>, secrecy_08::Secret::new(77), wrap(lf(Leaf::I32)));
    both!("secrecy_10::SecretBox<i64>", secrecy_10::SecretBox<i64>, secrecy_10::SecretBox::new(Box::new(77i64)), wrap(lf(Leaf::I64)));
    both!("secrecy_10::SecretString", secrecy_10::SecretString, secrecy_10::SecretString::from("hush"), wrap(lf(Leaf::Str)));
    // ---- transparent wrappers ----
    both!("Option<i32>::Some", Option<i32>, Some(7), wrap(lf(Leaf::I32)));
    both!("Option<String>::Some", Option<String>, Some("x".into()), wrap(lf(Leaf::Str)));
    both!("Option<Vec<i32>>::Some", Option<Vec<i32>>, Some(vec![1, 2]), wrap(seq(lf(Leaf::I32), 2)));
    ser_only!("Option<i32>::None", Option<i32>, None, Car::NullLike);
    ser_only!("Unset", Unset, Unset, Car::NullLike);
    ser_only!("MaybeUnset<i32>::Unset", MaybeUnset<i32>, MaybeUnset::Unset, Car::NullLike);
    ser_only!("MaybeUnset<i64>::Set", MaybeUnset<i64>, MaybeUnset::Set(9), wrap(lf(Leaf::I64)));
    both!("MaybeEmpty<i32>::Value", MaybeEmpty<i32>, MaybeEmpty::Value(9), wrap(lf(Leaf::I32)));
    both!("Box<i16>", Box<i16>, Box::new(3), wrap(lf(Leaf::I16)));
    both!("Arc<f64>", Arc<f64>, Arc::new(3.5), wrap(lf(Leaf::F64)));
    ser_only!("&i32", &'static i32, &17, wrap(lf(Leaf::I32)));
    both!("Arc<String>", Arc<String>, Arc::new("x".to_string()), wrap(lf(Leaf::Str)));
    both!("Box<Vec<i32>>", Box<Vec<i32>>, Box::new(vec![1, 2]), wrap(seq(lf(Leaf::I32), 2)));
    both!("Box<(i32,String)>", Box<(i32, String)>, Box::new((1, "x".to_string())), wrap(Car::Tuple(vec![lf(Leaf::I32), lf(Leaf::Str)])));
    both!("Option<CqlTimestamp>::Some", Option<CqlTimestamp>, Some(CqlTimestamp(1)), wrap(lf(Leaf::TimestampLike)));
    // ---- sequences / sets / maps ----
    both!("Vec<i32>", Vec<i32>, vec![1, 2], seq(lf(Leaf::I32), 2));
    both!("Vec<i64>", Vec<i64>, vec![1, 2], seq(lf(Leaf::I64), 2));
    both!("Vec<String>", Vec<String>, vec!["a".into(), "b".into()], seq(lf(Leaf::Str), 2));
    both!("Vec<Uuid>", Vec<uuid::Uuid>, vec![uuid_v(), uuid_v()], seq(lf(Leaf::Uuid), 2));
    both!("Vec<f32>", Vec<f32>, vec![0.5, 0.25], seq(lf(Leaf::F32), 2));
    both!("Vec<Vec<i32>>", Vec<Vec<i32>>, vec![vec![1, 2], vec![3, 4]], seq(seq(lf(Leaf::I32), 2), 2));
    both!("Vec<(i32,String)>", Vec<(i32, String)>, vec![(1, "a".into()), (2, "b".into())], seq(Car::Tuple(vec![lf(Leaf::I32), lf(Leaf::Str)]), 2));
    ser_only!("&[i32]", &'static [i32], &[1, 2][..], seq(lf(Leaf::I32), 2));
    both!("HashSet<i32>", HashSet<i32>, [1, 2].into_iter().collect(), setof(lf(Leaf::I32)));
    both!("HashSet<String>", HashSet<String>, ["a".to_string(), "b".to_string()].into_iter().collect(), setof(lf(Leaf::Str)));
    both!("BTreeSet<i64>", BTreeSet<i64>, [1i64, 2].into_iter().collect(), setof(lf(Leaf::I64)));
    both!("BTreeSet<String>", BTreeSet<String>, ["a".to_string(), "b".to_string()].into_iter().collect(), setof(lf(Leaf::Str)));
    both!("Vec<BTreeSet<i32>>", Vec<BTreeSet<i32>>, vec![[1, 2].into_iter().collect(), [3].into_iter().collect()], seq(setof(lf(Leaf::I32)), 2));
    both!("HashMap<String,i32>", HashMap<String, i32>, [("a".to_string(), 1), ("b".to_string(), 2)].into_iter().collect(), mapof(lf(Leaf::Str), lf(Leaf::I32)));
    both!("HashMap<i32,String>", HashMap<i32, String>, [(1, "a".to_string()), (2, "b".to_string())].into_iter().collect(), mapof(lf(Leaf::I32), lf(Leaf::Str)));
    both!("BTreeMap<String,i32>", BTreeMap<String, i32>, [("a".to_string(), 1), ("b".to_string(), 2)].into_iter().collect(), mapof(lf(Leaf::Str), lf(Leaf::I32)));
    both!("BTreeMap<i64,Vec<i32>>", BTreeMap<i64, Vec<i32>>, [(1i64, vec![1, 2]), (2, vec![3, 4])].into_iter().collect(), mapof(lf(Leaf::I64), seq(lf(Leaf::I32), 2)));
    both!(
        "HashMap<String,Vec<String>>",
        HashMap<String, Vec<String>>,
        [("a".to_string(), vec!["x".to_string(), "y".to_string()])].into_iter().collect(),
        mapof(lf(Leaf::Str), seq(lf(Leaf::Str), 2))
    );
    both!("BTreeMap<i32,BTreeSet<String>>", BTreeMap<i32, BTreeSet<String>>, [(1, ["a".to_string()].into_iter().collect())].into_iter().collect(), mapof(lf(Leaf::I32), setof(lf(Leaf::Str))));
    // ---- tuples ----
    both!("(i32,)", (i32,), (1,), Car::Tuple(vec![lf(Leaf::I32)]));
    both!("(i32,String)", (i32, String), (1, "abc".into()), Car::Tuple(vec![lf(Leaf::I32), lf(Leaf::Str)]));
    both!("(i32,i32)", (i32, i32), (1, 2), Car::Tuple(vec![lf(Leaf::I32), lf(Leaf::I32)]));
    both!("(String,i64,bool)", (String, i64, bool), ("a".into(), 1, true), Car::Tuple(vec![lf(Leaf::Str), lf(Leaf::I64), lf(Leaf::Bool)]));
    both!("(i32,(i32,String))", (i32, (i32, String)), (1, (2, "x".into())), Car::Tuple(vec![lf(Leaf::I32), Car::Tuple(vec![lf(Leaf::I32), lf(Leaf::Str)])]));
    both!("(Vec<i32>,String)", (Vec<i32>, String), (vec![1, 2], "x".into()), Car::Tuple(vec![seq(lf(Leaf::I32), 2), lf(Leaf::Str)]));
    // ---- UDT structs (derive) ----
    let ab = || vec![("a", lf(Leaf::I32)), ("b", lf(Leaf::Str))];
    both!("derive UdtAB{a:i32,b:String}", UdtAB, UdtAB { a: 1, b: "x".into() }, Car::Udt { fields: ab(), flavor: UdtFlavor::ByName });
    both!("derive UdtBA{b:String,a:i32}", UdtBA, UdtBA { b: "x".into(), a: 1 }, Car::Udt { fields: vec![("b", lf(Leaf::Str)), ("a", lf(Leaf::I32))], flavor: UdtFlavor::ByName });
    both!("derive UdtA{a:i32}", UdtA, UdtA { a: 1 }, Car::Udt { fields: vec![("a", lf(Leaf::I32))], flavor: UdtFlavor::ByName });
    both!(
        "derive UdtABC{a:i32,b:String,c:i64}",
        UdtABC,
        UdtABC { a: 1, b: "x".into(), c: 2 },
        Car::Udt { fields: vec![("a", lf(Leaf::I32)), ("b", lf(Leaf::Str)), ("c", lf(Leaf::I64))], flavor: UdtFlavor::ByName }
    );
    both!("derive UdtNest{a:i32,l:Vec<i32>}", UdtNest, UdtNest { a: 1, l: vec![1, 2] }, Car::Udt { fields: vec![("a", lf(Leaf::I32)), ("l", seq(lf(Leaf::I32), 2))], flavor: UdtFlavor::ByName });
    both!("derive(enforce_order) UdtOrd{a:i32,b:String}", UdtOrd, UdtOrd { a: 1, b: "x".into() }, Car::Udt { fields: ab(), flavor: UdtFlavor::Ordered });
    both!(
        "derive UdtOpt{a:Option<i32>,b:Option<String>}",
        UdtOpt,
        UdtOpt { a: Some(1), b: Some("x".into()) },
        Car::Udt { fields: vec![("a", wrap(lf(Leaf::I32))), ("b", wrap(lf(Leaf::Str)))], flavor: UdtFlavor::ByName }
    );
    both!("Vec<UdtAB>", Vec<UdtAB>, vec![UdtAB { a: 1, b: "x".into() }, UdtAB { a: 2, b: "y".into() }], seq(Car::Udt { fields: ab(), flavor: UdtFlavor::ByName }, 2));
    // ---- dynamic CqlValue: every variant as a value (serialization) ----
    macro_rules! dynv {
        ($name:expr, $val:expr, $car:expr) => {
            ser_only!($name, CqlValue, $val, $car)
        };
    }
    dynv!("CqlValue::Ascii", CqlValue::Ascii("abc".into()), lf(Leaf::DynAscii));
    dynv!("CqlValue::Text", CqlValue::Text("abc".into()), lf(Leaf::DynText));
    dynv!("CqlValue::Boolean", CqlValue::Boolean(true), lf(Leaf::Bool));
    dynv!("CqlValue::Blob", CqlValue::Blob(vec![1, 2, 3]), lf(Leaf::Bytes));
    dynv!("CqlValue::Counter", CqlValue::Counter(Counter(5)), lf(Leaf::Counter));
    dynv!("CqlValue::Decimal", CqlValue::Decimal(CqlDecimal::from_signed_be_bytes_and_exponent(vec![1, 2], 1)), lf(Leaf::DecimalLike));
    dynv!("CqlValue::Date", CqlValue::Date(CqlDate(1 << 31)), lf(Leaf::DateLike));
    dynv!("CqlValue::Double", CqlValue::Double(1.5), lf(Leaf::F64));
    dynv!("CqlValue::Duration", CqlValue::Duration(CqlDuration { months: 1, days: 1, nanoseconds: 1 }), lf(Leaf::CqlDuration));
    dynv!("CqlValue::Float", CqlValue::Float(1.5), lf(Leaf::F32));
    dynv!("CqlValue::Int", CqlValue::Int(5), lf(Leaf::I32));
    dynv!("CqlValue::BigInt", CqlValue::BigInt(5), lf(Leaf::I64));
    dynv!("CqlValue::Timestamp", CqlValue::Timestamp(CqlTimestamp(5)), lf(Leaf::TimestampLike));
    dynv!("CqlValue::Inet", CqlValue::Inet(IpAddr::V4(Ipv4Addr::new(10, 0, 0, 1))), lf(Leaf::IpAddr));
    dynv!("CqlValue::SmallInt", CqlValue::SmallInt(5), lf(Leaf::I16));
    dynv!("CqlValue::TinyInt", CqlValue::TinyInt(5), lf(Leaf::I8));
    dynv!("CqlValue::Time", CqlValue::Time(CqlTime(5)), lf(Leaf::TimeLike));
    dynv!("CqlValue::Timeuuid", CqlValue::Timeuuid(CqlTimeuuid::from(uuid_v())), lf(Leaf::CqlTimeuuid));
    dynv!("CqlValue::Uuid", CqlValue::Uuid(uuid_v()), lf(Leaf::Uuid));
    dynv!("CqlValue::Varint", CqlValue::Varint(CqlVarint::from_signed_bytes_be(vec![1, 2, 3])), lf(Leaf::VarintLike));
    dynv!("CqlValue::List[Int]", CqlValue::List(vec![CqlValue::Int(1), CqlValue::Int(2)]), dynseq(SeqKind::List, lf(Leaf::I32), 2));
    dynv!("CqlValue::Set[Text]", CqlValue::Set(vec![CqlValue::Text("a".into()), CqlValue::Text("b".into())]), dynseq(SeqKind::Set, lf(Leaf::DynText), 2));
    dynv!("CqlValue::Vector[Float]", CqlValue::Vector(vec![CqlValue::Float(0.5), CqlValue::Float(0.25)]), dynseq(SeqKind::Vector, lf(Leaf::F32), 2));
    dynv!(
        "CqlValue::List[List[Int]]",
        CqlValue::List(vec![CqlValue::List(vec![CqlValue::Int(1), CqlValue::Int(2)]), CqlValue::List(vec![CqlValue::Int(3), CqlValue::Int(4)])]),
        dynseq(SeqKind::List, dynseq(SeqKind::List, lf(Leaf::I32), 2), 2)
    );
    dynv!(
        "CqlValue::Map[Text->Int]",
        CqlValue::Map(vec![(CqlValue::Text("a".into()), CqlValue::Int(1)), (CqlValue::Text("b".into()), CqlValue::Int(2))]),
        Car::DynMap(Box::new(lf(Leaf::DynText)), Box::new(lf(Leaf::I32)))
    );
    dynv!(
        "CqlValue::Tuple(Int,Text)",
        CqlValue::Tuple(vec![Some(CqlValue::Int(1)), Some(CqlValue::Text("a".into()))]),
        Car::DynTuple(vec![Some(lf(Leaf::I32)), Some(lf(Leaf::DynText))])
    );
    dynv!("CqlValue::Tuple(Int,null)", CqlValue::Tuple(vec![Some(CqlValue::Int(1)), None]), Car::DynTuple(vec![Some(lf(Leaf::I32)), None]));
    dynv!(
        "CqlValue::UDT ks.t{a:Int,b:Text}",
        CqlValue::UserDefinedType { keyspace: UDT_KS.into(), name: UDT_NAME.into(), fields: vec![("a".into(), Some(CqlValue::Int(1))), ("b".into(), Some(CqlValue::Text("x".into())))] },
        Car::DynUdt { ks: UDT_KS, name: UDT_NAME, fields: vec![("a", Some(lf(Leaf::I32))), ("b", Some(lf(Leaf::DynText)))] }
    );
    dynv!(
        "CqlValue::UDT ks.other{a:Int}",
        CqlValue::UserDefinedType { keyspace: UDT_KS.into(), name: "other".into(), fields: vec![("a".into(), Some(CqlValue::Int(1)))] },
        Car::DynUdt { ks: UDT_KS, name: "other", fields: vec![("a", Some(lf(Leaf::I32)))] }
    );
    ser_only!("Vec<CqlValue>[Int,Int]", Vec<CqlValue>, vec![CqlValue::Int(1), CqlValue::Int(2)], seq(lf(Leaf::I32), 2));
    de_only!("CqlValue (target)", CqlValue, Car::DynAny);
    de_only!("Vec<CqlValue> (target)", Vec<CqlValue>, seq(Car::DynAny, 0));
    de_only!("Option<CqlValue> (target)", Option<CqlValue>, wrap(Car::DynAny));
    v
}

// ---------------------------------------------------------------------------------
// Column types
// ---------------------------------------------------------------------------------

pub fn native_of(n: Nat) -> NativeType {
    match n {
        Nat::Ascii => NativeType::Ascii,
        Nat::BigInt => NativeType::BigInt,
        Nat::Blob => NativeType::Blob,
        Nat::Boolean => NativeType::Boolean,
        Nat::Counter => NativeType::Counter,
        Nat::Date => NativeType::Date,
        Nat::Decimal => NativeType::Decimal,
        Nat::Double => NativeType::Double,
        Nat::Duration => NativeType::Duration,
        Nat::Float => NativeType::Float,
        Nat::Inet => NativeType::Inet,
        Nat::Int => NativeType::Int,
        Nat::SmallInt => NativeType::SmallInt,
        Nat::Text => NativeType::Text,
        Nat::Time => NativeType::Time,
        Nat::Timestamp => NativeType::Timestamp,
        Nat::Timeuuid => NativeType::Timeuuid,
        Nat::TinyInt => NativeType::TinyInt,
        Nat::Uuid => NativeType::Uuid,
        Nat::Varint => NativeType::Varint,
    }
}

/// Model type -> driver `ColumnType` (nested collections/UDTs are frozen, as CQL requires).
pub fn column_type(t: &Ty) -> ColumnType<'static> {
    conv(t, false)
}

fn conv(t: &Ty, nested: bool) -> ColumnType<'static> {
    match t {
        Ty::Nat(n) => ColumnType::Native(native_of(*n)),
        Ty::List(e) => ColumnType::Collection { frozen: nested, typ: CollectionType::List(Box::new(conv(e, true))) },
        Ty::Set(e) => ColumnType::Collection { frozen: nested, typ: CollectionType::Set(Box::new(conv(e, true))) },
        Ty::Map(k, v) => ColumnType::Collection { frozen: nested, typ: CollectionType::Map(Box::new(conv(k, true)), Box::new(conv(v, true))) },
        Ty::Vector(e, d) => ColumnType::Vector { typ: Box::new(conv(e, true)), dimensions: *d },
        Ty::Tuple(ts) => ColumnType::Tuple(ts.iter().map(|t| conv(t, true)).collect()),
        Ty::Udt { ks, name, fields } => ColumnType::UserDefinedType {
            frozen: nested,
            definition: Arc::new(UserDefinedType {
                name: Cow::Owned(name.clone()),
                keyspace: Cow::Owned(ks.clone()),
                field_types: fields.iter().map(|(n, t)| (Cow::Owned(n.clone()), conv(t, true))).collect(),
            }),
        },
    }
}

fn nat(n: Nat) -> Ty {
    Ty::Nat(n)
}

fn udt(fields: Vec<(&str, Ty)>) -> Ty {
    Ty::udt(UDT_KS, UDT_NAME, fields)
}

/// The "small" one-level family used as the inner level of two-level types: every
/// container kind over every native.
pub fn level1_small() -> Vec<Ty> {
    let mut v = Vec::new();
    for n in NATIVES {
        v.push(Ty::list(nat(n)));
        v.push(Ty::set(nat(n)));
        v.push(Ty::vector(nat(n), 2));
        v.push(Ty::map(nat(Nat::Text), nat(n)));
        v.push(Ty::map(nat(n), nat(Nat::Int)));
        v.push(Ty::Tuple(vec![nat(n), nat(Nat::Text)]));
        v.push(Ty::Tuple(vec![nat(n)]));
        v.push(udt(vec![("a", nat(n))]));
        v.push(udt(vec![("a", nat(n)), ("b", nat(Nat::Text))]));
    }
    v
}

/// All column types of the matrix: natives, containers of natives (complete over the
/// native x native grid for the binary kinds), containers of those (two levels).
pub fn column_types(miri: bool) -> Vec<Ty> {
    let mut v: Vec<Ty> = Vec::new();
    // level 0
    for n in NATIVES {
        v.push(nat(n));
    }
    if miri {
        // the interpreter is ~1000x slower: a token sample only (6 natives + 6 containers)
        v.retain(|t| matches!(t, Ty::Nat(Nat::Int | Nat::Text | Nat::BigInt | Nat::Blob | Nat::Timestamp | Nat::Uuid)));
        for n in [Nat::Int, Nat::Text] {
            v.push(Ty::list(nat(n)));
            v.push(Ty::map(nat(Nat::Text), nat(n)));
            v.push(Ty::list(Ty::list(nat(n))));
        }
        return v;
    }
    // level 1
    for n in NATIVES {
        v.push(Ty::list(nat(n)));
        v.push(Ty::set(nat(n)));
        v.push(Ty::vector(nat(n), 2));
        v.push(Ty::vector(nat(n), 3)); // dimension differs from every catalogue value (2 elements)
        v.push(Ty::Tuple(vec![nat(n)]));
        v.push(Ty::Tuple(vec![nat(n), nat(Nat::Text), nat(Nat::BigInt)]));
        v.push(Ty::Tuple(vec![nat(Nat::Text), nat(Nat::BigInt), nat(n)]));
        v.push(udt(vec![("a", nat(n))]));
        v.push(udt(vec![("x", nat(n))]));
        v.push(udt(vec![("a", nat(n)), ("b", nat(Nat::Text)), ("c", nat(Nat::BigInt))]));
        v.push(udt(vec![("c", nat(Nat::BigInt)), ("a", nat(n)), ("b", nat(Nat::Text))]));
        v.push(Ty::udt(UDT_KS, "other", vec![("a", nat(n))]));
        v.push(Ty::udt("ks2", UDT_NAME, vec![("a", nat(n)), ("b", nat(Nat::Text))]));
        for m in NATIVES {
            v.push(Ty::map(nat(n), nat(m)));
            v.push(Ty::Tuple(vec![nat(n), nat(m)]));
            v.push(udt(vec![("a", nat(n)), ("b", nat(m))]));
            v.push(udt(vec![("b", nat(m)), ("a", nat(n))]));
        }
    }
    // level 2
    for x in level1_small() {
        v.push(Ty::list(x.clone()));
        v.push(Ty::set(x.clone()));
        v.push(Ty::vector(x.clone(), 2));
        v.push(Ty::map(nat(Nat::Text), x.clone()));
        v.push(Ty::map(nat(Nat::Int), x.clone()));
        v.push(Ty::map(nat(Nat::BigInt), x.clone()));
        v.push(Ty::map(x.clone(), nat(Nat::Int)));
        v.push(Ty::Tuple(vec![x.clone(), nat(Nat::Text)]));
        v.push(Ty::Tuple(vec![nat(Nat::Int), x.clone()]));
        v.push(udt(vec![("a", nat(Nat::Int)), ("l", x.clone())]));
        v.push(udt(vec![("a", x.clone())]));
    }
    v
}
