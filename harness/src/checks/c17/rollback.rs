//! C17 part 2: rollback monitor on `SerializedValues` / `RowWriter`.
//!
//! For every prefix of a generated list of well-typed values and every failure kind, the
//! bound values are observed before and after the failing `add_value`; they must be
//! byte-for-byte and count-for-count identical, and the reported count must always equal
//! the number of encoded cells. The same lists go through `from_serializable`,
//! `from_closure` and a bare `RowWriter`.

use super::catalogue::{UdtAB, UdtABC, column_type};
use super::snap::{self, Snapshot};
use crate::fw::{self, Outcome, Rng};
use crate::refmodel::typecompat::{Nat, Ty};
use scylla_cql_core::frame::response::result::{ColumnSpec, TableSpec};
use scylla_cql_core::serialize::row::{RowSerializationContext, SerializedValues};
use scylla_cql_core::serialize::value::SerializeValue;
use scylla_cql_core::serialize::{CellWriter, RowWriter};
use scylla_cql_core::value::{Counter, CqlDate, CqlDecimal, CqlDuration, CqlValue, MaybeEmpty, MaybeUnset, Unset};
use serde_json::json;
use std::collections::{BTreeMap, HashMap, HashSet};

pub struct Item {
    pub val: Box<dyn SerializeValue>,
    pub ty: Ty,
    pub desc: String,
}

fn item<T: SerializeValue + 'static>(v: T, ty: Ty, desc: impl Into<String>) -> Item {
    Item { val: Box::new(v), ty, desc: desc.into() }
}

fn n(x: Nat) -> Ty {
    Ty::Nat(x)
}

fn ascii(rng: &mut Rng, max: usize) -> String {
    let len = rng.usize(0, max);
    (0..len).map(|_| (b'a' + rng.below(26) as u8) as char).collect()
}

fn vec_i32(rng: &mut Rng, len: usize) -> Vec<i32> {
    (0..len).map(|_| rng.u32() as i32).collect()
}

fn udt_ab_ty() -> Ty {
    Ty::udt("ks", "t", vec![("a", n(Nat::Int)), ("b", n(Nat::Text))])
}

/// A well-typed (value, column type) pair; every one of them is a documented pairing.
pub fn gen_good(rng: &mut Rng) -> Item {
    match rng.below(20) {
        0 => item(rng.u32() as i32, n(Nat::Int), "i32->int"),
        1 => item(rng.i64_boundary(), n(Nat::BigInt), "i64->bigint"),
        2 => {
            let s = ascii(rng, 40);
            let t = if rng.bool() { Nat::Text } else { Nat::Ascii };
            item(s, n(t), "String->text/ascii")
        }
        3 => {
            let len = rng.usize(0, 300);
            item(rng.bytes(len), n(Nat::Blob), "Vec<u8>->blob")
        }
        4 => item(Option::<i32>::None, n(*rng.pick(&crate::refmodel::typecompat::NATIVES)), "None->any (null)"),
        5 => item(Unset, n(*rng.pick(&crate::refmodel::typecompat::NATIVES)), "Unset->any"),
        6 => {
            let len = rng.usize(0, 6);
            let v = vec_i32(rng, len);
            let t = if rng.bool() { Ty::list(n(Nat::Int)) } else { Ty::set(n(Nat::Int)) };
            item(v, t, "Vec<i32>->list/set<int>")
        }
        7 => {
            let d = rng.usize(1, 5);
            let v: Vec<f32> = (0..d).map(|_| f32::from_bits(rng.u32())).collect();
            item(v, Ty::vector(n(Nat::Float), d as u16), "Vec<f32>->vector<float,d>")
        }
        8 => {
            let len = rng.usize(0, 4);
            // fixed hasher: the iteration order (hence the bytes and the case hash) is the same in every run
            let m: HashMap<String, i32, std::hash::BuildHasherDefault<std::collections::hash_map::DefaultHasher>> = (0..len).map(|i| (format!("k{i}{}", ascii(rng, 5)), rng.u32() as i32)).collect();
            item(m, Ty::map(n(Nat::Text), n(Nat::Int)), "HashMap<String,i32>->map<text,int>")
        }
        9 => item((rng.u32() as i32, ascii(rng, 12)), Ty::Tuple(vec![n(Nat::Int), n(Nat::Text)]), "(i32,String)->tuple<int,text>"),
        10 => {
            let v = UdtAB { a: rng.u32() as i32, b: ascii(rng, 10) };
            let t = if rng.bool() { udt_ab_ty() } else { Ty::udt("ks", "t", vec![("b", n(Nat::Text)), ("a", n(Nat::Int)), ("z", n(Nat::Blob))]) };
            item(v, t, "derive UdtAB->udt")
        }
        11 => {
            let len = rng.usize(0, 4);
            let l: Vec<CqlValue> = (0..len).map(|_| CqlValue::Tuple(vec![Some(CqlValue::Int(rng.u32() as i32)), if rng.bool() { Some(CqlValue::Text(ascii(rng, 8))) } else { None }])).collect();
            item(CqlValue::List(l), Ty::list(Ty::Tuple(vec![n(Nat::Int), n(Nat::Text)])), "CqlValue::List[Tuple]->list<tuple<int,text>>")
        }
        12 => item(uuid::Uuid::from_u128(((rng.u64() as u128) << 64) | rng.u64() as u128), n(Nat::Uuid), "Uuid->uuid"),
        13 => item(rng.bool(), n(Nat::Boolean), "bool->boolean"),
        14 => item(CqlDuration { months: rng.u32() as i32, days: rng.u32() as i32, nanoseconds: rng.i64_boundary() }, n(Nat::Duration), "CqlDuration->duration"),
        15 => {
            let len = rng.usize(1, 12);
            item(CqlDecimal::from_signed_be_bytes_and_exponent(rng.bytes(len), rng.u32() as i32), n(Nat::Decimal), "CqlDecimal->decimal")
        }
        16 => {
            let d = rng.usize(1, 4);
            let v: Vec<String> = (0..d).map(|_| ascii(rng, 200)).collect();
            item(v, Ty::vector(n(Nat::Text), d as u16), "Vec<String>->vector<text,d>")
        }
        17 => item(MaybeEmpty::<i32>::Empty, n(Nat::Int), "MaybeEmpty::Empty->int"),
        18 => {
            let len = rng.usize(0, 3);
            let m: BTreeMap<i64, Vec<i32>> = (0..len).map(|i| (i as i64, vec_i32(rng, i + 1))).collect();
            item(m, Ty::map(n(Nat::BigInt), Ty::list(n(Nat::Int))), "BTreeMap<i64,Vec<i32>>->map<bigint,list<int>>")
        }
        _ => item(num_bigint_04::BigInt::from(rng.i64_boundary()) * num_bigint_04::BigInt::from(rng.i64_boundary()), n(Nat::Varint), "BigInt->varint"),
    }
}

pub struct FailItem {
    pub item: Item,
    pub kind: &'static str,
    /// the documentation / protocol makes failure mandatory (otherwise only "if it fails, nothing changes" is asserted)
    pub must_fail: bool,
}

pub const FAIL_KINDS: [&str; 15] = [
    "scalar-mismatch",
    "wrapped-mismatch",
    "seq-first-element-mismatch",
    "seq-late-element-mismatch",
    "tuple-late-element-mismatch",
    "tuple-too-long",
    "map-late-entry-mismatch",
    "udt-late-field-mismatch",
    "vector-dimension",
    "nested-vector-dimension-late",
    "element-overflow-late",
    "decimal-scale-overflow",
    "not-emptyable",
    "varlen-vector-late-element",
    "wrong-container-kind",
];

fn ints(rng: &mut Rng, k: usize) -> Vec<CqlValue> {
    (0..k).map(|_| CqlValue::Int(rng.u32() as i32)).collect()
}

fn bad_bigdecimal(rng: &mut Rng) -> bigdecimal::BigDecimal {
    // the CQL decimal has a 32-bit scale (decimal.md); this scale cannot be represented
    let scale = if rng.bool() { i64::MAX - rng.below(1000) as i64 } else { i32::MAX as i64 + 1 + rng.below(1000) as i64 };
    bigdecimal::BigDecimal::new(bigdecimal::num_bigint::BigInt::from(rng.u32()), scale)
}

fn leap_second() -> chrono::NaiveTime {
    // chrono represents a leap second as nanosecond >= 1_000_000_000; time.md: writing it returns an error
    chrono::NaiveTime::from_hms_nano_opt(23, 59, 59, 1_500_000_000).expect("leap second time")
}

/// A (value, column type) pair whose `add_value` fails, of the given kind.
pub fn gen_fail(rng: &mut Rng, kind: usize) -> FailItem {
    let k = rng.usize(1, 5); // number of well-typed elements written before the failing one
    let (item, must_fail) = match kind {
        0 => (
            match rng.below(10) {
                0 => item(rng.u32() as i32, n(Nat::Text), "i32->text"),
                1 => item(ascii(rng, 9), n(Nat::Int), "String->int"),
                2 => item(rng.u64() as i64, n(Nat::Int), "i64->int"),
                3 => item(rng.u32() as i32, n(Nat::BigInt), "i32->bigint"),
                4 => item(rng.bytes(4), n(Nat::Int), "Vec<u8>->int"),
                5 => item(rng.bool(), n(Nat::TinyInt), "bool->tinyint"),
                6 => item(f32::from_bits(rng.u32()), n(Nat::Double), "f32->double"),
                7 => item(CqlDate(rng.u32()), n(Nat::Int), "CqlDate->int"),
                8 => item(Counter(rng.u64() as i64), n(Nat::BigInt), "Counter->bigint"),
                _ => item(uuid::Uuid::from_u128(rng.u64() as u128), n(Nat::Blob), "Uuid->blob"),
            },
            true,
        ),
        1 => (
            if rng.bool() { item(Some(rng.u32() as i32), n(Nat::Text), "Some(i32)->text") } else { item(MaybeUnset::Set(ascii(rng, 5)), n(Nat::Int), "MaybeUnset::Set(String)->int") },
            true,
        ),
        2 => (
            if rng.bool() {
                item((0..k).map(|_| rng.u64() as i64).collect::<Vec<i64>>(), Ty::list(n(Nat::Int)), "Vec<i64>->list<int>")
            } else {
                item((0..k).map(|i| format!("{i}{}", ascii(rng, 4))).collect::<HashSet<String>>(), Ty::set(n(Nat::Int)), "HashSet<String>->set<int>")
            },
            true,
        ),
        3 => {
            let mut l = ints(rng, k);
            l.push(CqlValue::Text(ascii(rng, 6)));
            let tail = rng.usize(0, 2);
            l.extend(ints(rng, tail));
            let t = if rng.bool() { Ty::list(n(Nat::Int)) } else { Ty::set(n(Nat::Int)) };
            (item(l, t, format!("Vec<CqlValue>[Int x{k}, Text, ..]->list/set<int>")), true)
        }
        4 => (
            if rng.bool() {
                item((rng.u32() as i32, ascii(rng, 20), rng.u64() as i64), Ty::Tuple(vec![n(Nat::Int), n(Nat::Text), n(Nat::Int)]), "(i32,String,i64)->tuple<int,text,int>")
            } else {
                item((rng.u32() as i32, (rng.u32() as i32, ascii(rng, 7))), Ty::Tuple(vec![n(Nat::Int), Ty::Tuple(vec![n(Nat::Int), n(Nat::Int)])]), "(i32,(i32,String))->tuple<int,tuple<int,int>>")
            },
            true,
        ),
        5 => (
            if rng.bool() {
                item((1i32, 2i32, 3i32), Ty::Tuple(vec![n(Nat::Int), n(Nat::Int)]), "(i32,i32,i32)->tuple<int,int>")
            } else {
                item(CqlValue::Tuple(vec![Some(CqlValue::Int(1)), None, Some(CqlValue::Int(3))]), Ty::Tuple(vec![n(Nat::Int), n(Nat::Int)]), "CqlValue::Tuple x3->tuple<int,int>")
            },
            true,
        ),
        6 => (
            if rng.bool() {
                item((0..k).map(|i| (format!("k{i}"), rng.u64() as i64)).collect::<BTreeMap<String, i64>>(), Ty::map(n(Nat::Text), n(Nat::Int)), "BTreeMap<String,i64>->map<text,int>")
            } else {
                let mut m: Vec<(CqlValue, CqlValue)> = (0..k).map(|i| (CqlValue::Text(format!("k{i}")), CqlValue::Int(i as i32))).collect();
                m.push((CqlValue::Int(9), CqlValue::Int(9)));
                item(CqlValue::Map(m), Ty::map(n(Nat::Text), n(Nat::Int)), format!("CqlValue::Map[(Text,Int) x{k}, (Int,Int)]->map<text,int>"))
            },
            true,
        ),
        7 => (
            match rng.below(3) {
                0 => item(UdtAB { a: rng.u32() as i32, b: ascii(rng, 9) }, Ty::udt("ks", "t", vec![("a", n(Nat::Int)), ("b", n(Nat::Int))]), "derive UdtAB->udt{a:int,b:int}"),
                1 => item(UdtABC { a: 1, b: ascii(rng, 9), c: 2 }, udt_ab_ty(), "derive UdtABC->udt{a:int,b:text} (field c unknown)"),
                _ => item(
                    CqlValue::UserDefinedType {
                        keyspace: "ks".into(),
                        name: "t".into(),
                        fields: vec![("a".into(), Some(CqlValue::Int(1))), ("b".into(), Some(CqlValue::Text(ascii(rng, 9)))), ("zz".into(), Some(CqlValue::Int(3)))],
                    },
                    udt_ab_ty(),
                    "CqlValue::UDT with an extra field->udt{a:int,b:text}",
                ),
            },
            true,
        ),
        8 => {
            let d = rng.usize(1, 6);
            let len = if rng.bool() { d + rng.usize(1, 3) } else { d - 1 };
            (item(vec_i32(rng, len), Ty::vector(n(Nat::Int), d as u16), format!("Vec<i32> len {len}->vector<int,{d}>")), true)
        }
        9 => {
            let d = rng.usize(1, 4);
            let mut vv: Vec<Vec<i32>> = (0..k).map(|_| vec_i32(rng, d)).collect();
            vv.push(vec_i32(rng, d + 1));
            if rng.bool() {
                (item(vv, Ty::list(Ty::vector(n(Nat::Int), d as u16)), format!("Vec<Vec<i32>> last too long->list<vector<int,{d}>>")), true)
            } else {
                let outer = vv.len() as u16;
                (item(vv, Ty::vector(Ty::vector(n(Nat::Int), d as u16), outer), format!("Vec<Vec<i32>> last too long->vector<vector<int,{d}>,{outer}>")), true)
            }
        }
        10 => {
            if rng.chance(1, 4) {
                (item(leap_second(), n(Nat::Time), "NaiveTime leap second->time"), true)
            } else {
                let mut v: Vec<chrono::NaiveTime> = (0..k).map(|i| chrono::NaiveTime::from_hms_opt(i as u32, 1, 2).unwrap()).collect();
                v.push(leap_second());
                (item(v, Ty::list(n(Nat::Time)), format!("Vec<NaiveTime>[ok x{k}, leap second]->list<time>")), true)
            }
        }
        11 => {
            if rng.chance(1, 4) {
                (item(bad_bigdecimal(rng), n(Nat::Decimal), "BigDecimal with 64-bit scale->decimal"), true)
            } else {
                let mut v: Vec<bigdecimal::BigDecimal> = (0..k).map(|i| bigdecimal::BigDecimal::new(bigdecimal::num_bigint::BigInt::from(i as i64 * 977), 2)).collect();
                v.push(bad_bigdecimal(rng));
                (item(v, Ty::list(n(Nat::Decimal)), format!("Vec<BigDecimal>[ok x{k}, 64-bit scale]->list<decimal>")), true)
            }
        }
        12 => (
            match rng.below(3) {
                0 => item(CqlValue::Empty, n(Nat::Counter), "CqlValue::Empty->counter"),
                1 => item(CqlValue::Empty, Ty::list(n(Nat::Int)), "CqlValue::Empty->list<int>"),
                _ => {
                    let mut l: Vec<CqlValue> = (0..k).map(|i| CqlValue::Counter(Counter(i as i64))).collect();
                    l.push(CqlValue::Empty);
                    item(CqlValue::List(l), Ty::list(n(Nat::Counter)), format!("CqlValue::List[Counter x{k}, Empty]->list<counter>"))
                }
            },
            false,
        ),
        13 => {
            let mut l: Vec<CqlValue> = (0..k).map(|_| CqlValue::Text(ascii(rng, 150))).collect();
            l.push(CqlValue::Int(1));
            let d = l.len() as u16;
            (item(l, Ty::vector(n(Nat::Text), d), format!("Vec<CqlValue>[Text x{k}, Int]->vector<text,{d}>")), true)
        }
        _ => (
            match rng.below(4) {
                0 => item(vec_i32(rng, k), Ty::map(n(Nat::Int), n(Nat::Int)), "Vec<i32>->map<int,int>"),
                1 => item([(1i32, 2i32)].into_iter().collect::<HashMap<i32, i32>>(), Ty::list(n(Nat::Int)), "HashMap<i32,i32>->list<int>"),
                2 => item((rng.u32() as i32,), n(Nat::Int), "(i32,)->int"),
                _ => item(UdtAB { a: 1, b: "x".into() }, Ty::Tuple(vec![n(Nat::Int), n(Nat::Text)]), "derive UdtAB->tuple<int,text>"),
            },
            true,
        ),
    };
    FailItem { item, kind: FAIL_KINDS[kind.min(FAIL_KINDS.len() - 1)], must_fail }
}

fn replay(seed: u64, stream: u64) -> serde_json::Value {
    json!({"kind": "rollback", "seed": seed, "stream": stream})
}

/// The failing attempt proper. Returns false when the object is broken beyond further use.
fn attempt_fail(o: &mut Outcome, sv: &mut SerializedValues, before: &Snapshot, f: &FailItem, rp: &serde_json::Value) -> bool {
    let ct = column_type(&f.item.ty);
    let dynref: &dyn SerializeValue = &*f.item.val;
    let key = fw::hash64(format!("rb|{}|{}|{}|{}", f.kind, f.item.desc, before.count, fw::hash64(&before.raw)).as_bytes());
    o.case(key, true);
    let r = match fw::catch(|| sv.add_value(&dynref, &ct).map_err(|e| e.to_string())) {
        Ok(r) => r,
        Err(p) => {
            o.violation(format!("rollback:add_value:panic:{}", f.kind), format!("add_value({}) panicked: {p}", f.item.desc), rp.clone());
            return false;
        }
    };
    let after = match snap::take(sv) {
        Ok(s) => s,
        Err(e) => {
            o.violation(
                format!("rollback:add_value:inconsistent-after-{}:{}", if r.is_ok() { "ok" } else { "failure" }, f.kind),
                format!("after add_value({}) returned {}: {e} (before: {} values, {} bytes)", f.item.desc, if r.is_ok() { "Ok" } else { "Err" }, before.count, before.raw.len()),
                rp.clone(),
            );
            return false;
        }
    };
    match r {
        Err(_) => {
            o.class(&format!("rollback:failed:{}", f.kind));
            if before.count > 0 {
                o.class("rollback:failed-on-nonempty-prefix");
            }
            if after != *before {
                o.violation(
                    format!("rollback:add_value:not-rolled-back:{}", f.kind),
                    format!("failed add_value({}) changed the already-bound values: {}", f.item.desc, snap::diff(before, &after)),
                    rp.clone(),
                );
                return false;
            }
            true
        }
        Ok(()) => {
            if f.must_fail {
                o.violation(
                    format!("rollback:add_value:failing-value-accepted:{}", f.kind),
                    format!("add_value({}) returned Ok ({} -> {} values, {} -> {} bytes)", f.item.desc, before.count, after.count, before.raw.len(), after.raw.len()),
                    rp.clone(),
                );
            }
            // the value went in: the rest of the case would run on different contents than planned
            false
        }
    }
}

fn cell_bytes(it: &Item) -> Result<Vec<u8>, String> {
    let ct = column_type(&it.ty);
    let mut buf = Vec::new();
    it.val.serialize(&ct, CellWriter::new(&mut buf)).map(|_| ()).map_err(|e| e.to_string())?;
    Ok(buf)
}

/// One generated list: every prefix x every failure kind, then the row-level paths.
pub fn case(o: &mut Outcome, seed: u64, stream: u64) {
    let mut rng = Rng::new(seed, stream);
    let rp = replay(seed, stream);
    let len = rng.usize(0, 9);
    let goods: Vec<Item> = (0..len).map(|_| gen_good(&mut rng)).collect();
    let mut sv = SerializedValues::new();
    let mut snap_now = match snap::take(&sv) {
        Ok(s) => s,
        Err(e) => {
            o.violation("rollback:new:inconsistent", format!("SerializedValues::new(): {e}"), rp);
            return;
        }
    };
    for k in 0..=len {
        for kind in 0..FAIL_KINDS.len() {
            let f = gen_fail(&mut rng, kind);
            if !attempt_fail(o, &mut sv, &snap_now, &f, &rp) {
                return;
            }
        }
        if k == len {
            break;
        }
        // bind the next well-typed value
        let g = &goods[k];
        let ct = column_type(&g.ty);
        let cell = match fw::catch(|| cell_bytes(g)) {
            Ok(Ok(c)) => c,
            Ok(Err(e)) => {
                o.violation("rollback:good-value-rejected", format!("serialize({}) into {} failed: {e}", g.desc, g.ty.show()), rp);
                return;
            }
            Err(p) => {
                o.violation("rollback:good-value-panic", format!("serialize({}) panicked: {p}", g.desc), rp);
                return;
            }
        };
        let dynref: &dyn SerializeValue = &*g.val;
        match fw::catch(|| sv.add_value(&dynref, &ct).map_err(|e| e.to_string())) {
            Ok(Ok(())) => {}
            Ok(Err(e)) => {
                o.violation("rollback:good-value-rejected", format!("add_value({}) as {} failed: {e}", g.desc, g.ty.show()), rp);
                return;
            }
            Err(p) => {
                o.violation("rollback:good-value-panic", format!("add_value({}) panicked: {p}", g.desc), rp);
                return;
            }
        }
        let after = match snap::take(&sv) {
            Ok(s) => s,
            Err(e) => {
                o.violation("rollback:add_value:inconsistent-after-ok:good", format!("after add_value({}): {e}", g.desc), rp);
                return;
            }
        };
        let mut want = snap_now.raw.clone();
        want.extend_from_slice(&cell);
        if after.raw != want || after.count != snap_now.count + 1 {
            o.violation(
                "rollback:add_value:bad-append",
                format!("add_value({}) on {} values: expected old bytes + one cell ({} bytes) and count {}, got {} bytes and count {}", g.desc, snap_now.count, want.len(), snap_now.count + 1, after.raw.len(), after.count),
                rp,
            );
            return;
        }
        o.evals(1);
        snap_now = after;
    }
    o.class("rollback:list-completed");
    row_paths(o, &mut rng, &goods, &sv, &snap_now, &rp);
}

fn specs_for(items: &[&Item]) -> Vec<ColumnSpec<'static>> {
    items.iter().enumerate().map(|(i, it)| ColumnSpec::owned(format!("c{i}"), column_type(&it.ty), TableSpec::owned("ks".into(), "tbl".into()))).collect()
}

/// `from_serializable`, `from_closure` and a bare `RowWriter` on the same values.
fn row_paths(o: &mut Outcome, rng: &mut Rng, goods: &[Item], sv: &SerializedValues, want: &Snapshot, rp: &serde_json::Value) {
    let refs: Vec<&Item> = goods.iter().collect();
    let specs = specs_for(&refs);
    let ctx = RowSerializationContext::from_specs(&specs);
    let row: Vec<&dyn SerializeValue> = goods.iter().map(|g| &*g.val as &dyn SerializeValue).collect();

    // all-good row through from_serializable (slice/Vec impl) == incremental add_value
    o.evals(1);
    match fw::catch(|| SerializedValues::from_serializable(&ctx, &row).map_err(|e| e.to_string())) {
        Ok(Ok(sv2)) => match snap::take(&sv2) {
            Ok(s) if s == *want && sv2 == *sv => o.class("row:from_serializable-ok"),
            Ok(s) => o.violation("row:from_serializable:differs-from-add_value", format!("from_serializable of {} good values differs from the incremental object: {}", goods.len(), snap::diff(want, &s)), rp.clone()),
            Err(e) => o.violation("row:from_serializable:inconsistent-object", format!("from_serializable of {} good values: {e}", goods.len()), rp.clone()),
        },
        Ok(Err(e)) => o.violation("row:from_serializable:good-row-rejected", format!("from_serializable of {} good values failed: {e}", goods.len()), rp.clone()),
        Err(p) => o.violation("row:from_serializable:panic", format!("from_serializable panicked: {p}"), rp.clone()),
    }
    // by-name row (HashMap<&str, _>)
    if !goods.is_empty() {
        let names: Vec<String> = (0..goods.len()).map(|i| format!("c{i}")).collect();
        let by_name: HashMap<&str, &dyn SerializeValue> = names.iter().map(|s| s.as_str()).zip(row.iter().copied()).collect();
        o.evals(1);
        match fw::catch(|| SerializedValues::from_serializable(&ctx, &by_name).map_err(|e| e.to_string())) {
            Ok(Ok(sv2)) => match snap::take(&sv2) {
                Ok(s) if s == *want => o.class("row:by-name-ok"),
                Ok(s) => o.violation("row:by-name:differs-from-add_value", format!("by-name row differs: {}", snap::diff(want, &s)), rp.clone()),
                Err(e) => o.violation("row:by-name:inconsistent-object", e, rp.clone()),
            },
            Ok(Err(e)) => o.violation("row:by-name:good-row-rejected", format!("by-name row of good values failed: {e}"), rp.clone()),
            Err(p) => o.violation("row:by-name:panic", p, rp.clone()),
        }
    }

    // a failing value at every position of the row: the result must be an error
    for pos in 0..=goods.len() {
        let kind = rng.below(FAIL_KINDS.len() as u64) as usize;
        let f = gen_fail(rng, kind);
        let mut items: Vec<&Item> = goods.iter().collect();
        items.insert(pos, &f.item);
        let specs = specs_for(&items);
        let ctx = RowSerializationContext::from_specs(&specs);
        let row: Vec<&dyn SerializeValue> = items.iter().map(|g| &*g.val as &dyn SerializeValue).collect();
        o.case(fw::hash64(format!("row|{}|{}|{pos}|{}", f.kind, f.item.desc, fw::hash64(&want.raw)).as_bytes()), true);
        match fw::catch(|| SerializedValues::from_serializable(&ctx, &row).map_err(|e| e.to_string())) {
            Ok(Err(_)) => o.class("row:failing-row-rejected"),
            Ok(Ok(sv2)) => {
                if f.must_fail {
                    o.violation(
                        format!("row:from_serializable:failing-row-accepted:{}", f.kind),
                        format!("from_serializable returned an object ({} values, {} bytes) for a row whose value #{pos} is {}", sv2.element_count(), sv2.buffer_size(), f.item.desc),
                        rp.clone(),
                    );
                }
            }
            Err(p) => o.violation("row:from_serializable:panic", format!("from_serializable panicked on a failing row: {p}"), rp.clone()),
        }
        // same through from_closure with the error propagated by `?` after `pos` good cells
        let r = fw::catch(|| {
            SerializedValues::from_closure(|w: &mut RowWriter| {
                for (it, spec) in items.iter().zip(specs.iter()) {
                    it.val.serialize(spec.typ(), w.make_cell_writer())?;
                }
                Ok(w.value_count())
            })
            .map(|(sv, n)| (sv.element_count(), n))
            .map_err(|e| e.to_string())
        });
        match r {
            Ok(Err(_)) => {}
            Ok(Ok((cnt, n))) => {
                if f.must_fail {
                    o.violation(format!("row:from_closure:failing-row-accepted:{}", f.kind), format!("from_closure returned an object ({cnt} values, writer counted {n}) for a row whose value #{pos} is {}", f.item.desc), rp.clone());
                }
            }
            Err(p) => o.violation("row:from_closure:panic", p, rp.clone()),
        }
    }

    // bare RowWriter: value_count() tracks the cells actually encoded; append_serialize_row adds whole rows
    let mut data: Vec<u8> = Vec::new();
    let mut counts_ok = true;
    let final_count = {
        let mut w = RowWriter::new(&mut data);
        for (i, (g, spec)) in goods.iter().zip(specs.iter()).enumerate() {
            let r = fw::catch(|| g.val.serialize(spec.typ(), w.make_cell_writer()).map(|_| ()).map_err(|e| e.to_string()));
            if !matches!(r, Ok(Ok(()))) {
                o.violation("row:rowwriter:good-value-rejected", format!("serialize({}) through RowWriter failed: {r:?}", g.desc), rp.clone());
                return;
            }
            if w.value_count() != i + 1 {
                counts_ok = false;
            }
        }
        w.append_serialize_row(sv);
        w.value_count()
    };
    o.evals(1);
    let cells = snap::parse_cells(&data);
    let mut twice = want.raw.clone();
    twice.extend_from_slice(&want.raw);
    if !counts_ok || final_count != 2 * goods.len() || cells.as_ref().map(|c| c.len()) != Some(final_count) || data != twice {
        o.violation(
            "row:rowwriter:count-vs-cells",
            format!("RowWriter after {} cells + append_serialize_row of {} values: value_count() = {final_count}, buffer encodes {:?} cells, {} bytes (expected {})", goods.len(), sv.element_count(), cells.map(|c| c.len()), data.len(), twice.len()),
            rp.clone(),
        );
    } else {
        o.class("row:rowwriter-ok");
    }
}

/// Statically typed rows (tuple impls and the SerializeRow derive) with a failing column.
#[derive(scylla::SerializeRow)]
struct RowABC {
    a: i32,
    b: String,
    c: Vec<i32>,
}

pub fn static_rows(o: &mut Outcome) {
    let mk = |tys: [Ty; 3]| -> Vec<ColumnSpec<'static>> {
        ["a", "b", "c"].iter().zip(tys.iter()).map(|(name, t)| ColumnSpec::owned(name.to_string(), column_type(t), TableSpec::owned("ks".into(), "tbl".into()))).collect()
    };
    let good = mk([n(Nat::Int), n(Nat::Text), Ty::list(n(Nat::Int))]);
    let bad_sets = [
        ("col0", mk([n(Nat::BigInt), n(Nat::Text), Ty::list(n(Nat::Int))])),
        ("col1", mk([n(Nat::Int), n(Nat::Int), Ty::list(n(Nat::Int))])),
        ("col2-nested", mk([n(Nat::Int), n(Nat::Text), Ty::list(n(Nat::BigInt))])),
    ];
    let tuple_row = (7i32, "seven".to_string(), vec![1i32, 2, 3]);
    let struct_row = RowABC { a: 7, b: "seven".into(), c: vec![1, 2, 3] };
    let rp = json!({"kind": "static_rows"});
    let ctx = RowSerializationContext::from_specs(&good);
    let a = SerializedValues::from_serializable(&ctx, &tuple_row).map_err(|e| e.to_string());
    let b = SerializedValues::from_serializable(&ctx, &struct_row).map_err(|e| e.to_string());
    o.evals(2);
    match (a, b) {
        (Ok(a), Ok(b)) => match (snap::take(&a), snap::take(&b)) {
            (Ok(sa), Ok(sb)) if sa == sb && sa.count == 3 => o.class("row:static-ok"),
            (sa, sb) => o.violation("row:static:inconsistent", format!("tuple row / derived row of the same values: {sa:?} vs {sb:?}"), rp.clone()),
        },
        (a, b) => o.violation("row:static:good-row-rejected", format!("documented rows rejected: tuple {:?}, struct {:?}", a.err(), b.err()), rp.clone()),
    }
    for (which, specs) in bad_sets.iter() {
        let ctx = RowSerializationContext::from_specs(specs);
        o.case(fw::hash64(format!("static|{which}").as_bytes()), true);
        if SerializedValues::from_serializable(&ctx, &tuple_row).is_ok() {
            o.violation(format!("row:static:tuple-accepted-mismatch:{which}"), format!("(i32,String,Vec<i32>) row accepted for mismatching column {which}"), rp.clone());
        }
        if SerializedValues::from_serializable(&ctx, &struct_row).is_ok() {
            o.violation(format!("row:static:derive-accepted-mismatch:{which}"), format!("derive(SerializeRow) row accepted for mismatching column {which}"), rp.clone());
        }
        o.class("row:static-failing-row-rejected");
    }
    // wrong column count
    let ctx2 = RowSerializationContext::from_specs(&good[..2]);
    if SerializedValues::from_serializable(&ctx2, &tuple_row).is_ok() {
        o.violation("row:static:wrong-column-count-accepted", "a 3-tuple row was accepted for 2 bind markers", rp);
    }
}

/// The 65 536th value.
/// The special empty (0-byte) value: accepted for the types documented as emptiable, refused - leaving the bound
/// values as they were - for counter, duration, collections and UDTs.
pub fn empty_values(o: &mut Outcome) {
    let rp = json!({"kind": "empty_values"});
    let mut cols: Vec<(String, scylla_cql_core::frame::response::result::ColumnType<'static>, bool)> = Vec::new();
    for nat in crate::refmodel::typecompat::NATIVES {
        cols.push((nat.name().to_string(), column_type(&n(nat)), !matches!(nat, Nat::Counter | Nat::Duration)));
    }
    cols.push(("list<int>".into(), column_type(&Ty::list(n(Nat::Int))), false));
    cols.push(("set<duration>".into(), column_type(&Ty::set(n(Nat::Duration))), false));
    cols.push(("map<int,text>".into(), column_type(&Ty::map(n(Nat::Int), n(Nat::Text))), false));
    for (name, col, emptiable) in &cols {
        let mut sv = SerializedValues::new();
        let _ = sv.add_value(&7i32, &column_type(&n(Nat::Int)));
        let before = match snap::take(&sv) {
            Ok(s) => s,
            Err(e) => {
                o.violation("empty:prefix-inconsistent", e, rp.clone());
                return;
            }
        };
        let r = sv.add_value(&CqlValue::Empty, col);
        o.evals(1);
        match (emptiable, r) {
            (true, Ok(())) => o.class("empty:accepted-for-an-emptiable-type"),
            (false, Err(_)) => {
                o.class("empty:refused-for-a-non-emptiable-type");
                match snap::take(&sv) {
                    Ok(after) if after == before => {}
                    _ => o.violation("empty:failed-bind-changed-the-request", format!("after refusing the empty value for {name} the bound values differ from before"), rp.clone()),
                }
            }
            (true, Err(e)) => o.violation("empty:refused-for-an-emptiable-type", format!("CqlValue::Empty was refused for {name}: {e}"), rp.clone()),
            (false, Ok(())) => o.violation("empty:accepted-for-a-non-emptiable-type", format!("CqlValue::Empty was accepted for {name}, which has no empty value: a zero-length cell would be sent"), rp.clone()),
        }
        // the same inside a list
        let lcol = scylla_cql_core::frame::response::result::ColumnType::Collection { frozen: false, typ: scylla_cql_core::frame::response::result::CollectionType::List(Box::new(col.clone())) };
        let mut s2 = SerializedValues::new();
        let r2 = s2.add_value(&CqlValue::List(vec![CqlValue::Empty]), &lcol);
        o.evals(1);
        match (emptiable, r2) {
            (true, Ok(())) | (false, Err(_)) => {}
            (true, Err(e)) => o.violation("empty:refused-for-an-emptiable-type", format!("[CqlValue::Empty] was refused for list<{name}>: {e}"), rp.clone()),
            (false, Ok(())) => o.violation("empty:accepted-for-a-non-emptiable-type", format!("[CqlValue::Empty] was accepted for list<{name}>"), rp.clone()),
        }
    }
}

/// The lazy carriers (`VectorIterator<T>`, `ListlikeIterator<T>`, `MapIterator<K, V>`) check their element
/// types like the eager ones: a column whose element type `T` does not fit is refused by `type_check`
/// (also nested and through the row layer), a fitting one is accepted. Only clear-cut pairs are asserted.
pub fn lazy_iterators(o: &mut Outcome) {
    use scylla_cql_core::deserialize::row::DeserializeRow;
    use scylla_cql_core::deserialize::value::{DeserializeValue, ListlikeIterator, MapIterator, VectorIterator};
    let rp = json!({"kind": "lazy_iterators"});
    // (name of the Rust element type, natives it fits)
    let elems: [(&str, &[Nat]); 4] = [("i32", &[Nat::Int]), ("f32", &[Nat::Float]), ("i64", &[Nat::BigInt]), ("String", &[Nat::Text, Nat::Ascii])];
    let natives = [Nat::Int, Nat::Float, Nat::BigInt, Nat::Double, Nat::Text, Nat::Boolean, Nat::Timestamp, Nat::Uuid];
    macro_rules! ask {
        ($t:ty, $col:expr) => {
            (<$t as DeserializeValue<'static, 'static>>::type_check($col).is_ok(), {
                let spec = ColumnSpec::borrowed("c", $col.clone(), TableSpec::borrowed("ks", "t"));
                <($t,) as DeserializeRow<'static, 'static>>::type_check(std::slice::from_ref(&spec)).is_ok()
            })
        };
    }
    for native in natives {
        let shapes: Vec<(&str, Ty)> = vec![
            ("vector", Ty::Vector(Box::new(n(native)), 3)),
            ("list", Ty::list(n(native))),
            ("set", Ty::set(n(native))),
            ("list-of-vector", Ty::list(Ty::Vector(Box::new(n(native)), 2))),
            ("map-to-vector", Ty::map(n(Nat::Int), Ty::Vector(Box::new(n(native)), 2))),
        ];
        for (shape, ty) in shapes {
            let col = column_type(&ty);
            for (ei, (ename, fits)) in elems.iter().enumerate() {
                let fit = fits.contains(&native);
                // (carrier name, value-level verdict, row-level verdict, does the container shape fit the carrier?)
                let answers: Vec<(&str, (bool, bool), bool)> = match ei {
                    0 => vec![
                        ("VectorIterator<i32>", ask!(VectorIterator<'static, 'static, i32>, &col), shape == "vector"),
                        ("ListlikeIterator<i32>", ask!(ListlikeIterator<'static, 'static, i32>, &col), shape == "list" || shape == "set"),
                        ("Vec<VectorIterator<i32>>", ask!(Vec<VectorIterator<'static, 'static, i32>>, &col), shape == "list-of-vector"),
                        ("MapIterator<i32, VectorIterator<i32>>", ask!(MapIterator<'static, 'static, i32, VectorIterator<'static, 'static, i32>>, &col), shape == "map-to-vector"),
                    ],
                    1 => vec![
                        ("VectorIterator<f32>", ask!(VectorIterator<'static, 'static, f32>, &col), shape == "vector"),
                        ("ListlikeIterator<f32>", ask!(ListlikeIterator<'static, 'static, f32>, &col), shape == "list" || shape == "set"),
                        ("Vec<VectorIterator<f32>>", ask!(Vec<VectorIterator<'static, 'static, f32>>, &col), shape == "list-of-vector"),
                        ("MapIterator<i32, VectorIterator<f32>>", ask!(MapIterator<'static, 'static, i32, VectorIterator<'static, 'static, f32>>, &col), shape == "map-to-vector"),
                    ],
                    2 => vec![
                        ("VectorIterator<i64>", ask!(VectorIterator<'static, 'static, i64>, &col), shape == "vector"),
                        ("ListlikeIterator<i64>", ask!(ListlikeIterator<'static, 'static, i64>, &col), shape == "list" || shape == "set"),
                        ("Vec<VectorIterator<i64>>", ask!(Vec<VectorIterator<'static, 'static, i64>>, &col), shape == "list-of-vector"),
                    ],
                    _ => vec![
                        ("VectorIterator<String>", ask!(VectorIterator<'static, 'static, String>, &col), shape == "vector"),
                        ("ListlikeIterator<String>", ask!(ListlikeIterator<'static, 'static, String>, &col), shape == "list" || shape == "set"),
                    ],
                };
                let _ = ename;
                for (carrier, (value_ok, row_ok), shape_fits) in answers {
                    o.evals(1);
                    let want = fit && shape_fits;
                    if value_ok != row_ok {
                        o.violation("lazy:value-and-row-type-check-disagree", format!("{carrier} against {}: DeserializeValue::type_check says {value_ok}, the row layer {row_ok}", ty.show()), rp.clone());
                    }
                    // clear-cut: element type does not fit at all (shape aside) => must be refused
                    if !fit && shape_fits && value_ok {
                        o.violation("lazy:element-type-mismatch-accepted", format!("{carrier} passed the type check against {} although its element type does not fit: the bytes would be reinterpreted", ty.show()), rp.clone());
                    } else if want && !value_ok {
                        o.violation("lazy:fitting-column-refused", format!("{carrier} was refused for {}", ty.show()), rp.clone());
                    } else if want {
                        o.class("lazy:fitting-column-accepted");
                    } else if !fit && shape_fits {
                        o.class("lazy:element-type-mismatch-refused");
                    } else if !shape_fits && value_ok {
                        o.class("lazy:other-container-shape-accepted(not-asserted)");
                    }
                }
            }
        }
    }
}

/// A vector column takes exactly `dimensions` elements: every other length is a mismatch - also lengths
/// that agree with the dimension in their low 16 bits - and leaves the bound values as they were.
pub fn vector_lengths(o: &mut Outcome) {
    let rp = json!({"kind": "vector_lengths"});
    for dim in [1u16, 2, 3, 16, 255] {
        let ty = column_type(&Ty::Vector(Box::new(n(Nat::Float)), dim));
        let tyi = column_type(&Ty::Vector(Box::new(n(Nat::Int)), dim));
        let d = dim as usize;
        let mut lens: Vec<usize> = vec![0, d - 1, d, d + 1, d + 65536, d + 131072, 65536, 65535];
        lens.sort_unstable();
        lens.dedup();
        for len in lens {
            let mut sv = SerializedValues::new();
            let _ = sv.add_value(&7i32, &column_type(&n(Nat::Int)));
            let before = match snap::take(&sv) {
                Ok(s) => s,
                Err(e) => {
                    o.violation("vector:prefix-inconsistent", e, rp.clone());
                    return;
                }
            };
            let vf: Vec<f32> = (0..len).map(|i| i as f32).collect();
            let vi: Vec<i32> = (0..len).map(|i| i as i32).collect();
            let vc = CqlValue::Vector((0..len).map(|i| CqlValue::Float(i as f32)).collect());
            let attempts: Vec<(&str, Result<(), String>)> = vec![
                ("Vec<f32>", sv.add_value(&vf, &ty).map_err(|e| e.to_string())),
            ];
            let mut results = attempts;
            // (each attempt on its own copy of the prefix, so that an accepted one does not shift the others)
            for (name, r) in [("Vec<i32>", {
                let mut s2 = SerializedValues::new();
                let _ = s2.add_value(&7i32, &column_type(&n(Nat::Int)));
                let r = s2.add_value(&vi, &tyi).map_err(|e| e.to_string());
                if r.is_err() {
                    if let Ok(after) = snap::take(&s2) {
                        if after != before {
                            o.violation("vector:failed-bind-changed-the-request", format!("after refusing a Vec<i32> of {len} elements for vector<int, {dim}> the bound values differ from before"), rp.clone());
                        }
                    }
                }
                r
            }), ("CqlValue::Vector", {
                let mut s3 = SerializedValues::new();
                let _ = s3.add_value(&7i32, &column_type(&n(Nat::Int)));
                s3.add_value(&vc, &ty).map_err(|e| e.to_string())
            })] {
                results.push((name, r));
            }
            for (name, r) in results {
                o.evals(1);
                match (len == d, r) {
                    (true, Ok(())) => o.class("vector:exact-length-accepted"),
                    (false, Err(_)) => o.class(if len % 65536 == d % 65536 { "vector:length-congruent-mod-65536-refused" } else { "vector:wrong-length-refused" }),
                    (true, Err(e)) => o.violation("vector:exact-length-refused", format!("{name} of {len} elements for a vector of dimension {dim} was refused: {e}"), rp.clone()),
                    (false, Ok(())) => o.violation("vector:wrong-length-accepted", format!("{name} of {len} elements was accepted for a vector of dimension {dim}"), rp.clone()),
                }
            }
            // the first attempt ran on `sv`: a refusal must have left it untouched
            if len != d {
                match snap::take(&sv) {
                    Ok(after) if after == before => {}
                    _ => o.violation("vector:failed-bind-changed-the-request", format!("after refusing a Vec<f32> of {len} elements for vector<float, {dim}> the bound values differ from before"), rp.clone()),
                }
            }
        }
    }
}

pub fn too_many(o: &mut Outcome, rng: &mut Rng) {
    let rp = json!({"kind": "too_many"});
    let int = column_type(&n(Nat::Int));
    let text = column_type(&n(Nat::Text));
    let mut sv = SerializedValues::new();
    for i in 0..u16::MAX as u32 {
        let r = match i % 3 {
            0 => sv.add_value(&(i as i32), &int),
            1 => sv.add_value(&Option::<i32>::None, &int),
            _ => sv.add_value(&"v", &text),
        };
        if let Err(e) = r {
            o.violation("toomany:early-refusal", format!("value #{} of a request was refused: {e}", i + 1), rp);
            return;
        }
    }
    let before = match snap::take(&sv) {
        Ok(s) => s,
        Err(e) => {
            o.violation("toomany:inconsistent-at-65535", e, rp);
            return;
        }
    };
    if before.count != u16::MAX {
        o.violation("toomany:count", format!("65535 successful add_value calls, element_count() = {}", before.count), rp);
        return;
    }
    // good values and failing values alike must be refused and leave everything as it was
    let mut attempts: Vec<FailItem> = (0..6).map(|_| FailItem { item: gen_good(rng), kind: "too-many-values", must_fail: true }).collect();
    for k in 0..FAIL_KINDS.len() {
        let mut f = gen_fail(rng, k);
        f.kind = "too-many-values";
        f.must_fail = true;
        attempts.push(f);
    }
    for f in &attempts {
        if !attempt_fail(o, &mut sv, &before, f, &rp) {
            return;
        }
    }
    drop(sv);
    // RowWriter path: 65 535 cells are a valid request, 65 536 are not
    for cells in [u16::MAX as usize, u16::MAX as usize + 1] {
        let r = fw::catch(|| {
            SerializedValues::from_closure(|w: &mut RowWriter| {
                for i in 0..cells {
                    (i as i32).serialize(&int, w.make_cell_writer())?;
                }
                Ok(w.value_count())
            })
            .map_err(|e| e.to_string())
        });
        o.case(fw::hash64(format!("toomany|closure|{cells}").as_bytes()), true);
        match r {
            Err(p) => o.violation("toomany:from_closure:panic", p, rp.clone()),
            Ok(Ok((sv, counted))) => {
                if cells > u16::MAX as usize {
                    o.violation("toomany:from_closure:65536-accepted", format!("from_closure accepted {cells} values: element_count() = {}, writer counted {counted}", sv.element_count()), rp.clone());
                } else {
                    match snap::take(&sv) {
                        Ok(s) if s.count as usize == cells && counted == cells => o.class("toomany:65535-accepted"),
                        Ok(s) => o.violation("toomany:from_closure:count", format!("{cells} cells written, element_count() = {}, writer counted {counted}", s.count), rp.clone()),
                        Err(e) => o.violation("toomany:from_closure:inconsistent", e, rp.clone()),
                    }
                }
            }
            Ok(Err(_)) => {
                if cells > u16::MAX as usize {
                    o.class("toomany:65536th-refused");
                } else {
                    o.violation("toomany:from_closure:65535-refused", "from_closure refused 65535 values (the protocol maximum)", rp.clone());
                }
            }
        }
    }
}

/// Oversize cells (thorough only; needs ~6 GiB): the cell limit is 2^31 - 1 bytes.
pub fn oversize(o: &mut Outcome) {
    let rp = json!({"kind": "oversize"});
    let mut sv = SerializedValues::new();
    sv.add_value(&1i32, &column_type(&n(Nat::Int))).unwrap();
    sv.add_value(&"bound", &column_type(&n(Nat::Text))).unwrap();
    let before = snap::take(&sv).expect("snapshot");
    let gib: std::sync::Arc<Vec<u8>> = std::sync::Arc::new(vec![0x5a; 1 << 30]);
    // (a) a list of two 1 GiB blobs: each element fits, the enclosing cell does not -> failure after 2 GiB were appended
    let two: Vec<std::sync::Arc<Vec<u8>>> = vec![gib.clone(), gib.clone()];
    let f = FailItem { item: Item { val: Box::new(two), ty: Ty::list(n(Nat::Blob)), desc: "Vec<Arc<Vec<u8>>>[1GiB,1GiB]->list<blob>".into() }, kind: "oversize-cell", must_fail: true };
    let ok = attempt_fail(o, &mut sv, &before, &f, &rp);
    drop(f);
    if !ok {
        return;
    }
    // (b) a single blob of exactly 2^31 bytes
    drop(gib);
    let big: Vec<u8> = vec![0u8; 1usize << 31];
    let f = FailItem { item: Item { val: Box::new(big), ty: n(Nat::Blob), desc: "Vec<u8> of 2^31 bytes->blob".into() }, kind: "oversize-cell", must_fail: true };
    attempt_fail(o, &mut sv, &before, &f, &rp);
}


/// Informational only (not asserted): `RowWriter::make_cell_writer` counts the value before it
/// is written, so a row implementation that swallows a cell's error (contrary to the
/// `SerializeRow` contract, which is to return it) ends up with a count that differs from the
/// encoded cells. All built-in row implementations propagate the error (checked in `row_paths`).
pub fn swallowed_error_probe(o: &mut Outcome) {
    let text = column_type(&n(Nat::Text));
    let r = SerializedValues::from_closure(|w: &mut RowWriter| {
        let _ = 5i32.serialize(&text, w.make_cell_writer());
        Ok(())
    });
    if let Ok((sv, ())) = r {
        let cells = fw::catch(|| sv.iter().count()).ok();
        o.note(
            "info_rowwriter_error_swallowed_by_caller",
            json!({"element_count": sv.element_count(), "encoded_cells": cells, "buffer_size": sv.buffer_size(),
                   "asserted": false, "why": "outside the statement: the caller ignored the error the cell returned"}),
        );
    }
}
