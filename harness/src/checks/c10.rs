//! C10 — when a connection dies, everything in flight fails promptly; none hangs;
//! nobody is handed foreign or partial bytes; the session keeps working.
//!
//! Fault enumeration: the mock node cuts the response stream at every byte offset
//! (inside headers, inside bodies, between frames) with FIN / RST, or corrupts it
//! (garbage, wrong version/direction, unknown opcode, unsolicited stream id, huge
//! length then silence), or goes silent with keep-alives on. Benign control case:
//! frames on negative stream ids must be ignored.

use super::e2e::*;
use crate::fw::{self, Ctx, Outcome, Rng};
use crate::mock::log::Ev;
use crate::mock::*;
use crate::wire::frame;
use scylla::client::execution_profile::ExecutionProfile;
use scylla::client::session::Session;
use scylla::client::PoolSize;
use scylla::statement::prepared::PreparedStatement;
use serde_json::json;
use std::collections::HashMap;
use std::num::NonZeroUsize;
use std::sync::Arc;
use std::time::Duration;

#[derive(Clone, Copy, Debug, PartialEq, Eq)]
enum Fault {
    /// cut the response stream after `offset` bytes
    CutFin,
    CutRst,
    /// after `good` complete responses, raw bytes that are not a frame
    Garbage,
    /// a frame whose version byte has the request direction (0x04)
    RequestDirection,
    /// protocol version the driver does not speak (0x85)
    BadVersion,
    UnknownOpcode,
    /// a well-formed RESULT on a non-negative stream id nobody waits on
    UnsolicitedStream,
    /// one more request is given up by its caller while in flight (client-side timeout), the node answers it
    /// LATE (which is legal and must be ignored), a further request is served on the connection, and then the
    /// node sends one more frame on the abandoned request's stream id - by now a stream nobody is waiting on
    UnsolicitedAfterLateAnswer,
    /// header announcing 2 GiB, then silence
    HugeLengthThenStall,
    /// node stops reading and writing; keep-alives are on
    SilentStall,
    /// frames on negative stream ids: must be ignored, requests then complete normally
    NegativeStreamBenign,
    /// kill while the requests are still being written
    RstDuringWrites,
    /// every request has been answered; the node then closes the IDLE connection (FIN)
    IdleFin,
    /// as IdleFin, but a few bytes of a frame header are written before the FIN
    IdlePartialHeaderFin,
}

/// Echo handler that can also withhold a PREPARE and a USE, so that requests of other kinds are
/// in flight on the connection when the fault hits.
struct H10 {
    echo: Arc<Echo>,
    misc: std::sync::Mutex<Vec<(Rq, Option<String>)>>,
}

impl Handler for H10 {
    fn intercept(&self, rq: Rq) -> Option<Rq> {
        if let crate::wire::request::Request::Prepare { query } = &*rq.request {
            if query.contains("pending") && *self.echo.mode.lock().unwrap() == EchoMode::Hold {
                self.misc.lock().unwrap().push((rq, None));
                return None;
            }
        }
        Some(rq)
    }
    fn statement(&self, node: &MockNode, query: &str) -> Option<StatementDef> {
        self.echo.statement(node, query)
    }
    fn on_request(&self, rq: Rq) {
        self.echo.on_request(rq)
    }
    fn on_use(&self, rq: Rq, keyspace: String) {
        if *self.echo.mode.lock().unwrap() == EchoMode::Hold {
            self.misc.lock().unwrap().push((rq, Some(keyspace)));
        } else {
            rq.ack_keyspace(&keyspace);
        }
    }
}

impl H10 {
    fn release_misc(&self) {
        for (rq, ks) in std::mem::take(&mut *self.misc.lock().unwrap()) {
            match ks {
                Some(k) => rq.ack_keyspace(&k),
                None => {
                    let q = rq.query_text().unwrap_or("").to_string();
                    let def = StatementDef::new(&q, &fw::hash_str(&q).to_be_bytes());
                    rq.node.prepared.lock().unwrap().insert(def.id.clone(), Arc::new(def.clone()));
                    reply_prepared(&rq, &def);
                }
            }
        }
    }
}

#[derive(Clone, Debug)]
struct Case {
    /// bit 0: a PREPARE is also in flight; bit 1: a USE is also in flight
    misc: u8,
    fault: Fault,
    /// requests in flight
    k: usize,
    /// responses the node tries to send before/through the fault
    m: usize,
    offset: usize,
    prepared: bool,
    idempotent: bool,
    seed: u64,
}

struct CaseOut {
    /// per op: (id, outcome or None when the caller never came back)
    ops: Vec<(u64, Option<EchoOutcome>)>,
    recovered: Option<bool>,
    log: Arc<crate::mock::log::EventLog>,
    build_error: Option<String>,
    quiet_hang: bool,
    /// a request issued AFTER the fault that never completed
    probe_hung: Option<u64>,
    /// PREPARE / USE calls in flight at the fault that never returned
    misc_hung: Vec<&'static str>,
}

fn echo_frame_len() -> usize {
    let body = echo_response(1).encode_body();
    9 + body.len()
}

async fn echo_op(session: Arc<Session>, prepared: Option<Arc<PreparedStatement>>, id: u64, idempotent: bool) -> EchoOutcome {
    let res = match prepared {
        Some(p) => session.execute_unpaged(&p, (id as i64,)).await,
        None => {
            let mut st = scylla::statement::Statement::new(format!("{ECHO_QUERY_PREFIX}{id}"));
            st.set_is_idempotent(idempotent);
            session.query_unpaged(st, ()).await
        }
    };
    decode_echo(res)
}

async fn run_case(c: &Case) -> CaseOut {
    let mut rng = Rng::new(c.seed, 11);
    let echo = Echo::new(EchoMode::Immediate);
    let h10 = Arc::new(H10 { echo: echo.clone(), misc: std::sync::Mutex::new(Vec::new()) });
    let cluster = MockCluster::start(single_node_spec(), h10.clone()).await;
    let log = cluster.log().clone();
    let fault = c.fault;
    let profile = ExecutionProfile::builder().request_timeout(None).build();
    let session = connect(&cluster, |b| {
        let b = b.pool_size(PoolSize::PerHost(NonZeroUsize::new(1).unwrap())).default_execution_profile_handle(profile.into_handle());
        if fault == Fault::SilentStall || fault == Fault::HugeLengthThenStall {
            b.keepalive_interval(Duration::from_millis(150)).keepalive_timeout(Duration::from_millis(150))
        } else {
            b
        }
    })
    .await;
    let session = match session {
        Ok(s) => Arc::new(s),
        Err(e) => {
            cluster.shutdown();
            return CaseOut { ops: vec![], recovered: None, log, build_error: Some(e), quiet_hang: false, probe_hung: None, misc_hung: vec![] };
        }
    };
    let prepared = if c.prepared {
        match session.prepare(format!("{ECHO_QUERY_PREFIX}?")).await {
            Ok(mut p) => {
                p.set_is_idempotent(c.idempotent);
                Some(Arc::new(p))
            }
            Err(e) => {
                cluster.shutdown();
                return CaseOut { ops: vec![], recovered: None, log, build_error: Some(format!("prepare: {e}")), quiet_hang: false, probe_hung: None, misc_hung: vec![] };
            }
        }
    } else {
        None
    };
    echo.set_mode(EchoMode::Hold);
    let mut handles = Vec::new();
    let mut ids = Vec::new();
    for _ in 0..c.k {
        let id = next_op();
        ids.push(id);
        let (s, p, l) = (session.clone(), prepared.clone(), log.clone());
        let idem = c.idempotent;
        handles.push(tokio::spawn(async move {
            call(&l, id, "echo", "");
            let out = echo_op(s, p, id, idem).await;
            ret(&l, id, matches!(out, EchoOutcome::Ok(_)), format!("{out:?}"));
            out
        }));
    }
    let mut misc_handles: Vec<(&'static str, tokio::task::JoinHandle<bool>)> = Vec::new();
    if c.misc & 1 != 0 {
        let s = session.clone();
        misc_handles.push(("prepare", tokio::spawn(async move { s.prepare("SELECT pending FROM ks.echo WHERE id = 1").await.is_ok() })));
    }
    if c.misc & 2 != 0 {
        let s = session.clone();
        misc_handles.push(("use_keyspace", tokio::spawn(async move { s.use_keyspace("ks", false).await.is_ok() })));
    }
    if fault == Fault::RstDuringWrites {
        // no settling: the kill races with the request writes
        tokio::time::sleep(Duration::from_micros(rng.below(400))).await;
        for conn in cluster.established(0) {
            if !conn.registered.load(std::sync::atomic::Ordering::SeqCst) {
                conn.close(CloseHow::Rst);
            }
        }
    } else {
        let k = c.k;
        let e2 = echo.clone();
        let (h2, want_misc) = (h10.clone(), (c.misc & 1) as usize + ((c.misc >> 1) & 1) as usize);
        settle(&log, Duration::from_millis(80), Duration::from_secs(20), move || e2.held_count() >= k && h2.misc.lock().unwrap().len() >= want_misc).await;
    }
    let held = echo.take_held();
    let mut extra_ops: Vec<(u64, Option<EchoOutcome>)> = Vec::new();
    let pool_conn = held.first().map(|(_, rq)| rq.conn.clone());
    if let Some(conn) = &pool_conn {
        let answer = |n: usize| {
            for (id, rq) in held.iter().take(n) {
                Echo::answer(*id, rq);
            }
        };
        let raw_frame = |version: u8, stream: i16, opcode: u8| {
            let body = echo_response(424242).encode_body();
            frame::encode_frame(version, 0, stream, opcode, &body)
        };
        match fault {
            Fault::CutFin | Fault::CutRst => {
                conn.arm_cut(c.offset, if fault == Fault::CutFin { CloseHow::Fin } else { CloseHow::Rst });
                answer(c.m.max(1));
                // if the cut lies exactly at the end of the last frame the stream was not cut yet: close now
                conn.close(if fault == Fault::CutFin { CloseHow::Fin } else { CloseHow::Rst });
            }
            Fault::Garbage => {
                answer(c.m);
                let glen = 9 + rng.usize(0, 40);
                let mut g = rng.bytes(glen);
                g[0] = *rng.pick(&[0x00u8, 0x47, 0xff, 0x84]); // incl. a valid version byte followed by junk
                if g[0] == 0x84 {
                    g[4] = 0x7f; // junk opcode
                    g[5] = 0;
                    g[6] = 0;
                    g[7] = 0;
                    g[8] = (g.len() - 9) as u8;
                }
                conn.send_raw(g);
            }
            Fault::RequestDirection => {
                answer(c.m);
                conn.send_raw(raw_frame(0x04, held.get(c.m).map(|(_, r)| r.stream).unwrap_or(0), 0x08));
            }
            Fault::BadVersion => {
                answer(c.m);
                conn.send_raw(raw_frame(0x85, held.get(c.m).map(|(_, r)| r.stream).unwrap_or(0), 0x08));
            }
            Fault::UnknownOpcode => {
                answer(c.m);
                conn.send_raw(raw_frame(0x84, held.get(c.m).map(|(_, r)| r.stream).unwrap_or(0), 0x7e));
            }
            Fault::UnsolicitedStream => {
                answer(c.m);
                conn.send_raw(raw_frame(0x84, 31000, 0x08));
            }
            Fault::UnsolicitedAfterLateAnswer => {
                // request A: abandoned after 60 ms (the k held requests keep the lower stream ids busy)
                let id_a = next_op();
                call(&log, id_a, "echo-abandoned", "");
                let _ = tokio::time::timeout(Duration::from_millis(60), echo_op(session.clone(), prepared.clone(), id_a, c.idempotent)).await;
                ret(&log, id_a, false, "given up by the caller");
                let e3 = echo.clone();
                settle(&log, Duration::from_millis(40), Duration::from_secs(10), move || e3.held_count() >= 1).await;
                let late = echo.take_held();
                if let Some((_, rq_a)) = late.iter().find(|(id, _)| *id == id_a) {
                    let stream_a = rq_a.stream;
                    // the late answer
                    Echo::answer(id_a, rq_a);
                    tokio::time::sleep(Duration::from_millis(40)).await;
                    // request B is served normally (it may well get A's stream id)
                    echo.set_mode(EchoMode::Immediate);
                    let id_b = next_op();
                    call(&log, id_b, "echo", "after-late-answer");
                    match tokio::time::timeout(Duration::from_secs(6), echo_op(session.clone(), prepared.clone(), id_b, c.idempotent)).await {
                        Ok(out) => {
                            ret(&log, id_b, matches!(out, EchoOutcome::Ok(_)), format!("{out:?}"));
                            extra_ops.push((id_b, Some(out)));
                        }
                        Err(_) => extra_ops.push((id_b, None)),
                    }
                    echo.set_mode(EchoMode::Hold);
                    answer(c.m);
                    // ... and now a frame on a stream nobody is waiting on
                    conn.send_raw(raw_frame(0x84, stream_a, 0x08));
                    log.push(Ev::Note(format!("unsolicited-frame-on-formerly-orphaned-stream {stream_a}")));
                } else {
                    log.push(Ev::Note("abandoned request never reached the node".into()));
                    answer(c.m);
                    conn.send_raw(raw_frame(0x84, 31000, 0x08));
                }
            }
            Fault::HugeLengthThenStall => {
                answer(c.m);
                let mut h = frame::FrameHeader { version: 0x84, flags: 0, stream: held.get(c.m).map(|(_, r)| r.stream).unwrap_or(0), opcode: 0x08, length: 0x7fff_fff0 }.encode().to_vec();
                h.extend_from_slice(&[0u8; 16]);
                conn.send_raw(h);
                conn.close(CloseHow::Stall);
            }
            Fault::SilentStall => {
                answer(c.m);
                conn.close(CloseHow::Stall);
                if c.seed % 2 == 0 {
                    // the rest of the cluster notices and says so: a STATUS_CHANGE DOWN event for this node
                    // arrives on the control connection (the driver reacts with an immediate keep-alive)
                    tokio::time::sleep(Duration::from_millis(20)).await;
                    cluster.push_event(&crate::wire::response::Event::StatusChange { change: "DOWN".into(), addr: std::net::IpAddr::V4(cluster.node(0).ip), port: MAIN_PORT as i32 });
                    log.push(Ev::Note("status-change-down-event-sent".into()));
                }
            }
            Fault::NegativeStreamBenign => {
                for s in [-2i16, -77, i16::MIN] {
                    conn.send_raw(raw_frame(0x84, s, 0x08));
                }
                // and an event-shaped frame on -1 while nobody registered for events on a pool connection
                answer(held.len());
            }
            Fault::RstDuringWrites => {}
            Fault::IdleFin | Fault::IdlePartialHeaderFin => {
                // answer everything, let the callers return, then close the now idle connection
                answer(held.len());
                let l2 = log.clone();
                let n = c.k as u64;
                let base = l2.snapshot().iter().filter(|l| matches!(l.ev, Ev::ClientReturn { .. })).count() as u64;
                let _ = base;
                settle(&log, Duration::from_millis(60), Duration::from_secs(5), move || {
                    l2.snapshot().iter().filter(|l| matches!(&l.ev, Ev::ClientReturn { ok: true, .. })).count() as u64 >= n
                })
                .await;
                if fault == Fault::IdlePartialHeaderFin {
                    conn.send_raw(vec![0x84, 0x00, 0x00, 0x05]);
                }
                conn.close(CloseHow::Fin);
                // the close must have reached the client before the next request is issued
                tokio::time::sleep(Duration::from_millis(30)).await;
            }
        }
    }
    log.push(Ev::Note("fault-injected".into()));
    echo.set_mode(EchoMode::Immediate);
    // the withheld PREPARE / USE get their answers now (on a dead connection they go nowhere)
    h10.release_misc();
    // anything that was held but is neither answered nor on the dead connection gets its answer
    // (e.g. retried idempotent requests arriving on a new connection are answered at once)
    let fault_counter = log.counter();
    // every caller must come back: bounded progress, decided on quiescence (§3.3)
    let mut ops = Vec::new();
    let mut quiet_hang = false;
    let deadline = std::time::Instant::now() + Duration::from_secs(10);
    // (one grace period of 200 ms after the deadline, not one per pending caller: there may be 32768 of them)
    let grace_until = deadline + Duration::from_millis(200);
    for (i, h) in handles.into_iter().enumerate() {
        let left = grace_until.saturating_duration_since(std::time::Instant::now()).max(Duration::from_micros(50));
        match tokio::time::timeout(left, h).await {
            Ok(Ok(out)) => ops.push((ids[i], Some(out))),
            Ok(Err(_)) => ops.push((ids[i], Some(EchoOutcome::Err("task panicked".into())))),
            Err(_) => ops.push((ids[i], None)),
        }
    }
    ops.extend(extra_ops);
    let mut misc_hung: Vec<&'static str> = Vec::new();
    for (name, h) in misc_handles {
        let left = deadline.saturating_duration_since(std::time::Instant::now()).max(Duration::from_millis(500));
        if tokio::time::timeout(left, h).await.is_err() {
            misc_hung.push(name);
        }
    }
    if !misc_hung.is_empty() {
        // same quiescence rule as for the echo requests: nothing may touch the dead connection any more
        let dead_conn = pool_conn.as_ref().map(|c| c.id);
        let c0 = log.counter();
        tokio::time::sleep(Duration::from_secs(4)).await;
        let touched = log.snapshot().iter().filter(|l| l.seq >= c0).any(|l| match &l.ev {
            Ev::Recv { conn, request, .. } => Some(*conn) == dead_conn || matches!(&**request, crate::wire::request::Request::Prepare { query } if query.contains("pending")) || matches!(&**request, crate::wire::request::Request::Query { query, .. } if query.starts_with("USE")),
            Ev::Send { conn, .. } | Ev::Close { conn, .. } => Some(*conn) == dead_conn,
            _ => false,
        });
        if touched {
            misc_hung.clear();
            log.push(Ev::Note("misc watchdog fired while events were flowing".into()));
        }
    }
    if ops.iter().any(|(_, o)| o.is_none()) {
        // Watchdog fired. It is a hang witness only if nothing can still wake the waiters: during a
        // further 4 s no event touches the connection the requests were in flight on, and none of the
        // pending requests shows up anywhere else (a retry on another connection). Unrelated traffic
        // (pool refill, control connection) does not count.
        let pending: std::collections::HashSet<u64> = ops.iter().filter(|(_, o)| o.is_none()).map(|(id, _)| *id).collect();
        let dead_conn = pool_conn.as_ref().map(|c| c.id);
        let c0 = log.counter();
        tokio::time::sleep(Duration::from_secs(4)).await;
        let touched = log.snapshot().iter().filter(|l| l.seq >= c0).any(|l| match &l.ev {
            Ev::Recv { conn, request, .. } => {
                Some(*conn) == dead_conn
                    || match &**request {
                        crate::wire::request::Request::Query { query, .. } => query
                            .strip_prefix(ECHO_QUERY_PREFIX)
                            .and_then(|s| s.trim().parse::<u64>().ok())
                            .map(|id| pending.contains(&id))
                            .unwrap_or(false),
                        crate::wire::request::Request::Execute { params, .. } => params
                            .values
                            .as_ref()
                            .and_then(|v| v.first())
                            .map(|v| matches!(v, crate::wire::prim::Value::Bytes(b) if b.len() == 8 && pending.contains(&u64::from_be_bytes(b.as_slice().try_into().unwrap()))))
                            .unwrap_or(false),
                        _ => false,
                    }
            }
            Ev::Send { conn, tag, .. } => Some(*conn) == dead_conn || tag.map(|t| pending.contains(&t)).unwrap_or(false),
            Ev::Close { conn, .. } => Some(*conn) == dead_conn,
            Ev::ClientReturn { op, .. } => pending.contains(op),
            _ => false,
        });
        quiet_hang = !touched && c0 >= fault_counter;
    }
    // afterwards the session serves new requests (re-established connection)
    let mut recovered = None;
    let mut probe_hung: Option<u64> = None;
    if !quiet_hang {
        let t0 = std::time::Instant::now();
        let mut ok = false;
        while t0.elapsed() < Duration::from_secs(15) {
            let id = next_op();
            call(&log, id, "echo-after", "");
            let out = tokio::time::timeout(Duration::from_secs(8), echo_op(session.clone(), None, id, false)).await;
            match out {
                Ok(EchoOutcome::Ok(x)) if x == id => {
                    ret(&log, id, true, "ok");
                    ok = true;
                    break;
                }
                Ok(o) => {
                    ret(&log, id, false, format!("{o:?}"));
                    if let EchoOutcome::Ok(_) | EchoOutcome::Garbled(_) = o {
                        ops.push((id, Some(o)));
                    }
                }
                Err(_) => {
                    // a request issued after the fault neither succeeded nor failed for 8 s (no request
                    // timeout is configured): a hang if nothing about it moves for 3 more seconds
                    let c0 = log.counter();
                    tokio::time::sleep(Duration::from_secs(3)).await;
                    let touched = log.snapshot().iter().filter(|l| l.seq >= c0).any(|l| match &l.ev {
                        Ev::Send { tag, .. } => *tag == Some(id),
                        Ev::Recv { request, .. } => matches!(&**request, crate::wire::request::Request::Query { query, .. } if query.strip_prefix(ECHO_QUERY_PREFIX).and_then(|s| s.trim().parse::<u64>().ok()) == Some(id)),
                        _ => false,
                    });
                    ret(&log, id, false, "never completed");
                    if !touched {
                        probe_hung = Some(id);
                    }
                    break;
                }
            }
            tokio::time::sleep(Duration::from_millis(20)).await;
        }
        recovered = Some(ok);
    }
    drop(session);
    cluster.shutdown();
    CaseOut { ops, recovered, log, build_error: None, quiet_hang, probe_hung, misc_hung }
}

fn judge(o: &mut Outcome, c: &Case, out: &CaseOut) {
    let replay = json!({"fault": format!("{:?}", c.fault), "k": c.k, "m": c.m, "offset": c.offset, "misc": c.misc, "prepared": c.prepared,
        "idempotent": c.idempotent, "seed": c.seed, "log_tail": out.log.tail_text(50)});
    if let Some(e) = &out.build_error {
        o.inconclusive(format!("case could not start: {e}"));
        return;
    }
    let key = fw::hash64(format!("{:?}:{}:{}:{}:{}:{}", c.fault, c.k, c.m, c.offset, c.prepared, c.idempotent).as_bytes());
    o.case(key, true);
    o.class(&format!("fault:{:?}", c.fault));
    if c.fault == Fault::SilentStall && c.k >= 32768 {
        o.class("stall:every-stream-id-of-the-connection-in-flight");
    }
    if c.fault == Fault::SilentStall && c.seed % 2 == 0 {
        o.class("stall:with-status-change-down-event");
    }
    o.class(&format!("inflight:{}", if c.k == 1 { "1" } else if c.k <= 10 { "2-10" } else { ">10" }));
    let fl = echo_frame_len();
    if matches!(c.fault, Fault::CutFin | Fault::CutRst) {
        let within = c.offset % fl;
        o.class(if c.offset == 0 {
            "cut:before-first-byte"
        } else if within == 0 {
            "cut:between-frames"
        } else if within < 9 {
            "cut:inside-header"
        } else {
            "cut:inside-body"
        });
    }
    // complete sends per id, return events
    let evs = out.log.snapshot();
    let mut full_send: HashMap<u64, u64> = HashMap::new();
    let mut ret_seq: HashMap<u64, u64> = HashMap::new();
    for l in &evs {
        match &l.ev {
            Ev::Send { tag: Some(t), written, bytes, .. } if written == bytes => {
                full_send.entry(*t).or_insert(l.seq);
            }
            Ev::ClientReturn { op, .. } => {
                ret_seq.insert(*op, l.seq);
            }
            _ => {}
        }
    }
    for v in out.log.violations() {
        o.node_violation("c10", &v, replay.clone());
    }
    let mut ok = 0u64;
    let mut err = 0u64;
    for (id, oc) in &out.ops {
        match oc {
            None => {
                if out.quiet_hang {
                    o.violation(
                        format!("c10:inflight-request-hangs:{:?}", c.fault),
                        format!("request {id} was in flight when the connection suffered {:?}; its caller never returned although the system was quiescent", c.fault),
                        replay.clone(),
                    );
                } else {
                    o.inconclusive(format!("watchdog fired for a {:?} case while events were still flowing", c.fault));
                }
            }
            Some(EchoOutcome::Ok(x)) => {
                ok += 1;
                if x != id {
                    o.violation("c10:foreign-response-delivered", format!("request {id} was handed the response of request {x} around a {:?} fault", c.fault), replay.clone());
                } else {
                    match (full_send.get(id), ret_seq.get(id)) {
                        (Some(s), Some(r)) if s < r => {}
                        (Some(_), None) => {}
                        _ => o.violation("c10:response-delivered-but-never-completely-sent", format!("request {id} returned Ok although the node never wrote its complete response ({:?})", c.fault), replay.clone()),
                    }
                }
            }
            Some(EchoOutcome::Garbled(g)) => {
                o.violation("c10:partial-or-garbled-response-delivered", format!("request {id} was handed a damaged response around a {:?} fault: {g}", c.fault), replay.clone());
            }
            Some(EchoOutcome::Err(_)) => err += 1,
        }
    }
    if matches!(c.fault, Fault::IdleFin | Fault::IdlePartialHeaderFin) && out.ops.iter().take(c.k).any(|(_, o)| !matches!(o, Some(EchoOutcome::Ok(_)))) {
        o.inconclusive("an idle-close case whose requests had not all succeeded before the close");
    }
    if c.fault == Fault::NegativeStreamBenign && err > 0 {
        o.violation("c10:negative-stream-frame-not-ignored", format!("{err} of {} requests failed after the node sent frames on negative stream ids (which must be ignored)", c.k), replay.clone());
    }
    for name in &out.misc_hung {
        o.violation(
            format!("c10:inflight-{name}-hangs:{:?}", c.fault),
            format!("a {name} call was in flight when the connection suffered {:?}; it never returned although nothing touched its connection any more", c.fault),
            replay.clone(),
        );
    }
    if c.misc & 1 != 0 {
        o.class("inflight:PREPARE");
    }
    if c.misc & 2 != 0 {
        o.class("inflight:USE");
    }
    if let Some(id) = out.probe_hung {
        o.violation(
            format!("c10:request-after-fault-hangs:{:?}", c.fault),
            format!("request {id}, issued after the connection suffered {:?}, neither succeeded nor failed (no request timeout is configured) and nothing about it moved any more", c.fault),
            replay.clone(),
        );
    }
    match out.recovered {
        Some(false) if out.probe_hung.is_some() => {}
        Some(false) => o.violation(
            format!("c10:session-did-not-recover:{:?}", c.fault),
            "no new request succeeded within 15 s after the fault although the node accepts connections".to_string(),
            replay.clone(),
        ),
        Some(true) => o.class("recovered"),
        None => {}
    }
    o.note_add("ops_ok", ok);
    o.note_add("ops_err", err);
    o.note_add("cases", 1);
    if o.want_sample() && (c.offset % 17 == 3 || !matches!(c.fault, Fault::CutFin | Fault::CutRst)) {
        o.sample(json!({"case": format!("{c:?}"), "ok": ok, "err": err, "recovered": out.recovered}));
    }
}

fn cases(ctx: &Ctx, rng: &mut Rng) -> Vec<Case> {
    let fl = echo_frame_len();
    let mut v = Vec::new();
    let mut push = |fault, k, m, offset, rng: &mut Rng| {
        let misc = if rng.chance(1, 4) { rng.range(1, 3) as u8 } else { 0 };
        v.push(Case { misc, fault, k, m, offset, prepared: rng.bool(), idempotent: rng.chance(1, 4), seed: rng.u64() });
    };
    let quick = ctx.quick();
    // every cut offset of the response stream
    let ms: &[usize] = if quick { &[1, 2, 3] } else { &[1, 2, 3, 4, 5] };
    for &m in ms {
        for offset in 0..=(m * fl) {
            for fault in [Fault::CutFin, Fault::CutRst] {
                let k = if offset % 41 == 7 { 300 } else if offset % 3 == 0 { m.max(7) } else { m };
                push(fault, k, m, offset, rng);
            }
        }
    }
    let reps = if quick { 4 } else { 40 };
    for i in 0..reps {
        for fault in [
            Fault::Garbage,
            Fault::RequestDirection,
            Fault::BadVersion,
            Fault::UnknownOpcode,
            Fault::UnsolicitedStream,
            Fault::UnsolicitedAfterLateAnswer,
            Fault::NegativeStreamBenign,
            Fault::RstDuringWrites,
            Fault::IdleFin,
            Fault::IdlePartialHeaderFin,
        ] {
            let k = *rng.pick(&[1usize, 7, 7, 40, 300]);
            let m = rng.usize(0, k.min(5));
            push(fault, k, m, 0, rng);
        }
        if i < (if quick { 4 } else { 16 }) {
            for fault in [Fault::SilentStall, Fault::HugeLengthThenStall] {
                let k = *rng.pick(&[1usize, 7, 40]);
                let m = rng.usize(0, k.min(3));
                push(fault, k, m, 0, rng);
            }
        }
    }
    // the stall hits a connection ALL of whose stream ids are taken by requests in flight (a keep-alive cannot even
    // be written then): the callers must still be released
    for _ in 0..(if quick { 1 } else { 3 }) {
        v.push(Case { misc: 0, fault: Fault::SilentStall, k: 32768, m: 0, offset: 0, prepared: rng.bool(), idempotent: false, seed: rng.u64() });
    }
    // every other silent-stall case comes with a STATUS_CHANGE DOWN event (decided by the parity of its seed)
    let mut j = 0u64;
    for c in v.iter_mut().filter(|c| c.fault == Fault::SilentStall) {
        c.seed = (c.seed & !1) | (j & 1);
        j += 1;
    }
    v
}

// ---------------------------------------------------------------------------
// Sharded node: the only connection of ONE shard dies, the other shards keep theirs
// ---------------------------------------------------------------------------
//
// "The session keeps working through the remaining and re-established connections": requests
// whose token belongs to the shard that has just lost its connection are issued while the pool
// cannot yet have replaced it (new connections are slow to complete the handshake); they must
// neither panic nor hang, and the shard's requests must succeed again within the pacing window.

struct SurvOut {
    error: Option<String>,
    shards: u16,
    victim: u16,
    how: &'static str,
    /// in-flight requests on the victim connection: outcome, None = never returned, Err(panic text)
    inflight: Vec<(u64, Result<Option<EchoOutcome>, String>)>,
    /// probes for the victim shard issued during the refill window
    probes: Vec<(u64, Result<Option<EchoOutcome>, String>)>,
    first_success_after_ms: Option<u64>,
    violations: Vec<String>,
}

async fn run_sharded_survivor(seed: u64) -> SurvOut {
    use crate::refmodel::{murmur3, sharding};
    let mut rng = Rng::new(seed, 31);
    let shards = rng.usize(2, 4) as u16;
    let victim = rng.below(shards as u64) as u16;
    let how = *rng.pick(&["fin", "rst", "garbage"]);
    let k = rng.usize(0, 3);
    let mut out = SurvOut { error: None, shards, victim, how, inflight: vec![], probes: vec![], first_success_after_ms: None, violations: vec![] };
    let echo = Echo::new(EchoMode::Immediate);
    let mut spec = single_node_spec();
    spec.nodes[0].sharding = Some(ShardSpec { nr_shards: shards, msb_ignore: 12, shard_aware_port: true });
    let cluster = MockCluster::start(spec, echo.clone()).await;
    let profile = ExecutionProfile::builder().request_timeout(None).build();
    let session = match connect(&cluster, |b| b.pool_size(PoolSize::PerShard(NonZeroUsize::new(1).unwrap())).default_execution_profile_handle(profile.into_handle())).await {
        Ok(s) => Arc::new(s),
        Err(e) => {
            out.error = Some(e);
            cluster.shutdown();
            return out;
        }
    };
    let pool_conns = |c: &MockCluster| c.established(0).into_iter().filter(|x| !x.registered.load(std::sync::atomic::Ordering::SeqCst)).collect::<Vec<_>>();
    {
        let c = cluster.clone();
        let full = cluster.wait_until(Duration::from_secs(15), move || (0..shards).all(|sh| pool_conns(&c).iter().any(|x| x.shard == Some(sh)))).await;
        if !full {
            out.error = Some("pool did not fill".into());
            cluster.shutdown();
            return out;
        }
    }
    settle(cluster.log(), Duration::from_millis(100), Duration::from_secs(5), || false).await;
    let prepared = match session.prepare(format!("{ECHO_QUERY_PREFIX}?")).await {
        Ok(mut p) => {
            p.set_is_idempotent(false);
            Arc::new(p)
        }
        Err(e) => {
            out.error = Some(format!("prepare: {e}"));
            cluster.shutdown();
            return out;
        }
    };
    // request ids whose token the node assigns to the victim shard
    let id_for_victim = || loop {
        let id = next_op();
        let tok = murmur3::murmur3_token(&(id as i64).to_be_bytes());
        if sharding::shard_of(tok, shards, 12) as u16 == victim {
            return id;
        }
    };
    let spawn_op = |id: u64| {
        let (s, p) = (session.clone(), prepared.clone());
        tokio::spawn(async move { tokio::time::timeout(Duration::from_secs(20), echo_op(s, Some(p), id, false)).await.ok() })
    };
    let collect = |r: Result<Option<EchoOutcome>, tokio::task::JoinError>| -> Result<Option<EchoOutcome>, String> { r.map_err(|e| format!("{e}")) };
    // k requests in flight on the victim shard's connection
    echo.set_mode(EchoMode::Hold);
    let mut inflight = Vec::new();
    for _ in 0..k {
        let id = id_for_victim();
        inflight.push((id, spawn_op(id)));
    }
    {
        let e2 = echo.clone();
        settle(cluster.log(), Duration::from_millis(60), Duration::from_secs(10), move || e2.held_count() >= k).await;
    }
    echo.set_mode(EchoMode::Immediate);
    // from now on new connections are slow to come up: the victim shard stays without a connection for a while
    cluster.node(0).handshake_delay_ms.store(400, std::sync::atomic::Ordering::SeqCst);
    let Some(vconn) = pool_conns(&cluster).into_iter().find(|x| x.shard == Some(victim)) else {
        out.error = Some("no connection on the victim shard".into());
        cluster.shutdown();
        return out;
    };
    match how {
        "fin" => vconn.close(CloseHow::Fin),
        "rst" => vconn.close(CloseHow::Rst),
        _ => {
            vconn.send_raw(vec![0xde, 0xad, 0xbe, 0xef, 0x00, 0x01, 0x02, 0x03, 0x04, 0x05, 0x06, 0x07]);
            tokio::time::sleep(Duration::from_millis(5)).await;
            vconn.close(CloseHow::Fin);
        }
    }
    let t0 = std::time::Instant::now();
    // probes for the victim shard during the refill window and after it
    for i in 0..40 {
        let id = id_for_victim();
        let r = collect(spawn_op(id).await);
        if matches!(&r, Ok(Some(EchoOutcome::Ok(_)))) && out.first_success_after_ms.is_none() {
            out.first_success_after_ms = Some(t0.elapsed().as_millis() as u64);
        }
        let bad = !matches!(&r, Ok(Some(_)));
        out.probes.push((id, r));
        if bad {
            break;
        }
        if out.first_success_after_ms.is_some() && i >= 12 {
            break;
        }
        tokio::time::sleep(Duration::from_millis(if t0.elapsed() < Duration::from_millis(450) { 15 } else { 120 })).await;
    }
    for (id, h) in inflight {
        out.inflight.push((id, collect(h.await)));
    }
    out.violations = cluster.log().violations();
    drop(session);
    cluster.shutdown();
    out
}

fn judge_survivor(o: &mut Outcome, seed: u64, r: &SurvOut) {
    if let Some(e) = &r.error {
        o.inconclusive(format!("sharded-survivor case could not run: {e}"));
        return;
    }
    let replay = json!({"sharded_survivor_seed": seed, "shards": r.shards, "victim_shard": r.victim, "how": r.how, "in_flight": r.inflight.len(),
        "probes": r.probes.iter().map(|(id, x)| format!("{id}: {x:?}").chars().take(160).collect::<String>()).collect::<Vec<_>>()});
    o.case(fw::hash64(format!("surv:{seed}").as_bytes()), true);
    o.class(&format!("sharded:one-shard-lost-its-connection:{}", r.how));
    for v in &r.violations {
        o.node_violation("c10", &v, replay.clone());
    }
    for (id, x) in r.inflight.iter().chain(r.probes.iter()) {
        match x {
            Err(p) => o.violation("c10:sharded:request-panicked", format!("request {id} for shard {} (whose only connection had just died; {} other shard(s) still connected) ended in a panic of the calling task: {p}", r.victim, r.shards - 1), replay.clone()),
            Ok(None) => o.violation("c10:sharded:request-hangs", format!("request {id} for shard {} did not return within 20 s after that shard's connection died", r.victim), replay.clone()),
            Ok(Some(EchoOutcome::Ok(got))) if got != id => o.violation("c10:sharded:foreign-response", format!("request {id} was handed the response of request {got}"), replay.clone()),
            Ok(Some(EchoOutcome::Garbled(g))) => o.violation("c10:sharded:garbled-response", format!("request {id} was handed a garbled response: {g}"), replay.clone()),
            _ => {}
        }
    }
    if r.probes.iter().all(|(_, x)| matches!(x, Ok(Some(_)))) {
        match r.first_success_after_ms {
            None => o.violation("c10:sharded:session-did-not-recover", format!("after shard {}'s connection died ({}), none of {} requests for that shard succeeded although the node is healthy and {} other shard(s) stayed connected", r.victim, r.how, r.probes.len(), r.shards - 1), replay.clone()),
            Some(ms) if ms < 400 => o.class("sharded:served-through-remaining-connections-before-refill"),
            Some(_) => o.class("sharded:served-after-refill"),
        }
    }
    if o.want_sample() {
        o.sample(replay);
    }
}

// ---------------------------------------------------------------------------
// Two nodes: what was in flight on the dead connection is re-sent elsewhere only as the policy allows
// ---------------------------------------------------------------------------

struct ReplayOut {
    error: Option<String>,
    how: &'static str,
    /// (id, idempotent, node it was in flight on, frames seen per node [n0, n1], outcome)
    ops: Vec<(u64, bool, usize, [usize; 2], Result<Option<EchoOutcome>, String>)>,
    violations: Vec<String>,
}

async fn run_two_node_replay(seed: u64) -> ReplayOut {
    let mut rng = Rng::new(seed, 47);
    let how = *rng.pick(&["fin", "rst", "garbage"]);
    let mut out = ReplayOut { error: None, how, ops: vec![], violations: vec![] };
    let echo = Echo::new(EchoMode::Hold);
    let spec = ClusterSpec {
        nodes: vec![NodeSpec::simple("dc1", "r1", vec![-1000]), NodeSpec::simple("dc1", "r2", vec![1000])],
        keyspaces: single_node_spec().keyspaces,
        cluster_name: "c10-two".into(),
    };
    let cluster = MockCluster::start(spec, echo.clone()).await;
    let profile = ExecutionProfile::builder().request_timeout(None).build();
    let session = match connect(&cluster, |b| b.pool_size(PoolSize::PerHost(NonZeroUsize::new(1).unwrap())).default_execution_profile_handle(profile.into_handle())).await {
        Ok(s) => Arc::new(s),
        Err(e) => {
            out.error = Some(e);
            cluster.shutdown();
            return out;
        }
    };
    let pool_conns = |c: &MockCluster, i: usize| c.established(i).into_iter().filter(|x| !x.registered.load(std::sync::atomic::Ordering::SeqCst)).collect::<Vec<_>>();
    {
        let c = cluster.clone();
        if !cluster.wait_until(Duration::from_secs(15), move || !pool_conns(&c, 0).is_empty() && !pool_conns(&c, 1).is_empty()).await {
            out.error = Some("pools did not fill".into());
            cluster.shutdown();
            return out;
        }
    }
    settle(cluster.log(), Duration::from_millis(100), Duration::from_secs(5), || false).await;
    let n = rng.usize(4, 10);
    let mut handles = Vec::new();
    for _ in 0..n {
        let id = next_op();
        let idem = rng.bool();
        let s = session.clone();
        handles.push((id, idem, tokio::spawn(async move { tokio::time::timeout(Duration::from_secs(20), echo_op(s, None, id, idem)).await.ok() })));
    }
    {
        let e2 = echo.clone();
        settle(cluster.log(), Duration::from_millis(60), Duration::from_secs(10), move || e2.held_count() >= n).await;
    }
    // where is each request in flight?
    let held = echo.take_held();
    let at: HashMap<u64, usize> = held.iter().map(|(id, rq)| (*id, rq.node.idx)).collect();
    let victim = rng.below(2) as usize;
    echo.set_mode(EchoMode::Immediate);
    for c in pool_conns(&cluster, victim) {
        match how {
            "fin" => c.close(CloseHow::Fin),
            "rst" => c.close(CloseHow::Rst),
            _ => {
                c.send_raw(vec![0x84, 0xff, 0xff, 0xff, 0xff, 0xff, 0xff, 0xff, 0xff, 0xff, 0xff]);
                tokio::time::sleep(Duration::from_millis(3)).await;
                c.close(CloseHow::Fin);
            }
        }
    }
    // the other node answers what it holds
    tokio::time::sleep(Duration::from_millis(20)).await;
    for (id, rq) in held.iter().filter(|(_, rq)| rq.node.idx != victim) {
        Echo::answer(*id, rq);
    }
    let mut outcomes = Vec::new();
    for (id, idem, h) in handles {
        outcomes.push((id, idem, h.await.map_err(|e| format!("{e}"))));
    }
    tokio::time::sleep(Duration::from_millis(30)).await;
    let log = cluster.log().snapshot();
    for (id, idem, oc) in outcomes {
        let mut frames = [0usize; 2];
        for l in &log {
            if let crate::mock::log::Ev::Recv { node, request, .. } = &l.ev {
                if let crate::wire::request::Request::Query { query, .. } = &**request {
                    if query.strip_prefix(ECHO_QUERY_PREFIX).and_then(|x| x.trim().parse::<u64>().ok()) == Some(id) && *node < 2 {
                        frames[*node] += 1;
                    }
                }
            }
        }
        out.ops.push((id, idem, at.get(&id).copied().unwrap_or(9), frames, oc));
    }
    out.violations = cluster.log().violations();
    drop(session);
    cluster.shutdown();
    out
}

fn judge_replay(o: &mut Outcome, seed: u64, r: &ReplayOut) {
    if let Some(e) = &r.error {
        o.inconclusive(format!("two-node case could not run: {e}"));
        return;
    }
    let replay = json!({"two_node_seed": seed, "how": r.how, "ops": r.ops.iter().map(|(id, idem, at, fr, oc)| format!("{id} idempotent={idem} in flight on node {at}, frames per node {fr:?}: {oc:?}").chars().take(200).collect::<String>()).collect::<Vec<_>>()});
    o.case(fw::hash64(format!("two:{seed}").as_bytes()), true);
    o.class(&format!("two-nodes:connection-dies-with-requests-in-flight:{}", r.how));
    for v in &r.violations {
        o.node_violation("c10", v, replay.clone());
    }
    for (id, idem, at, frames, oc) in &r.ops {
        match oc {
            Err(p) => o.violation("c10:two-nodes:request-panicked", format!("request {id}: {p}"), replay.clone()),
            Ok(None) => o.violation("c10:two-nodes:request-hangs", format!("request {id} did not return within 20 s"), replay.clone()),
            Ok(Some(EchoOutcome::Ok(got))) if got != id => o.violation("c10:two-nodes:foreign-response", format!("request {id} was handed the response of request {got}"), replay.clone()),
            Ok(Some(EchoOutcome::Garbled(g))) => o.violation("c10:two-nodes:garbled-response", format!("request {id}: {g}"), replay.clone()),
            _ => {}
        }
        let total: usize = frames.iter().sum();
        if !*idem && total > 1 {
            // the default retry policy says DontRetry for a non-idempotent request whose connection broke
            o.violation(
                "c10:two-nodes:non-idempotent-request-re-sent-after-its-connection-died",
                format!("non-idempotent request {id} was in flight on node {at} when that connection died ({}); it reached the nodes {frames:?} times in all - it was sent again although the retry policy does not allow it", r.how),
                replay.clone(),
            );
        } else if !*idem && *at < 2 && frames[*at] == 1 && total == 1 {
            o.class("two-nodes:non-idempotent-not-replayed");
        }
        if *idem && total > 1 {
            o.class("two-nodes:idempotent-retried-elsewhere");
        }
    }
}

// ---------------------------------------------------------------------------
// A policy that retries on the SAME node after a broken connection: the retry must use a live connection
// ---------------------------------------------------------------------------

#[derive(Debug)]
struct SameTargetOnBroken;
struct SameTargetSession(u32);
impl scylla::policies::retry::RetryPolicy for SameTargetOnBroken {
    fn new_session(&self) -> Box<dyn scylla::policies::retry::RetrySession> {
        Box::new(SameTargetSession(0))
    }
}
impl scylla::policies::retry::RetrySession for SameTargetSession {
    fn decide_should_retry(&mut self, info: scylla::policies::retry::RequestInfo) -> scylla::policies::retry::RetryDecision {
        use scylla::policies::retry::RetryDecision;
        if matches!(info.error, scylla::errors::RequestAttemptError::BrokenConnectionError(_)) && self.0 < 150 {
            self.0 += 1;
            // (a short breath, so that the pool has the time to notice that the connection is gone)
            std::thread::sleep(Duration::from_millis(3));
            RetryDecision::RetrySameTarget(None)
        } else {
            RetryDecision::DontRetry
        }
    }
    fn reset(&mut self) {
        self.0 = 0;
    }
}

struct SameTargetOut {
    error: Option<String>,
    how: &'static str,
    ops: Vec<(u64, bool, Result<Option<EchoOutcome>, String>)>, // (id, was in flight on the dying connection, outcome)
    violations: Vec<String>,
}

async fn run_same_target_retry(seed: u64) -> SameTargetOut {
    let mut rng = Rng::new(seed, 53);
    let how = *rng.pick(&["fin", "rst", "garbage"]);
    let mut out = SameTargetOut { error: None, how, ops: vec![], violations: vec![] };
    let echo = Echo::new(EchoMode::Hold);
    let cluster = MockCluster::start(single_node_spec(), echo.clone()).await;
    let profile = ExecutionProfile::builder().request_timeout(None).retry_policy(Arc::new(SameTargetOnBroken)).build();
    let session = match connect(&cluster, |b| b.pool_size(PoolSize::PerHost(NonZeroUsize::new(2).unwrap())).default_execution_profile_handle(profile.into_handle())).await {
        Ok(s) => Arc::new(s),
        Err(e) => {
            out.error = Some(e);
            cluster.shutdown();
            return out;
        }
    };
    let pool_conns = |c: &MockCluster| c.established(0).into_iter().filter(|x| !x.registered.load(std::sync::atomic::Ordering::SeqCst)).collect::<Vec<_>>();
    {
        let c = cluster.clone();
        if !cluster.wait_until(Duration::from_secs(15), move || pool_conns(&c).len() >= 2).await {
            out.error = Some("pool did not reach 2 connections".into());
            cluster.shutdown();
            return out;
        }
    }
    settle(cluster.log(), Duration::from_millis(100), Duration::from_secs(5), || false).await;
    let n = rng.usize(2, 8);
    let mut handles = Vec::new();
    for _ in 0..n {
        let id = next_op();
        let s = session.clone();
        handles.push((id, tokio::spawn(async move { tokio::time::timeout(Duration::from_secs(20), echo_op(s, None, id, true)).await.ok() })));
    }
    {
        let e2 = echo.clone();
        settle(cluster.log(), Duration::from_millis(60), Duration::from_secs(10), move || e2.held_count() >= n).await;
    }
    let held = echo.take_held();
    let Some(victim) = held.first().map(|(_, rq)| rq.conn.clone()) else {
        out.error = Some("no request reached the node".into());
        cluster.shutdown();
        return out;
    };
    let on_victim: std::collections::HashSet<u64> = held.iter().filter(|(_, rq)| rq.conn.id == victim.id).map(|(id, _)| *id).collect();
    echo.set_mode(EchoMode::Immediate);
    // the pool cannot replace the connection quickly: the retries have only the remaining one to go to
    cluster.node(0).handshake_delay_ms.store(600, std::sync::atomic::Ordering::SeqCst);
    match how {
        "fin" => victim.close(CloseHow::Fin),
        "rst" => victim.close(CloseHow::Rst),
        _ => {
            victim.send_raw(vec![0x00, 0x01, 0x02, 0x03, 0x04, 0x05, 0x06, 0x07, 0x08, 0x09]);
            tokio::time::sleep(Duration::from_millis(3)).await;
            victim.close(CloseHow::Fin);
        }
    }
    for (id, rq) in held.iter().filter(|(_, rq)| rq.conn.id != victim.id) {
        Echo::answer(*id, rq);
    }
    for (id, h) in handles {
        out.ops.push((id, on_victim.contains(&id), h.await.map_err(|e| format!("{e}"))));
    }
    out.violations = cluster.log().violations();
    drop(session);
    cluster.shutdown();
    out
}

fn judge_same_target(o: &mut Outcome, seed: u64, r: &SameTargetOut) {
    if let Some(e) = &r.error {
        o.inconclusive(format!("same-target-retry case could not run: {e}"));
        return;
    }
    let replay = json!({"same_target_retry_seed": seed, "how": r.how, "ops": r.ops.iter().map(|(id, v, oc)| format!("{id} on the dying connection: {v}: {oc:?}").chars().take(200).collect::<String>()).collect::<Vec<_>>()});
    o.case(fw::hash64(format!("same:{seed}").as_bytes()), true);
    for v in &r.violations {
        o.node_violation("c10", v, replay.clone());
    }
    for (id, on_victim, oc) in &r.ops {
        match oc {
            Err(p) => o.violation("c10:same-target:request-panicked", format!("request {id}: {p}"), replay.clone()),
            Ok(None) => o.violation("c10:same-target:request-hangs", format!("request {id} did not return within 20 s"), replay.clone()),
            Ok(Some(EchoOutcome::Ok(got))) if got != id => o.violation("c10:same-target:foreign-response", format!("request {id} was handed the response of request {got}"), replay.clone()),
            Ok(Some(EchoOutcome::Garbled(g))) => o.violation("c10:same-target:garbled-response", format!("request {id}: {g}"), replay.clone()),
            Ok(Some(EchoOutcome::Err(e))) if *on_victim => o.violation(
                "c10:same-target:retry-did-not-reach-a-live-connection",
                format!("idempotent request {id} was in flight on the connection that died ({}); the retry policy said RetrySameTarget (up to 150 times, 3 ms apart) and the node kept another healthy connection, yet the request failed: {e}", r.how),
                replay.clone(),
            ),
            Ok(Some(EchoOutcome::Ok(_))) if *on_victim => o.class("same-target:retried-through-the-remaining-connection"),
            _ => {}
        }
    }
}

pub fn run(ctx: &Ctx) -> Outcome {
    let mut out = Outcome::new();
    let rt = runtime(ctx.workers.min(8));
    if let Some(p) = &ctx.replay {
        let v: serde_json::Value = serde_json::from_str(&std::fs::read_to_string(p).expect("replay")).expect("json");
        let r = &v["replay"];
        let fault = match r["fault"].as_str().unwrap_or("") {
            "CutFin" => Fault::CutFin,
            "CutRst" => Fault::CutRst,
            "Garbage" => Fault::Garbage,
            "RequestDirection" => Fault::RequestDirection,
            "BadVersion" => Fault::BadVersion,
            "UnknownOpcode" => Fault::UnknownOpcode,
            "UnsolicitedStream" => Fault::UnsolicitedStream,
            "UnsolicitedAfterLateAnswer" => Fault::UnsolicitedAfterLateAnswer,
            "HugeLengthThenStall" => Fault::HugeLengthThenStall,
            "SilentStall" => Fault::SilentStall,
            "NegativeStreamBenign" => Fault::NegativeStreamBenign,
            "IdleFin" => Fault::IdleFin,
            "IdlePartialHeaderFin" => Fault::IdlePartialHeaderFin,
            _ => Fault::RstDuringWrites,
        };
        let c = Case {
            misc: r["misc"].as_u64().unwrap_or(0) as u8,
            fault,
            k: r["k"].as_u64().unwrap_or(1) as usize,
            m: r["m"].as_u64().unwrap_or(1) as usize,
            offset: r["offset"].as_u64().unwrap_or(0) as usize,
            prepared: r["prepared"].as_bool().unwrap_or(false),
            idempotent: r["idempotent"].as_bool().unwrap_or(false),
            seed: r["seed"].as_u64().unwrap_or(1),
        };
        for _ in 0..5 {
            let co = rt.block_on(run_case(&c));
            judge(&mut out, &c, &co);
        }
        return out;
    }
    let mut rng = ctx.rng(1010);
    let all = cases(ctx, &mut rng);
    out.note("frame_len", json!(echo_frame_len()));
    out.note("planned_cases", json!(all.len()));
    let conc = 12usize;
    for chunk in all.chunks(conc) {
        let res: Vec<(Case, CaseOut)> = rt.block_on(async {
            let mut js = Vec::new();
            for c in chunk.iter().cloned() {
                js.push(tokio::spawn(async move {
                    let co = run_case(&c).await;
                    (c, co)
                }));
            }
            let mut v = Vec::new();
            for j in js {
                if let Ok(x) = j.await {
                    v.push(x);
                }
            }
            v
        });
        for (c, co) in &res {
            judge(&mut out, c, co);
        }
        if fw::stop_early(&mut out) {
            // a violating tree: stop enumerating, the witnesses are enough (keeps a failing run short)
            out.note("stopped_early_after_violations", json!(true));
            break;
        }
    }
    if out.violations.is_empty() {
        let n = ctx.vol(24, 400);
        let seeds: Vec<u64> = (0..n).map(|i| ctx.seed.wrapping_mul(104729).wrapping_add(i)).collect();
        for chunk in seeds.chunks(6) {
            let res: Vec<(u64, SurvOut)> = rt.block_on(async {
                let mut js = Vec::new();
                for s in chunk.iter().copied() {
                    js.push(tokio::spawn(async move { (s, run_sharded_survivor(s).await) }));
                }
                let mut v = Vec::new();
                for j in js {
                    if let Ok(x) = j.await {
                        v.push(x);
                    }
                }
                v
            });
            for (s, r) in &res {
                judge_survivor(&mut out, *s, r);
            }
            if fw::stop_early(&mut out) {
                break;
            }
        }
        let n2 = ctx.vol(30, 600);
        let seeds2: Vec<u64> = (0..n2).map(|i| ctx.seed.wrapping_mul(15485863).wrapping_add(i)).collect();
        for chunk in seeds2.chunks(6) {
            let res: Vec<(u64, ReplayOut)> = rt.block_on(async {
                let mut js = Vec::new();
                for s in chunk.iter().copied() {
                    js.push(tokio::spawn(async move { (s, run_two_node_replay(s).await) }));
                }
                let mut v = Vec::new();
                for j in js {
                    if let Ok(x) = j.await {
                        v.push(x);
                    }
                }
                v
            });
            for (s, r) in &res {
                judge_replay(&mut out, *s, r);
            }
            if fw::stop_early(&mut out) {
                break;
            }
        }
        let n3 = ctx.vol(16, 300);
        let seeds3: Vec<u64> = (0..n3).map(|i| ctx.seed.wrapping_mul(2750159).wrapping_add(i)).collect();
        for chunk in seeds3.chunks(6) {
            let res: Vec<(u64, SameTargetOut)> = rt.block_on(async {
                let mut js = Vec::new();
                for s in chunk.iter().copied() {
                    js.push(tokio::spawn(async move { (s, run_same_target_retry(s).await) }));
                }
                let mut v = Vec::new();
                for j in js {
                    if let Ok(x) = j.await {
                        v.push(x);
                    }
                }
                v
            });
            for (s, r) in &res {
                judge_same_target(&mut out, *s, r);
            }
            if fw::stop_early(&mut out) {
                break;
            }
        }
        out.require_class("same-target:retried-through-the-remaining-connection");
        for c in ["two-nodes:non-idempotent-not-replayed", "two-nodes:idempotent-retried-elsewhere"] {
            out.require_class(c);
        }
        for c in ["sharded:one-shard-lost-its-connection:fin", "sharded:one-shard-lost-its-connection:rst", "sharded:one-shard-lost-its-connection:garbage", "sharded:served-through-remaining-connections-before-refill"] {
            out.require_class(c);
        }
    }
    for c in [
        "cut:before-first-byte",
        "cut:inside-header",
        "cut:inside-body",
        "cut:between-frames",
        "fault:CutFin",
        "fault:CutRst",
        "fault:Garbage",
        "fault:RequestDirection",
        "fault:BadVersion",
        "fault:UnknownOpcode",
        "fault:UnsolicitedStream",
        "fault:UnsolicitedAfterLateAnswer",
        "fault:HugeLengthThenStall",
        "fault:SilentStall",
        "fault:NegativeStreamBenign",
        "fault:RstDuringWrites",
        "fault:IdleFin",
        "fault:IdlePartialHeaderFin",
        "stall:with-status-change-down-event",
        "stall:every-stream-id-of-the-connection-in-flight",
        "inflight:PREPARE",
        "inflight:USE",
        "recovered",
    ] {
        out.require_class(c);
    }
    out.exhaustive = Some(false);
    out
}
