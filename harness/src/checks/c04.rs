//! C04 — computed replica sets equal the cluster's own replica placement.
//!
//! Real `ClusterState::new` → real `ReplicaLocator` (hook `ClusterProbe`) on generated rings;
//! oracle `refmodel::replication`. Every strategy is queried on a locator that had a random
//! subset of the strategies in its pre-computation list and on one that pre-computed nothing.
use crate::fw::{self, Ctx, Outcome, Rng};
use crate::gen_::topology::{self as topo, St, Topology};
use crate::refmodel::replication::{self as model, MNode};
use scylla::cluster::ClusterState;
use scylla::cluster::metadata::{Peer, Strategy};
use scylla::frame::response::result::TableSpec;
use scylla::policies::host_filter::HostFilter;
use scylla::routing::Token;
use scylla::routing::locator::ReplicaLocator;
use scylla::verif_hooks::ClusterProbe;
use serde_json::{Value, json};
use std::collections::{BTreeMap, BTreeSet};
use std::sync::Arc;

/// `Outcome::violation` keeps one report per signature; this skips building the (large) message
/// and replay document when the signature is already recorded.
macro_rules! viol {
    ($o:expr, $sig:expr, $msg:expr, $replay:expr $(,)?) => {{
        let s: String = ($sig).into();
        if !$o.violations.iter().any(|v| v.signature == s) {
            let m = $msg;
            let r = $replay;
            $o.violation(s, m, r);
        }
    }};
}


pub struct RejectAll;
impl HostFilter for RejectAll {
    fn accept(&self, _peer: &Peer) -> bool {
        false
    }
}

#[derive(Clone, Debug)]
pub struct Case {
    pub topo: Topology,
    pub strategies: Vec<St>,
    pub listed: Vec<bool>,
    pub tokens: Vec<i64>,
    /// When set: the cluster state is first built from THIS topology (nodes enabled, so that `Node` objects
    /// are carried over) and then refreshed to `topo` - fully or, with `true`, by a partial topology refresh.
    /// `absent_before` lists nodes of `topo` that the earlier topology did not have (they join with the refresh).
    pub prior: Option<(Topology, bool, Vec<usize>)>,
}

impl Case {
    fn to_json(&self) -> Value {
        json!({
            "topology": self.topo.to_json(),
            "strategies": self.strategies.iter().map(St::to_json).collect::<Vec<_>>(),
            "listed": self.listed,
            "prior": self.prior.as_ref().map(|(t, partial, absent)| json!({"topology": t.to_json(), "partial_refresh": partial, "absent_before": absent})),
        })
    }
    fn from_json(v: &Value) -> Option<Case> {
        let topo = Topology::from_json(&v["topology"])?;
        let strategies: Vec<St> = v["strategies"].as_array()?.iter().filter_map(St::from_json).collect();
        let listed: Vec<bool> = v["listed"].as_array()?.iter().map(|b| b.as_bool().unwrap_or(false)).collect();
        if listed.len() != strategies.len() {
            return None;
        }
        let prior = Topology::from_json(&v["prior"]["topology"]).map(|t| {
            (t, v["prior"]["partial_refresh"].as_bool().unwrap_or(false), v["prior"]["absent_before"].as_array().map(|a| a.iter().filter_map(|x| x.as_u64()).map(|x| x as usize).collect()).unwrap_or_default())
        });
        Some(Case { topo, strategies, listed, tokens: Vec::new(), prior })
    }
}

/// What one `ReplicaSet` shows through its four views.
#[derive(Debug, Clone, PartialEq, Eq)]
struct Views {
    len: usize,
    is_empty: bool,
    iter: Vec<usize>,
    ordered: Vec<usize>,
}

const SPEC: TableSpec<'static> = TableSpec::borrowed("c04_no_such_keyspace", "c04_no_such_table");

fn ids<'a>(it: impl Iterator<Item = (scylla::cluster::NodeRef<'a>, scylla::routing::Shard)>) -> Vec<usize> {
    it.map(|(n, _)| topo::index_of(n.host_id)).collect()
}

fn views(loc: &ReplicaLocator, token: i64, st: &Strategy, dc: Option<&str>) -> Result<Views, String> {
    fw::catch(|| {
        let t = Token::new(token);
        let set = loc.replicas_for_token(t, st, dc, &SPEC);
        let len = set.len();
        let is_empty = set.is_empty();
        let iter = ids(set.into_iter());
        let ordered = ids(loc.replicas_for_token(t, st, dc, &SPEC).into_replicas_ordered().into_iter());
        Views { len, is_empty, iter, ordered }
    })
}

fn set_of(v: &[usize]) -> BTreeSet<usize> {
    v.iter().copied().collect()
}

fn kind(st: &St) -> &'static str {
    match st {
        St::Simple(_) => "simple",
        St::Nts(_) => "nts",
        St::Local => "local",
        St::Other => "other",
    }
}

fn model_ordered(nodes: &[MNode], st: &St, token: i64) -> Vec<usize> {
    match st {
        St::Simple(rf) => model::simple(nodes, token, *rf),
        St::Nts(m) => model::nts(nodes, token, m),
        // documented: LocalStrategy has RF 1; an unknown strategy is treated as SimpleStrategy RF 1
        St::Local | St::Other => model::simple(nodes, token, 1),
    }
}

struct Site<'a> {
    case: &'a Case,
    k: usize,
    token: i64,
    path: &'static str,
}

impl Site<'_> {
    /// Violations on rings where two nodes own the same token carry their own signature family:
    /// servers never produce such rings and the order among tied entries is unspecified, so
    /// they must never be confused with (or mask) a failure on a well-formed ring.
    fn sig(&self, s: String) -> String {
        if self.case.topo.has_duplicate_tokens() { format!("dupring:{s}") } else { s }
    }
    fn replay(&self) -> Value {
        let mut j = self.case.to_json();
        j["k"] = json!(self.k);
        j["token"] = json!(self.token);
        j
    }
    fn describe(&self) -> String {
        format!(
            "ring {} | strategy {} | token {} | locator: {}",
            self.case.topo.to_json(),
            self.case.strategies[self.k].to_json(),
            self.token,
            self.path
        )
    }
}

/// The relations between the views of one replica set, and between them and the model.
/// `want`: the model's replicas in ring order (None on rings with duplicate tokens, where tie
/// order is unspecified and only the internal-consistency relations are asserted).
fn check_views(o: &mut Outcome, site: &Site, what: &str, v: &Views, want: Option<&[usize]>, rf0_dcs: &[&str]) {
    let k = kind(&site.case.strategies[site.k]);
    let nodes = &site.case.topo.nodes;
    let iset = set_of(&v.iter);
    if iset.len() != v.iter.len() {
        viol!(o, site.sig(format!("{k}{what}:iteration-repeats-a-node")), format!("iteration {:?} names a node twice | {}", v.iter, site.describe()), site.replay());
    }
    if v.len != v.iter.len() || v.is_empty != v.iter.is_empty() {
        viol!(o, site.sig(format!("{k}{what}:len-vs-iteration")),
            format!("len()={} is_empty()={} but iteration yields {:?} | {}", v.len, v.is_empty, v.iter, site.describe()),
            site.replay(),
        );
    }
    if let Some(w) = want {
        if iset != set_of(w) {
            viol!(o, site.sig(format!("{k}{what}:set-vs-model")),
                format!("replicas {:?}, the servers' placement is {:?} | {}", v.iter, w, site.describe()),
                site.replay(),
            );
        }
    }
    // ring-ordered view
    let ordered_ok = match want {
        Some(w) => v.ordered == w,
        None => set_of(&v.ordered) == iset && v.ordered.len() == v.iter.len(),
    };
    if !ordered_ok {
        // Narrow class: the only difference is that nodes of datacenters whose replication
        // factor in the strategy map is 0 were added to the ordered view.
        let stripped: Vec<usize> =
            v.ordered.iter().copied().filter(|i| !nodes[*i].dc.as_deref().is_some_and(|d| rf0_dcs.contains(&d))).collect();
        let stripped_ok = stripped.len() < v.ordered.len()
            && match want {
                Some(w) => stripped == w,
                None => set_of(&stripped) == iset && stripped.len() == v.iter.len(),
            };
        if stripped_ok {
            o.class("finding:nts-ordered-rf0-dc-node-included");
            viol!(o, site.sig(format!("{k}{what}-ordered:rf0-dc-node-included")),
                format!(
                    "into_replicas_ordered() yields {:?} although len()={} and iteration yields {:?}: it includes a node of a datacenter whose replication factor is 0 | {}",
                    v.ordered, v.len, v.iter, site.describe()
                ),
                site.replay(),
            );
        } else {
            viol!(o, site.sig(format!("{k}{what}-ordered:mismatch")),
                format!("into_replicas_ordered() yields {:?}, expected {:?} (iteration: {:?}) | {}", v.ordered, want, v.iter, site.describe()),
                site.replay(),
            );
        }
    }
}

/// `choose_filtered` and `nth` on one replica set.
fn check_choice(o: &mut Outcome, site: &Site, what: &str, loc: &ReplicaLocator, st: &Strategy, dc: Option<&str>, v: &Views, rng: &mut Rng) {
    let k = kind(&site.case.strategies[site.k]);
    let t = Token::new(site.token);
    let members = set_of(&v.iter);
    let r = fw::catch(|| {
        let mut bad: Vec<(String, String)> = Vec::new();
        // any member will do
        for _ in 0..(v.iter.len().min(6) + 1) {
            let got = loc.replicas_for_token(t, st, dc, &SPEC).choose_filtered(&mut rng.0, |_| true).map(|(n, _)| topo::index_of(n.host_id));
            match got {
                Some(g) if members.contains(&g) => {}
                None if members.is_empty() => {}
                other => bad.push(("choose-not-a-member".into(), format!("choose_filtered(any) returned {other:?}, members {:?}", v.iter))),
            }
        }
        // nobody will do
        if loc.replicas_for_token(t, st, dc, &SPEC).choose_filtered(&mut rng.0, |_| false).is_some() {
            bad.push(("choose-ignores-predicate".into(), "choose_filtered(nobody) returned a node".into()));
        }
        // exactly one member will do
        let mut targets: Vec<usize> = v.iter.clone();
        if targets.len() > 4 {
            rng.shuffle(&mut targets);
            targets.truncate(3);
        }
        for m in targets {
            let got = loc
                .replicas_for_token(t, st, dc, &SPEC)
                .choose_filtered(&mut rng.0, |(n, _)| topo::index_of(n.host_id) == m)
                .map(|(n, _)| topo::index_of(n.host_id));
            if got != Some(m) {
                bad.push(("choose-single-predicate".into(), format!("choose_filtered(only node {m}) returned {got:?}, members {:?}", v.iter)));
            }
        }
        // nth(i) after `skip` calls of next() is element skip+i of the iteration; the rest follows
        for skip in 0..=v.iter.len().min(2) {
            for i in 0..=v.iter.len() + 1 - skip {
                let mut it = loc.replicas_for_token(t, st, dc, &SPEC).into_iter();
                for _ in 0..skip {
                    it.next();
                }
                let got = it.nth(i).map(|(n, _)| topo::index_of(n.host_id));
                let rest: Vec<usize> = ids(it);
                let at = skip + i;
                let want_rest: &[usize] = if at < v.iter.len() { &v.iter[at + 1..] } else { &[] };
                if got != v.iter.get(at).copied() || rest != want_rest {
                    bad.push(("nth-vs-iteration".into(), format!("after {skip} next(): nth({i}) = {got:?} then {rest:?}; iteration is {:?}", v.iter)));
                }
            }
        }
        bad
    });
    match r {
        Ok(bad) => {
            for (sig, msg) in bad {
                viol!(o, site.sig(format!("{k}{what}:{sig}")), format!("{msg} | {}", site.describe()), site.replay());
            }
        }
        Err(p) => viol!(o, site.sig(format!("{k}{what}:choice-panic")), format!("panic: {p} | {}", site.describe()), site.replay()),
    }
}

fn classify(o: &mut Outcome, case: &Case, st: &St, token: i64, want: &[usize]) {
    let t = &case.topo;
    o.class(kind(st));
    let n = t.ring_node_count();
    let ring = t.ring_tokens();
    if ring.contains(&token) {
        o.class("token:exact-ring-token");
    } else if ring.last().is_some_and(|l| token > *l) {
        o.class("token:wraps-around");
    } else {
        o.class("token:inside-interval");
    }
    match st {
        St::Simple(rf) => {
            if *rf == 0 {
                o.class("simple:rf0");
            } else if *rf > n {
                o.class("simple:rf-above-node-count");
            } else {
                o.class("simple:rf-within-node-count");
            }
        }
        St::Nts(m) => {
            for dc in t.ring_dcs() {
                match m.get(&dc) {
                    None => o.class("nts:ring-dc-absent-from-strategy"),
                    Some(0) => o.class("nts:ring-dc-with-rf0"),
                    Some(rf) => {
                        let (racks, nd) = (t.racks_in_dc(&dc), t.nodes_in_dc(&dc));
                        if *rf > nd {
                            o.class("nts:rf-above-node-count");
                        } else if *rf > racks {
                            o.class("nts:rf-above-rack-count");
                        } else {
                            o.class("nts:rf-up-to-rack-count");
                        }
                        // did the rack rule change the outcome w.r.t. plain "first RF nodes"?
                        let plain: Vec<usize> = model::clockwise(&t.nodes, token, |x| x.dc.as_deref() == Some(&dc)).into_iter().take(*rf).collect();
                        if plain != model::nts_dc(&t.nodes, token, &dc, *rf) {
                            o.class("nts:rack-rule-skips-a-node");
                        }
                    }
                }
            }
            if m.keys().any(|d| t.nodes_in_dc(d) == 0) {
                o.class("nts:strategy-dc-absent-from-ring");
            }
            if want.len() > 1 && set_of(want).iter().map(|i| &t.nodes[*i].dc).collect::<BTreeSet<_>>().len() > 1 {
                o.class("nts:replicas-in-several-dcs");
            }
        }
        _ => {}
    }
}

fn classify_topology(o: &mut Outcome, t: &Topology) {
    if t.nodes.iter().any(|n| n.rack.is_none() && !n.tokens.is_empty()) {
        o.class("ring:rackless-node");
    }
    if t.nodes.iter().any(|n| n.dc.is_none() && !n.tokens.is_empty()) {
        o.class("ring:dcless-node");
    }
    if t.nodes.iter().any(|n| n.tokens.len() > 1) {
        o.class("ring:vnodes");
    }
    if t.nodes.iter().any(|n| n.tokens.is_empty()) {
        o.class("ring:zero-token-node");
    }
    if t.has_duplicate_tokens() {
        o.class("ring:duplicate-tokens");
    }
    if t.ring_tokens().iter().any(|x| *x == i64::MAX || *x == i64::MIN + 1) {
        o.class("ring:extreme-token");
    }
    if t.ring_dcs().len() > 1 {
        o.class("ring:several-dcs");
    }
    if t.ring_node_count() == 0 {
        o.class("ring:empty");
    }
}

/// Evaluates one topology: every strategy x every token x both locators (or only `only`).
pub fn eval_case(o: &mut Outcome, rt: &tokio::runtime::Runtime, case: &Case, only: Option<(usize, i64)>, rng: &mut Rng) {
    let t = &case.topo;
    let nodes = &t.nodes;
    let peers = t.peers();
    let filter: Arc<dyn HostFilter> = Arc::new(RejectAll);
    let kss = topo::keyspaces(&case.strategies, &case.listed);
    let (probe_a, probe_b) = match &case.prior {
        None => (rt.block_on(ClusterProbe::new(&peers, &kss, Some(filter.clone()))), rt.block_on(ClusterProbe::new(&peers, &[], Some(filter)))),
        Some((pt, partial, absent)) => {
            o.class(if *partial { "refreshed:partial-topology-refresh" } else { "refreshed:full-refresh" });
            let mut pp = pt.peers();
            pp.retain(|p| !absent.contains(&topo::index_of(p.host_id)));
            let r = fw::catch(|| {
                rt.block_on(async {
                    // enabled nodes: their `Node` objects are carried over or re-created by the refresh
                    let mut a = ClusterProbe::new(&pp, &kss, None).await;
                    let mut b = ClusterProbe::new(&pp, &[], None).await;
                    if *partial {
                        a.refresh_topology(&peers).await;
                        b.refresh_topology(&peers).await;
                    } else {
                        a.refresh(&peers, &kss).await;
                        b.refresh(&peers, &[]).await;
                    }
                    (a, b)
                })
            });
            match r {
                Ok(x) => x,
                Err(p) => {
                    let site = Site { case, k: 0, token: 0, path: "refresh" };
                    viol!(o, "refreshed:panic".to_string(), format!("building or refreshing the cluster state panicked: {p} | {}", site.describe()), site.replay());
                    return;
                }
            }
        }
    };
    let (state_a, state_b): (&ClusterState, &ClusterState) = (probe_a.state(), probe_b.state());
    let dup = t.has_duplicate_tokens();
    classify_topology(o, t);
    let topo_hash = fw::hash64(t.to_json().to_string().as_bytes());
    let mut dcs: Vec<String> = t.ring_dcs();
    dcs.push(topo::GHOST_DC.to_owned());
    dcs.push("nowhere".to_owned());

    for (k, st) in case.strategies.iter().enumerate() {
        let strategy = st.strategy();
        let rf0_dcs: Vec<&str> = match st {
            St::Nts(m) => m.iter().filter(|(_, rf)| **rf == 0).map(|(d, _)| d.as_str()).collect(),
            _ => Vec::new(),
        };
        let strategy_key = fw::hash64(format!("{topo_hash}:{}", st.to_json()).as_bytes());
        for &token in &case.tokens {
            if only.is_some_and(|(ok, ot)| ok != k || ot != token) {
                continue;
            }
            let want = model_ordered(nodes, st, token);
            let want_opt: Option<&[usize]> = if dup { None } else { Some(&want) };
            classify(o, case, st, token, &want);
            let mut per_path: Vec<Views> = Vec::new();
            for (path, state) in [(if case.listed[k] { "strategy listed for pre-computation" } else { "strategy not listed, others pre-computed" }, state_a), ("nothing pre-computed", state_b)] {
                let loc = state.replica_locator();
                let site = Site { case, k, token, path };
                o.class(if std::ptr::eq(state, state_b) {
                    "path:nothing-precomputed"
                } else if case.listed[k] {
                    "path:listed-for-precomputation"
                } else {
                    "path:unlisted-next-to-precomputed"
                });
                // a case = one (ring, strategy) pair with all its tokens and both locators;
                // every single (token, locator) query counts as an evaluation
                o.case(strategy_key, !want.is_empty());
                let all = match views(loc, token, &strategy, None) {
                    Ok(v) => v,
                    Err(p) => {
                        viol!(o, site.sig(format!("{}:panic", kind(st))), format!("replicas_for_token / its views panicked: {p} | {}", site.describe()), site.replay());
                        continue;
                    }
                };
                check_views(o, &site, "", &all, want_opt, &rf0_dcs);
                check_choice(o, &site, "", loc, &strategy, None, &all, rng);
                // restricting to a datacenter == filtering the unrestricted answer
                for dc in &dcs {
                    let filtered: Vec<usize> = all.iter.iter().copied().filter(|i| nodes[*i].dc.as_deref() == Some(dc.as_str())).collect();
                    let want_dc: Vec<usize> = want.iter().copied().filter(|i| nodes[*i].dc.as_deref() == Some(dc.as_str())).collect();
                    let v = match views(loc, token, &strategy, Some(dc)) {
                        Ok(v) => v,
                        Err(p) => {
                            viol!(o, site.sig(format!("{}-dc:panic", kind(st))), format!("datacenter-restricted ({dc}) replicas panicked: {p} | {}", site.describe()), site.replay());
                            continue;
                        }
                    };
                    o.evals(1);
                    if set_of(&v.iter) != set_of(&filtered) {
                        viol!(o, 
                            site.sig(format!("{}-dc:restricted-vs-filtered", kind(st))),
                            format!("restricted to {dc}: {:?}; unrestricted {:?} filtered by datacenter: {:?} | {}", v.iter, all.iter, filtered, site.describe()),
                            site.replay(),
                        );
                    }
                    check_views(o, &site, "-dc", &v, if dup { None } else { Some(&want_dc) }, &[]);
                    if !v.iter.is_empty() || rng.chance(1, 8) {
                        check_choice(o, &site, "-dc", loc, &strategy, Some(dc), &v, rng);
                    }
                }
                per_path.push(all);
            }
            // the answer does not depend on what was pre-computed
            if per_path.len() == 2 {
                let (a, b) = (&per_path[0], &per_path[1]);
                let same = set_of(&a.iter) == set_of(&b.iter) && a.len == b.len && if dup { set_of(&a.ordered) == set_of(&b.ordered) } else { a.ordered == b.ordered };
                if !same {
                    let site = Site { case, k, token, path: "both" };
                    viol!(o, 
                        site.sig(format!("{}:precomputed-vs-on-the-fly", kind(st))),
                        format!("with pre-computation {:?} / ordered {:?}; without {:?} / ordered {:?} | {}", a.iter, a.ordered, b.iter, b.ordered, site.describe()),
                        site.replay(),
                    );
                }
            }
            // ClusterState::get_token_endpoints of the listed keyspace (and of an unknown one)
            if case.listed[k] {
                let site = Site { case, k, token, path: "ClusterState::get_token_endpoints" };
                match fw::catch(|| state_a.get_token_endpoints(&topo::keyspace_name(k), topo::TABLE, Token::new(token))) {
                    Ok(got) => {
                        let got: Vec<usize> = got.iter().map(|(n, _)| topo::index_of(n.host_id)).collect();
                        o.evals(1);
                        let reference: BTreeSet<usize> = if dup { per_path.first().map(|v| set_of(&v.iter)).unwrap_or_default() } else { set_of(&want) };
                        if set_of(&got) != reference || got.len() != reference.len() {
                            viol!(o, 
                                site.sig(format!("{}:get_token_endpoints", kind(st))),
                                format!("get_token_endpoints = {got:?}, expected the set {reference:?} | {}", site.describe()),
                                site.replay(),
                            );
                        }
                    }
                    Err(p) => viol!(o, site.sig(format!("{}:get_token_endpoints-panic", kind(st))), format!("panic: {p} | {}", site.describe()), site.replay()),
                }
            }
        }
    }
}

pub fn gen_case(rng: &mut Rng, token_cap: usize) -> Case {
    let t = topo::gen_topology(rng, 12, true);
    let strategies = topo::gen_strategies(rng, &t);
    let all = rng.chance(1, 6);
    let listed: Vec<bool> = strategies.iter().map(|_| all || rng.bool()).collect();
    let tokens = topo::query_tokens(rng, &t, token_cap);
    Case { topo: t, strategies, listed, tokens, prior: None }
}

/// An earlier topology of the same cluster: some nodes in another rack / datacenter / with other tokens, some
/// not there yet, some extra nodes that will have left.
pub fn gen_prior(rng: &mut Rng, t: &Topology) -> (Topology, bool, Vec<usize>) {
    let mut p = t.clone();
    let dcs: Vec<Option<String>> = {
        let mut v: Vec<Option<String>> = t.nodes.iter().map(|n| n.dc.clone()).collect();
        v.push(Some("dc-old".into()));
        v
    };
    for n in p.nodes.iter_mut() {
        match rng.below(8) {
            0 | 1 => n.rack = Some(format!("old-rack-{}", rng.below(3))),
            2 => n.rack = None,
            3 => n.dc = rng.pick(&dcs).clone(),
            4 => n.tokens = n.tokens.iter().map(|x| x.wrapping_add(rng.range(-1000, 1000))).collect(),
            _ => {}
        }
    }
    let absent: Vec<usize> = (0..t.nodes.len()).filter(|_| rng.chance(1, 6)).collect();
    // nodes that exist only before the refresh
    for _ in 0..rng.usize(0, 2) {
        let like = rng.pick(&t.nodes).clone();
        p.nodes.push(MNode { dc: like.dc, rack: like.rack, tokens: (0..rng.usize(1, 3)).map(|_| rng.u64() as i64).collect() });
    }
    (p, rng.bool(), absent)
}

fn mnode(dc: Option<&str>, rack: Option<&str>, tokens: &[i64]) -> MNode {
    MNode { dc: dc.map(str::to_owned), rack: rack.map(str::to_owned), tokens: tokens.to_vec() }
}

/// The 7-node, 2-datacenter ring of the repository's own locator tests (nodes A..G = 0..6).
pub fn repo_ring() -> Topology {
    Topology {
        nodes: vec![
            mnode(Some("eu"), Some("r1"), &[50, 250, 400]),
            mnode(Some("eu"), Some("r1"), &[100, 600, 900]),
            mnode(Some("eu"), Some("r1"), &[300, 650, 700]),
            mnode(Some("us"), Some("r1"), &[350, 550]),
            mnode(Some("us"), Some("r1"), &[150, 750]),
            mnode(Some("us"), Some("r2"), &[200, 450]),
            mnode(Some("eu"), Some("r2"), &[500, 800]),
        ],
    }
}

/// The model must reproduce the placements pinned in the repository's unit tests (which in
/// turn were taken from a real cluster); a failure here is a harness error, not a verdict.
fn model_selftest() {
    let t = repo_ring();
    let n = &t.nodes;
    let (a, b, c, d, e, f, g) = (0usize, 1usize, 2usize, 3usize, 4usize, 5usize, 6usize);
    assert_eq!(model::simple(n, 160, 2), vec![f, a]);
    assert_eq!(model::simple(n, 200, 7), vec![f, a, c, d, g, b, e]);
    assert_eq!(model::simple(n, 701, 8), vec![e, g, b, a, f, c, d]);
    assert_eq!(model::simple(n, 160, 0), Vec::<usize>::new());
    assert_eq!(model::nts_dc(n, 160, "eu", 1), vec![a]);
    assert_eq!(model::nts_dc(n, 160, "eu", 2), vec![a, g]);
    assert_eq!(model::nts_dc(n, 160, "eu", 3), vec![a, c, g]);
    assert_eq!(model::nts_dc(n, 160, "eu", 5), vec![a, c, g, b]);
    assert_eq!(model::nts_dc(n, 160, "us", 2), vec![f, d]);
    assert_eq!(model::nts_dc(n, 160, "us", 4), vec![f, d, e]);
    let rf = |eu: usize, us: usize| BTreeMap::from([("eu".to_owned(), eu), ("us".to_owned(), us)]);
    assert_eq!(model::nts(n, 160, &rf(3, 3)), vec![f, a, c, d, g, e]);
    assert_eq!(model::nts(n, 160, &rf(2, 2)), vec![f, a, d, g]);
    assert_eq!(model::nts(n, 40, &rf(0, 2)), vec![e, f]);
}

fn literal_cases() -> Vec<Case> {
    let rf = |eu: usize, us: usize| St::Nts(BTreeMap::from([("eu".to_owned(), eu), ("us".to_owned(), us)]));
    let repo = Case {
        topo: repo_ring(),
        strategies: vec![St::Simple(2), rf(2, 2), rf(3, 3), rf(0, 2), rf(4, 1), St::Local],
        listed: vec![true, true, false, true, false, false],
        tokens: vec![40, 50, 51, 160, 200, 701, 900, 901, i64::MAX, i64::MIN + 1],
        prior: None,
    };
    // one datacenter, racks {r0: 3 nodes, r1: 1 node, None: 1 node}; RF sweeps across the rack count
    let racks = Case {
        topo: Topology {
            nodes: vec![
                mnode(Some("eu"), Some("r0"), &[10]),
                mnode(Some("eu"), Some("r0"), &[20]),
                mnode(Some("eu"), Some("r0"), &[30]),
                mnode(Some("eu"), Some("r1"), &[40]),
                mnode(Some("eu"), None, &[i64::MAX]),
                mnode(None, None, &[25]),
            ],
        },
        strategies: (0..=7).map(|r| St::Nts(BTreeMap::from([("eu".to_owned(), r)]))).chain([St::Simple(3), St::Other]).collect(),
        listed: vec![false, true, false, true, true, false, true, false, true, false],
        tokens: vec![9, 10, 11, 25, 26, 40, 41, i64::MAX, i64::MIN + 1],
        prior: None,
    };
    // the same two rings reached through a refresh: every node was in another rack before
    let mut out = vec![repo.clone(), racks.clone()];
    for (c, partial) in [(repo, false), (racks, true)] {
        let mut prior = c.topo.clone();
        for n in prior.nodes.iter_mut() {
            n.rack = Some("previous-rack".into());
        }
        let mut c2 = c;
        c2.prior = Some((prior, partial, vec![]));
        out.push(c2);
    }
    out
}

fn replay(path: &str) -> Outcome {
    let mut o = Outcome::new();
    let v: Value = serde_json::from_str(&std::fs::read_to_string(path).expect("replay file")).expect("json");
    let r = &v["replay"];
    let (Some(mut case), Some(k), Some(token)) = (Case::from_json(r), r["k"].as_u64(), r["token"].as_i64()) else {
        o.inconclusive("unrecognised replay file");
        return o;
    };
    case.tokens = vec![topo::norm(token)];
    let rt = tokio::runtime::Builder::new_current_thread().enable_all().build().expect("runtime");
    let mut rng = Rng::new(v["seed"].as_u64().unwrap_or(1), 77);
    // the random choices inside `choose_filtered` are re-drawn a few times
    for _ in 0..8 {
        eval_case(&mut o, &rt, &case, Some((k as usize, topo::norm(token))), &mut rng);
    }
    o
}

pub const REQUIRED: [&str; 27] = [
    "simple",
    "nts",
    "local",
    "other",
    "simple:rf0",
    "simple:rf-above-node-count",
    "simple:rf-within-node-count",
    "nts:ring-dc-absent-from-strategy",
    "nts:ring-dc-with-rf0",
    "nts:rf-above-node-count",
    "nts:rf-above-rack-count",
    "nts:rf-up-to-rack-count",
    "nts:rack-rule-skips-a-node",
    "nts:strategy-dc-absent-from-ring",
    "nts:replicas-in-several-dcs",
    "ring:rackless-node",
    "ring:dcless-node",
    "ring:vnodes",
    "ring:duplicate-tokens",
    "ring:extreme-token",
    "ring:several-dcs",
    "token:exact-ring-token",
    "token:wraps-around",
    "token:inside-interval",
    "path:nothing-precomputed",
    "path:listed-for-precomputation",
    "path:unlisted-next-to-precomputed",
];

pub fn run(ctx: &Ctx) -> Outcome {
    if let Some(p) = &ctx.replay {
        return replay(p);
    }
    model_selftest();
    let workers = ctx.workers;
    let total = if ctx.miri() { 4 } else { ctx.vol(6_000, 100_000) };
    let token_cap = if ctx.miri() { 8 } else if ctx.quick() { 40 } else { 96 };
    let mut out = fw::par(ctx, workers, |w, mut rng| {
        let mut o = Outcome::new();
        let rt = tokio::runtime::Builder::new_current_thread().enable_all().build().expect("runtime");
        if w == 0 {
            for c in literal_cases() {
                for (k, st) in c.strategies.iter().enumerate().take(4) {
                    if o.want_sample() {
                        let token = c.tokens[k % c.tokens.len()];
                        o.sample(json!({"ring": c.topo.to_json(), "strategy": st.to_json(), "token": token,
                            "oracle_replicas_in_ring_order": model_ordered(&c.topo.nodes, st, token)}));
                    }
                }
                eval_case(&mut o, &rt, &c, None, &mut rng);
            }
        }
        let mine = (total as usize + workers - 1 - w) / workers;
        for i in 0..mine {
            let mut c = gen_case(&mut rng, token_cap);
            // every eighth ring is reached through a refresh of an earlier topology of the same cluster
            if i % 8 == 3 && !c.topo.nodes.is_empty() {
                c.prior = Some(gen_prior(&mut rng, &c.topo));
            }
            eval_case(&mut o, &rt, &c, None, &mut rng);
            o.note_add("topologies", 1);
        }
        o
    });
    for c in REQUIRED {
        out.require_class(c);
    }
    out.exhaustive = Some(false);
    out.note(
        "enumerated_per_ring",
        json!("per generated ring: every datacenter x every RF 0..=nodes_in_dc+2 (NTS), SimpleStrategy RF {0,1,n,n+1,n+2}+ (all RF when n<=5); tokens: ring tokens, +-1, extremes, midpoints (capped)"),
    );
    out
}
