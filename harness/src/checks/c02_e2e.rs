//! C02 half 2 — end to end: one pool connection carrying many concurrent
//! requests; the mock node answers in adversarial order and withholds answers
//! of abandoned requests; callers are cancelled at random points.
//! Monitors: (a) every successful result carries its own id and an intact
//! payload; (b) server side: a stream id never arrives while the node still
//! owes an answer on it; (c) a delivered response was really sent for that id.

use super::e2e::*;
use crate::fw::{self, Ctx, Outcome, Rng};
use crate::mock::log::Ev;
use crate::mock::*;
use scylla::client::session::Session;
use scylla::client::{PoolSize, WriteCoalescingDelay};
use scylla::statement::prepared::PreparedStatement;
use serde_json::json;
use std::collections::{HashMap, HashSet};
use std::num::{NonZeroU64, NonZeroUsize};
use std::sync::{Arc, Mutex};
use std::time::Duration;

#[derive(Clone, Copy, Debug, PartialEq, Eq)]
enum Order {
    Fifo,
    Reverse,
    Random,
    TwoBatches,
}

#[derive(Clone, Debug)]
struct HistCfg {
    n1: usize,
    n2: usize,
    order: Order,
    /// per mille of ops that get a cancellation plan
    cancel_pm: u64,
    /// per mille of held requests whose answer is withheld until the end
    withhold_pm: u64,
    coalesce: u8,
    prepared: bool,
    seed: u64,
    /// 0 none, 1 lz4, 2 snappy
    compression: u8,
    /// keep-alive OPTIONS requests interleave with the workload on the same connection
    keepalive: bool,
    /// framing-desync probe (see run_history)
    desync_probe: bool,
}

#[derive(Clone, Debug)]
struct OpRec {
    id: u64,
    cancelled: bool,
    outcome: Option<EchoOutcome>,
}

async fn echo_op(session: Arc<Session>, prepared: Option<Arc<PreparedStatement>>, id: u64) -> EchoOutcome {
    let res = match prepared {
        Some(p) => session.execute_unpaged(&p, (id as i64,)).await,
        None => session.query_unpaged(format!("{ECHO_QUERY_PREFIX}{id}"), ()).await,
    };
    decode_echo(res)
}

struct HistOut {
    ops: Vec<OpRec>,
    hung: usize,
    log: Arc<crate::mock::log::EventLog>,
    build_error: Option<String>,
}

async fn run_history(cfg: &HistCfg) -> HistOut {
    let mut rng = Rng::new(cfg.seed, 7);
    let echo = Echo::new(EchoMode::Immediate);
    let cluster = MockCluster::start(single_node_spec(), echo.clone()).await;
    let log = cluster.log().clone();
    let coalesce = cfg.coalesce;
    let (compression, keepalive) = (cfg.compression, cfg.keepalive);
    let session = connect(&cluster, |b| {
        let b = b.pool_size(PoolSize::PerHost(NonZeroUsize::new(1).unwrap()));
        let b = match compression {
            1 => b.compression(Some(scylla::frame::Compression::Lz4)),
            2 => b.compression(Some(scylla::frame::Compression::Snappy)),
            _ => b,
        };
        let b = if keepalive { b.keepalive_interval(Duration::from_millis(3)).keepalive_timeout(Duration::from_secs(30)) } else { b };
        match coalesce {
            0 => b.write_coalescing(false),
            1 => b.write_coalescing(true),
            _ => b.write_coalescing(true).write_coalescing_delay(WriteCoalescingDelay::Milliseconds(NonZeroU64::new(1).unwrap())),
        }
    })
    .await;
    let session = match session {
        Ok(s) => Arc::new(s),
        Err(e) => {
            cluster.shutdown();
            return HistOut { ops: vec![], hung: 0, log, build_error: Some(e) };
        }
    };
    let prepared = if cfg.prepared {
        match session.prepare(format!("{ECHO_QUERY_PREFIX}?")).await {
            Ok(p) => Some(Arc::new(p)),
            Err(e) => {
                cluster.shutdown();
                return HistOut { ops: vec![], hung: 0, log, build_error: Some(format!("prepare: {e}")) };
            }
        }
    } else {
        None
    };
    echo.set_mode(EchoMode::Hold);
    let cancelled: Arc<Mutex<HashSet<u64>>> = Arc::new(Mutex::new(HashSet::new()));
    let results: Arc<Mutex<HashMap<u64, OpRec>>> = Arc::new(Mutex::new(HashMap::new()));
    let mut handles = Vec::new();
    let op_handles: Arc<Mutex<HashMap<u64, tokio::task::AbortHandle>>> = Arc::new(Mutex::new(HashMap::new()));

    let spawn_ops = |n: usize, rng: &mut Rng, handles: &mut Vec<tokio::task::JoinHandle<()>>| {
        for _ in 0..n {
            let id = next_op();
            let plan: Option<Duration> = if rng.chance(cfg.cancel_pm, 1000) {
                Some(match rng.below(5) {
                    0 => Duration::ZERO,
                    1 => Duration::from_micros(rng.below(200)),
                    2 => Duration::from_micros(200 + rng.below(2000)),
                    _ => Duration::from_millis(1 + rng.below(30)),
                })
            } else {
                None
            };
            let session = session.clone();
            let prepared = prepared.clone();
            let log = log.clone();
            let cancelled = cancelled.clone();
            let results = results.clone();
            let oh = op_handles.clone();
            let jh = tokio::spawn(async move {
                call(&log, id, "echo", "");
                let fut = echo_op(session, prepared, id);
                let rec = match plan {
                    None => {
                        let out = fut.await;
                        ret(&log, id, matches!(out, EchoOutcome::Ok(_)), format!("{out:?}"));
                        OpRec { id, cancelled: false, outcome: Some(out) }
                    }
                    Some(d) => match tokio::time::timeout(d, fut).await {
                        Ok(out) => {
                            ret(&log, id, matches!(out, EchoOutcome::Ok(_)), format!("{out:?}"));
                            OpRec { id, cancelled: false, outcome: Some(out) }
                        }
                        Err(_) => {
                            // the request future has been dropped: the caller abandoned it
                            cancelled.lock().unwrap().insert(id);
                            ret(&log, id, false, "cancelled");
                            OpRec { id, cancelled: true, outcome: None }
                        }
                    },
                };
                results.lock().unwrap().insert(id, rec);
            });
            oh.lock().unwrap().insert(id, jh.abort_handle());
            handles.push(jh);
        }
    };

    spawn_ops(cfg.n1, &mut rng, &mut handles);
    let target = cfg.n1.min(32768);
    {
        let echo = echo.clone();
        let cancelled = cancelled.clone();
        let t = std::time::Instant::now();
        let (e2, c2) = (echo.clone(), cancelled.clone());
        // (arrived at the node, or already back at the caller: abandoned, or failed at once)
        let res = results.clone();
        settle(&log, Duration::from_millis(60), Duration::from_secs(20), move || echo.held_count() + cancelled.lock().unwrap().len().max(res.lock().unwrap().len()) >= target).await;
        if std::env::var("C02_DEBUG").is_ok() && t.elapsed() > Duration::from_secs(5) {
            eprintln!("      phase1 slow: held {} cancelled {} target {} results {}", e2.held_count(), c2.lock().unwrap().len(), target, results.lock().unwrap().len());
        }
    }
    let mut held = echo.take_held();
    // Framing-desync probe (some histories): the answer to X carries, appended to its payload, a complete
    // well-formed response frame addressed to the stream of another waiting request Z, and is written in
    // two TCP segments split right before that embedded frame, while callers of other requests are
    // cancelled in between. A reader that loses its place in the byte stream hands Z the embedded frame.
    if cfg.desync_probe {
        let c = cancelled.lock().unwrap().clone();
        let live: Vec<usize> = (0..held.len()).filter(|i| !c.contains(&held[*i].0)).collect();
        if live.len() >= 4 {
            let (xi, zi) = (live[0], live[1]);
            let (x_id, z_stream) = (held[xi].0, held[zi].1.stream);
            let x_stream = held[xi].1.stream;
            let conn = held[xi].1.conn.clone();
            let comp = conn.compression();
            // embedded frame: an echo answer for a bogus id on Z's stream
            let bogus = 0xDEAD_0000_0000u64 | (x_id & 0xffff);
            let embedded = crate::wire::frame::response_frame(z_stream, 0x08, &Default::default(), &echo_response(bogus).encode_body(), comp);
            let mut payload = echo_payload(x_id);
            payload.extend_from_slice(&embedded);
            let body = crate::wire::response::Response::Result(crate::wire::response::ResultBody::Rows {
                metadata: crate::wire::response::ResultMetadata { columns: echo_cols(), paging_state: None, no_metadata: false, global_spec: true, new_metadata_id: None },
                rows: vec![vec![Some((x_id as i64).to_be_bytes().to_vec()), Some(payload)]],
            })
            .encode_body();
            // only meaningful uncompressed (a compressed body hides the embedded frame)
            if comp.is_none() {
                let frame = crate::wire::frame::response_frame(x_stream, 0x08, &Default::default(), &body, None);
                let cut = frame.len() - embedded.len();
                conn.outstanding.lock().unwrap().remove(&x_stream);
                log.push(crate::mock::log::Ev::Send { node: 0, conn: conn.id, stream: x_stream, opcode: 0x08, bytes: frame.len(), written: frame.len(), tag: Some(x_id) });
                // (written by the connection's writer task in one go: a keep-alive answer must not land between the halves)
                conn.send_raw_split(frame[..cut].to_vec(), 6, frame[cut..].to_vec());
                tokio::time::sleep(Duration::from_millis(2)).await;
                // abandon some other in-flight requests right now, between the two segments
                for i in live.iter().skip(2).take(6) {
                    if let Some(h) = op_handles.lock().unwrap().get(&held[*i].0) {
                        h.abort();
                    }
                }
                tokio::time::sleep(Duration::from_millis(8)).await;
                // X has been answered by hand
                held.remove(xi);
                log.push(crate::mock::log::Ev::Note("desync-probe-sent".into()));
            }
        }
    }
    // Large response (some histories): one waiting request is answered with a frame of more than 5 MiB whose
    // blob payload consists of well-formed response frames addressed to the streams of other waiting requests.
    // Whatever the reader does with a body of that size, nobody else may be handed any of it.
    if cfg.seed % 8 == 5 && cfg.n1 <= 300 {
        let c = cancelled.lock().unwrap().clone();
        let live: Vec<usize> = (0..held.len()).filter(|i| !c.contains(&held[*i].0)).collect();
        if live.len() >= 3 {
            let xi = live[0];
            let x_id = held[xi].0;
            let comp = held[xi].1.conn.compression();
            let mut payload = echo_payload(x_id);
            let others: Vec<i16> = live.iter().skip(1).take(8).map(|i| held[*i].1.stream).collect();
            let mut k = 0usize;
            while payload.len() < (5 << 20) + 4096 {
                let z = others[k % others.len()];
                let bogus = 0xB16_0000_0000u64 | (k as u64 & 0xffff);
                payload.extend_from_slice(&crate::wire::frame::response_frame(z, 0x08, &Default::default(), &echo_response(bogus).encode_body(), comp));
                // vary the alignment of the embedded frames
                payload.extend(std::iter::repeat(0u8).take(k % 9));
                k += 1;
            }
            let resp = crate::wire::response::Response::Result(crate::wire::response::ResultBody::Rows {
                metadata: crate::wire::response::ResultMetadata { columns: echo_cols(), paging_state: None, no_metadata: false, global_spec: true, new_metadata_id: None },
                rows: vec![vec![Some((x_id as i64).to_be_bytes().to_vec()), Some(payload)]],
            });
            let (_, rq) = held.remove(xi);
            rq.reply_env_tag(&Default::default(), &resp, Some(x_id));
            log.push(crate::mock::log::Ev::Note("large-response-sent".into()));
            tokio::time::sleep(Duration::from_millis(5)).await;
        }
    }
    // withhold: prefer requests whose caller is already gone
    let mut withheld = Vec::new();
    let mut now = Vec::new();
    {
        let c = cancelled.lock().unwrap();
        for (id, rq) in held.drain(..) {
            let p = if c.contains(&id) { (cfg.withhold_pm * 3).min(1000) } else { cfg.withhold_pm };
            if rng.chance(p, 1000) && withheld.len() < 900 {
                withheld.push((id, rq));
            } else {
                now.push((id, rq));
            }
        }
    }
    answer_all(now, cfg.order, &mut rng).await;
    // phase 2: new requests while abandoned/withheld streams are still owed an answer
    spawn_ops(cfg.n2, &mut rng, &mut handles);
    {
        let echo = echo.clone();
        let n2 = cfg.n2;
        let cancelled = cancelled.clone();
        let base = cancelled.lock().unwrap().len();
        let t = std::time::Instant::now();
        let (e2, c2) = (echo.clone(), cancelled.clone());
        let res = results.clone();
        let rbase = res.lock().unwrap().len();
        settle(&log, Duration::from_millis(60), Duration::from_secs(20), move || echo.held_count() + cancelled.lock().unwrap().len().saturating_sub(base).max(res.lock().unwrap().len().saturating_sub(rbase)) >= n2).await;
        if std::env::var("C02_DEBUG").is_ok() && t.elapsed() > Duration::from_secs(5) {
            eprintln!("      phase2 slow: held {} cancelled {} base {} n2 {} results {}", e2.held_count(), c2.lock().unwrap().len(), base, n2, results.lock().unwrap().len());
        }
    }
    let second = echo.take_held();
    answer_all(second, Order::Random, &mut rng).await;
    echo.set_mode(EchoMode::Immediate);
    answer_all(withheld, Order::Random, &mut rng).await;
    // stragglers that arrived after the last take
    let late = echo.take_held();
    answer_all(late, Order::Fifo, &mut rng).await;

    // every caller must come back (the node has answered everything it received)
    let mut hung = 0;
    for h in handles {
        match tokio::time::timeout(Duration::from_secs(40), h).await {
            Ok(_) => {}
            Err(_) => hung += 1,
        }
    }
    let mut ops: Vec<OpRec> = results.lock().unwrap().values().cloned().collect();
    ops.sort_by_key(|o| o.id);
    drop(session);
    cluster.shutdown();
    HistOut { ops, hung, log, build_error: None }
}

async fn answer_all(mut v: Vec<(u64, Rq)>, order: Order, rng: &mut Rng) {
    match order {
        Order::Fifo => {}
        Order::Reverse => v.reverse(),
        Order::Random | Order::TwoBatches => rng_shuffle(&mut v, rng),
    }
    let half = v.len() / 2;
    for (i, (id, rq)) in v.iter().enumerate() {
        if order == Order::TwoBatches && i == half {
            tokio::time::sleep(Duration::from_millis(3)).await;
        }
        Echo::answer(*id, rq);
    }
}

fn rng_shuffle<T>(v: &mut [T], rng: &mut Rng) {
    rng.shuffle(v);
}

fn judge(o: &mut Outcome, cfg: &HistCfg, h: &HistOut) {
    let replay = json!({"cfg": format!("{cfg:?}"), "seed": cfg.seed, "n1": cfg.n1, "n2": cfg.n2, "order": format!("{:?}", cfg.order),
        "cancel_pm": cfg.cancel_pm, "withhold_pm": cfg.withhold_pm, "coalesce": cfg.coalesce, "compression": cfg.compression, "keepalive": cfg.keepalive, "desync_probe": cfg.desync_probe, "prepared": cfg.prepared, "log_tail": h.log.tail_text(60)});
    if let Some(e) = &h.build_error {
        o.inconclusive(format!("history could not start: {e}"));
        return;
    }
    let evs = h.log.snapshot();
    // index: Send per tag, Recv per id, ClientReturn per op
    let mut send_seq: HashMap<u64, u64> = HashMap::new();
    let mut ret_seq: HashMap<u64, u64> = HashMap::new();
    let mut recv_ids: HashSet<u64> = HashSet::new();
    let mut recv_seq: HashMap<u64, u64> = HashMap::new();
    for l in &evs {
        match &l.ev {
            Ev::Send { tag: Some(t), written, bytes, .. } if written == bytes => {
                send_seq.entry(*t).or_insert(l.seq);
            }
            Ev::ClientReturn { op, .. } => {
                ret_seq.insert(*op, l.seq);
            }
            Ev::Recv { request, .. } => {
                let id = match &**request {
                    crate::wire::request::Request::Query { query, .. } => query.strip_prefix(ECHO_QUERY_PREFIX).and_then(|s| s.trim().parse::<u64>().ok()),
                    crate::wire::request::Request::Execute { params, .. } => params.values.as_ref().and_then(|v| v.first()).and_then(|v| match v {
                        crate::wire::prim::Value::Bytes(b) if b.len() == 8 => Some(u64::from_be_bytes(b.as_slice().try_into().unwrap())),
                        _ => None,
                    }),
                    _ => None,
                };
                if let Some(id) = id {
                    recv_ids.insert(id);
                    recv_seq.entry(id).or_insert(l.seq);
                }
            }
            _ => {}
        }
    }
    // (b) server-side monitor
    for v in h.log.violations() {
        o.node_violation("c02", &v, replay.clone());
    }
    let mut ok = 0u64;
    let mut errs = 0u64;
    for op in &h.ops {
        let key = fw::hash64(format!("{}:{}:{}", cfg.seed, op.id, op.cancelled).as_bytes());
        o.case(key, true);
        match &op.outcome {
            Some(EchoOutcome::Ok(x)) => {
                ok += 1;
                if *x != op.id {
                    o.violation("e2e:response-misdelivered", format!("request {} completed successfully with the response written for request {x}", op.id), replay.clone());
                }
                // (c) it was really sent, and before the caller saw it
                match (send_seq.get(&op.id), ret_seq.get(&op.id)) {
                    (Some(s), Some(r)) if s < r => {}
                    _ => o.violation("e2e:response-not-sent-yet-delivered", format!("request {} returned a result the node never (or only later) sent", op.id), replay.clone()),
                }
            }
            Some(EchoOutcome::Garbled(g)) => {
                o.violation("e2e:response-garbled", format!("request {} got a response that is not the intact echo row: {g}", op.id), replay.clone());
            }
            Some(EchoOutcome::Err(_)) => errs += 1,
            None => {
                // cancellation stage, from the log only
                let stage = match (recv_ids.contains(&op.id), send_seq.get(&op.id), ret_seq.get(&op.id)) {
                    (false, _, _) => "cancel:before-write",
                    (true, Some(s), Some(r)) if s < r => "cancel:after-response-sent",
                    (true, _, _) => "cancel:after-write-before-response",
                };
                o.class(stage);
            }
        }
    }
    if h.hung > 0 {
        // all responses were written and the log is quiet: callers that still wait, wait on nothing
        o.violation("e2e:caller-never-returned", format!("{} callers did not return within 40 s after every request the node received had been answered", h.hung), replay.clone());
    }
    o.class(&format!("order:{:?}", cfg.order));
    o.class(&format!("coalescing:{}", cfg.coalesce));
    o.class(if cfg.prepared { "stmt:prepared" } else { "stmt:unprepared" });
    o.class(&format!("compression:{}", ["none", "lz4", "snappy"][cfg.compression as usize]));
    if cfg.keepalive {
        o.class("keepalive-frames-interleaved");
    }
    if evs.iter().any(|l| matches!(&l.ev, Ev::Note(n) if n == "large-response-sent")) {
        o.class("large-response:over-5-MiB-full-of-frames-for-other-streams");
    }
    if evs.iter().any(|l| matches!(&l.ev, Ev::Note(n) if n == "desync-probe-sent")) {
        o.class("desync-probe:embedded-frame-split-write-with-cancellations");
    }
    o.note_add("ok_results", ok);
    o.note_add("error_results", errs);
    o.note_add("requests_seen_by_node", recv_ids.len() as u64);
    o.note_add("histories", 1);
    if cfg.n1 > 32768 {
        o.class("exhaustion:more-requests-than-stream-ids");
    }
    if o.want_sample() {
        o.sample(json!({"history": format!("{cfg:?}"), "ops": h.ops.len(), "ok": ok, "errors": errs,
            "cancelled": h.ops.iter().filter(|x| x.cancelled).count(), "node_saw": recv_ids.len()}));
    }
}

fn gen_cfg(rng: &mut Rng, seed: u64, big: bool) -> HistCfg {
    let n1 = if big {
        *rng.pick(&[300usize, 2000, 5000])
    } else {
        match rng.below(4) {
            0 => rng.usize(2, 8),
            1 => rng.usize(8, 60),
            _ => rng.usize(20, 200),
        }
    };
    HistCfg {
        n1,
        n2: rng.usize(1, n1.max(2)),
        order: *rng.pick(&[Order::Fifo, Order::Reverse, Order::Random, Order::TwoBatches]),
        cancel_pm: *rng.pick(&[0u64, 100, 300, 600]),
        withhold_pm: *rng.pick(&[0u64, 100, 300]),
        coalesce: rng.below(3) as u8,
        prepared: rng.bool(),
        seed,
        compression: *rng.pick(&[0u8, 0, 1, 2]),
        keepalive: rng.chance(1, 3),
        desync_probe: rng.chance(1, 3),
    }
}

pub fn run_b(ctx: &Ctx) -> Outcome {
    let mut out = Outcome::new();
    let rt = runtime(ctx.workers.min(8));
    if let Some(p) = &ctx.replay {
        let v: serde_json::Value = serde_json::from_str(&std::fs::read_to_string(p).expect("replay")).expect("json");
        let r = &v["replay"];
        let cfg = HistCfg {
            n1: r["n1"].as_u64().unwrap_or(10) as usize,
            n2: r["n2"].as_u64().unwrap_or(10) as usize,
            order: match r["order"].as_str().unwrap_or("Random") {
                "Fifo" => Order::Fifo,
                "Reverse" => Order::Reverse,
                "TwoBatches" => Order::TwoBatches,
                _ => Order::Random,
            },
            cancel_pm: r["cancel_pm"].as_u64().unwrap_or(0),
            withhold_pm: r["withhold_pm"].as_u64().unwrap_or(0),
            coalesce: r["coalesce"].as_u64().unwrap_or(1) as u8,
            prepared: r["prepared"].as_bool().unwrap_or(false),
            seed: r["seed"].as_u64().unwrap_or(1),
            compression: r["compression"].as_u64().unwrap_or(0) as u8,
            keepalive: r["keepalive"].as_bool().unwrap_or(false),
            desync_probe: r["desync_probe"].as_bool().unwrap_or(false),
        };
        // schedule-dependent: re-run the scripted history several times
        for _ in 0..10 {
            let h = rt.block_on(run_history(&cfg));
            judge(&mut out, &cfg, &h);
        }
        return out;
    }
    let n_hist = ctx.vol(600, 12000);
    let mut rng = ctx.rng(202);
    // Perturbation at the router's existing suspension points (hook H3): slows the writer so the
    // submit queue backs up (cancel-before-write becomes reachable) and delays the reader so
    // orphan notices race with responses. Seeded; a no-op for verdicts.
    {
        let state = std::sync::atomic::AtomicU64::new(ctx.seed | 1);
        scylla::verif_hooks::set_async_pause(Some(Arc::new(move |site: &'static str| {
            let mut x = state.fetch_add(0x9e3779b97f4a7c15, std::sync::atomic::Ordering::Relaxed);
            x ^= x >> 31;
            x = x.wrapping_mul(0xbf58476d1ce4e5b9);
            x ^= x >> 29;
            match (site, x % 16) {
                ("conn.writer.before_write", 0) => Some(Duration::from_micros(100 + (x >> 8) % 900)),
                ("conn.writer.before_write", 1) => Some(Duration::ZERO),
                ("conn.reader.after_frame", 0) => Some(Duration::from_micros(50 + (x >> 8) % 300)),
                ("conn.reader.after_frame", 1 | 2) => Some(Duration::ZERO),
                _ => None,
            }
        })));
    }
    let conc = 4usize;
    let mut i = 0u64;
    while i < n_hist {
        let mut cfgs = Vec::new();
        for _ in 0..conc {
            if i >= n_hist {
                break;
            }
            let big = i % 20 == 7;
            cfgs.push(gen_cfg(&mut rng, ctx.seed.wrapping_mul(1_000_003).wrapping_add(i), big));
            i += 1;
        }
        let hs: Vec<(HistCfg, HistOut)> = rt.block_on(async {
            let mut js = Vec::new();
            for c in cfgs {
                js.push(tokio::spawn(async move {
                    let t = std::time::Instant::now();
                    let h = run_history(&c).await;
                    if std::env::var("C02_DEBUG").is_ok() {
                        eprintln!("{:>7} ms n1={} n2={} cancel={} withhold={} comp={} ka={} desync={} order={:?}", t.elapsed().as_millis(), c.n1, c.n2, c.cancel_pm, c.withhold_pm, c.compression, c.keepalive, c.desync_probe, c.order);
                    }
                    (c, h)
                }));
            }
            let mut v = Vec::new();
            for j in js {
                if let Ok(x) = j.await {
                    v.push(x);
                }
            }
            v
        });
        for (c, h) in &hs {
            judge(&mut out, c, h);
        }
    }
    // exhaustion histories: more concurrent requests than stream ids, all answers withheld
    let n_exh = if ctx.quick() { 1 } else { 3 };
    for k in 0..n_exh {
        let cfg = HistCfg { n1: 32768 + 300, n2: 50, order: Order::Random, cancel_pm: 0, withhold_pm: 0, coalesce: (k % 3) as u8, prepared: k % 2 == 1, seed: ctx.seed ^ (0xe0 + k), compression: (k % 3) as u8, keepalive: false, desync_probe: false };
        let h = rt.block_on(run_history(&cfg));
        judge(&mut out, &cfg, &h);
    }
    scylla::verif_hooks::set_async_pause(None);
    for c in [
        "cancel:before-write",
        "cancel:after-write-before-response",
        "cancel:after-response-sent",
        "order:Reverse",
        "order:Random",
        "exhaustion:more-requests-than-stream-ids",
        "desync-probe:embedded-frame-split-write-with-cancellations",
        "large-response:over-5-MiB-full-of-frames-for-other-streams",
    ] {
        out.require_class(c);
    }
    out
}
