use crate::fw::{Ctx, Outcome};

pub mod c11;
pub mod smoke;

pub fn dispatch(ctx: &Ctx) -> Option<Outcome> {
    Some(match ctx.prop.as_str() {
        "C11" => c11::run(ctx),
        "smoke" => smoke::run(ctx),
        "wire-selftest" => {
            let mut o = Outcome::new();
            match crate::wire::self_test() {
                Ok(()) => o.case(1, true),
                Err(e) => o.violation("wire-selftest", e, serde_json::json!({})),
            }
            o
        }
        _ => return None,
    })
}

/// Entry for `verif-harness child <name> ...` (crash-isolated sub-work).
pub fn child_main(args: &[String]) -> i32 {
    match args.first().map(|s| s.as_str()) {
        _ => {
            eprintln!("unknown child {:?}", args.first());
            2
        }
    }
}
