use crate::fw::{Ctx, Outcome};

pub mod c01;
pub mod c02;
pub mod c02_e2e;
pub mod c03;
pub mod c04;
pub mod c05;
pub mod c06;
pub mod c07;
pub mod c08;
pub mod c09;
pub mod c10;
pub mod c11;
pub mod c12;
pub mod c13;
pub mod c14;
pub mod c15;
pub mod c16;
pub mod c17;
pub mod c18;
pub mod c19;
pub mod c19_handoff;
pub mod c20;
pub mod e2e;
pub mod retry_e2e;
pub mod session_e2e;
pub mod smoke;
pub mod topo_e2e;

pub fn dispatch(ctx: &Ctx) -> Option<Outcome> {
    Some(match ctx.prop.as_str() {
        "C01" => c01::run(ctx),
        "C02" => match ctx.part.as_deref() {
            Some("b") => c02_e2e::run_b(ctx),
            _ => c02::run(ctx),
        },
        "C03" => c03::run(ctx),
        "C04" => match ctx.part.as_deref() {
            Some("b") => topo_e2e::run_c04_b(ctx),
            _ => c04::run(ctx),
        },
        "C05" => c05::run(ctx),
        "C06" => c06::run(ctx),
        "C07" => c07::run(ctx),
        "C08" => c08::run(ctx),
        "C09" => c09::run(ctx),
        "C10" => c10::run(ctx),
        "C11" => match ctx.part.as_deref() {
            Some("b") => topo_e2e::run_c11_b(ctx),
            _ => c11::run(ctx),
        },
        "C12" => c12::run(ctx),
        "C13" => c13::run(ctx),
        "C14" => c14::run(ctx),
        "C15" => c15::run(ctx),
        "C16" => c16::run(ctx),
        "C17" => c17::run(ctx),
        "C18" => c18::run(ctx),
        "C19" => c19::run(ctx),
        "C20" => c20::run(ctx),
        "smoke" => smoke::run(ctx),
        "wire-selftest" => {
            let mut o = Outcome::new();
            match crate::wire::self_test() {
                Ok(()) => o.case(1, true),
                Err(e) => o.violation("wire-selftest", e, serde_json::json!({})),
            }
            o
        }
        _ => return None,
    })
}

/// Entry for `verif-harness child <name> ...` (crash-isolated sub-work).
pub fn child_main(args: &[String]) -> i32 {
    match args.first().map(|s| s.as_str()) {
        Some("c08") => crate::checks::c08::child(&args[1..]),
        Some("c09-big") => crate::checks::c09::child_big(&args[1..]),
        _ => {
            eprintln!("unknown child {:?}", args.first());
            2
        }
    }
}
