//! Development smoke test of the mock cluster against a real Session (not a registered check).
use crate::fw::{Ctx, Outcome};
use crate::mock::*;
use scylla::client::session_builder::SessionBuilder;
use std::sync::Arc;
use std::time::Duration;

pub fn run(_ctx: &Ctx) -> Outcome {
    let mut o = Outcome::new();
    let rt = tokio::runtime::Builder::new_multi_thread().worker_threads(4).enable_all().build().unwrap();
    rt.block_on(async {
        let spec = ClusterSpec {
            nodes: vec![
                NodeSpec { dc: Some("dc1".into()), rack: Some("r1".into()), tokens: vec![-100, 500], sharding: Some(ShardSpec { nr_shards: 4, msb_ignore: 12, shard_aware_port: true }), features: Features { metadata_id: true, tablets: true, lwt_mark: Some(0x80000000), rate_limit_code: None, ..Default::default() } },
                NodeSpec::simple("dc1", "r2", vec![0, 1000]),
                NodeSpec::simple("dc2", "r1", vec![200]),
            ],
            keyspaces: vec![KeyspaceDef::simple("ks", 2).with_table(TableDef::new("t", &[("pk", "int")], &[("v", "text")]))],
            cluster_name: "smoke".into(),
        };
        let cluster = MockCluster::start(spec, Arc::new(DefaultHandler)).await;
        let t0 = std::time::Instant::now();
        let session = tokio::time::timeout(Duration::from_secs(20), SessionBuilder::new().known_node_addr(cluster.contact_point()).build()).await;
        match session {
            Err(_) => o.inconclusive("session build timed out"),
            Ok(Err(e)) => o.violation("smoke:build", format!("{e}"), serde_json::json!({})),
            Ok(Ok(s)) => {
                o.note("build_ms", serde_json::json!(t0.elapsed().as_millis() as u64));
                let st = s.get_cluster_state();
                o.note("nodes", serde_json::json!(st.get_nodes_info().len()));
                o.note("ks", serde_json::json!(st.keyspaces_iter().map(|(k, _)| k.to_string()).collect::<Vec<_>>()));
                let r = s.query_unpaged("INSERT INTO ks.t (pk, v) VALUES (1, 'a')", ()).await;
                o.note("query", serde_json::json!(format!("{:?}", r.is_ok())));
                let p = s.prepare("SELECT v FROM ks.t WHERE pk = 1").await;
                o.note("prepare", serde_json::json!(format!("{:?}", p.as_ref().map(|_| ()))));
                if let Ok(p) = p {
                    let r = s.execute_unpaged(&p, ()).await;
                    o.note("execute", serde_json::json!(format!("{:?}", r.is_ok())));
                }
                let r = s.use_keyspace("ks", false).await;
                o.note("use", serde_json::json!(format!("{r:?}")));
                tokio::time::sleep(Duration::from_millis(300)).await;
                for n in cluster.nodes() {
                    o.note(&format!("conns_node{}", n.idx), serde_json::json!(cluster.established(n.idx).iter().map(|c| format!("{:?}/{}", c.shard, c.via_shard_aware_port)).collect::<Vec<_>>()));
                }
                o.case(1, true);
            }
        }
        o.note("violations", serde_json::json!(cluster.log().violations()));
        o.note("log_len", serde_json::json!(cluster.log().len()));
        cluster.shutdown();
    });
    o
}
