//! C09 — request frames on the wire say exactly what the caller asked for (workload A).
//!
//! Requests are described by a small, serialisable `Case` (run-length encoded so that the
//! 16/32-bit boundary cases stay small in a replay file). Each case is
//!   * built with the driver's public request structs and framed with
//!     `SerializedRequest::make` + `set_stream` + `get_data`,
//!   * encoded independently from the protocol specification with `wire::Writer` (the model
//!     also decides whether the request is representable at all: counts <= 65535, [short bytes]
//!     <= 65535 bytes, [long string] <= i32::MAX bytes, one value list per batch statement),
//!   * read back with `wire::FrameHeader::parse`, `wire::frame::decompress` and
//!     `wire::request::parse_request` and compared field by field, then byte for byte.
//! Workload B (session level through a mock cluster) is built by the coordinator: `--part b`
//! is a stub here.

use crate::fw::{self, Ctx, Outcome, Rng};
use crate::wire::frame as wf;
use crate::wire::prim::{Value as WV, Writer};
use crate::wire::request as wr;
use serde::{Deserialize, Serialize};
use serde_json::{Value as J, json};
use std::borrow::Cow;
use std::collections::{BTreeMap, HashMap};

use scylla_cql::frame::request::SerializableRequest;
use scylla_cql::frame::request::auth_response::AuthResponse;
use scylla_cql::frame::request::batch::{Batch, BatchStatement, BatchType};
use scylla_cql::frame::request::execute::ExecuteV2;
use scylla_cql::frame::request::options::Options;
use scylla_cql::frame::request::prepare::Prepare;
use scylla_cql::frame::request::query::{PagingState, Query, QueryParameters};
use scylla_cql::frame::request::register::{Register, RegisterV2};
use scylla_cql::frame::request::startup::Startup;
use scylla_cql::frame::response::result::cow_bytes::CowBytes;
use scylla_cql::frame::response::result::{ColumnSpec, ColumnType, NativeType, TableSpec};
use scylla_cql::frame::server_event_type::{EventType, EventTypeV2};
use scylla_cql::frame::types::{Consistency, SerialConsistency};
use scylla_cql::frame::{Compression, SerializedRequest};
use scylla_cql::serialize::raw_batch::{RawBatchValues, RawBatchValuesAdapter, RawBatchValuesIterator};
use scylla_cql::serialize::row::{RowSerializationContext, SerializedValues};
use scylla_cql::value::MaybeUnset;
use scylla_cql::serialize::{RowWriter, SerializationError};

// ---------------------------------------------------------------------------------------------
// Case description
// ---------------------------------------------------------------------------------------------

mod hexser {
    use serde::{Deserialize, Deserializer, Serializer};
    pub fn serialize<S: Serializer>(b: &Vec<u8>, s: S) -> Result<S::Ok, S::Error> {
        s.serialize_str(&crate::fw::hex(b))
    }
    pub fn deserialize<'de, D: Deserializer<'de>>(d: D) -> Result<Vec<u8>, D::Error> {
        let s = String::deserialize(d)?;
        Ok(crate::fw::unhex(&s))
    }
}

/// `unit` repeated `n` times.
#[derive(Serialize, Deserialize, Clone, Debug)]
pub struct Text {
    unit: String,
    n: usize,
}

impl Text {
    fn lit(s: &str) -> Text {
        Text { unit: s.to_owned(), n: 1 }
    }
    fn rep(s: &str, n: usize) -> Text {
        Text { unit: s.to_owned(), n }
    }
    fn len(&self) -> usize {
        self.unit.len() * self.n
    }
    fn get(&self) -> String {
        if self.n == 1 { self.unit.clone() } else { self.unit.repeat(self.n) }
    }
    fn multibyte(&self) -> bool {
        self.n > 0 && !self.unit.is_ascii()
    }
}

/// `unit` repeated `n` times.
#[derive(Serialize, Deserialize, Clone, Debug)]
pub struct Blob {
    #[serde(with = "hexser")]
    unit: Vec<u8>,
    n: usize,
}

impl Blob {
    fn lit(b: Vec<u8>) -> Blob {
        Blob { unit: b, n: 1 }
    }
    fn fill(byte: u8, n: usize) -> Blob {
        Blob { unit: vec![byte], n }
    }
    fn len(&self) -> usize {
        self.unit.len() * self.n
    }
    fn get(&self) -> Vec<u8> {
        if self.n == 1 { self.unit.clone() } else { self.unit.repeat(self.n) }
    }
}

#[derive(Serialize, Deserialize, Clone, Debug)]
pub enum Val {
    Null,
    Unset,
    B(Blob),
}

/// `n` copies of the same bound value.
#[derive(Serialize, Deserialize, Clone, Debug)]
pub struct ValRun {
    v: Val,
    n: usize,
}

fn vals_count(v: &[ValRun]) -> usize {
    v.iter().map(|r| r.n).sum()
}

fn expand_vals(v: &[ValRun]) -> Vec<WV> {
    let mut out = Vec::with_capacity(vals_count(v));
    for r in v {
        let w = match &r.v {
            Val::Null => WV::Null,
            Val::Unset => WV::NotSet,
            Val::B(b) => WV::Bytes(b.get()),
        };
        for _ in 0..r.n {
            out.push(w.clone());
        }
    }
    out
}

#[derive(Serialize, Deserialize, Clone, Debug)]
pub struct Params {
    /// index into `CONSISTENCIES`
    cl: u8,
    /// index into `SERIALS`
    serial: Option<u8>,
    ts: Option<i64>,
    page_size: Option<i32>,
    paging: Option<Blob>,
    skip_meta: bool,
    values: Vec<ValRun>,
    /// true: values built with `SerializedValues::add_value` (typed blob values),
    /// false: with `SerializedValues::from_closure` + `RowWriter` cells
    via_add: bool,
}

#[derive(Serialize, Deserialize, Clone, Debug)]
pub enum StmtD {
    Q(Text),
    P(Blob),
}

/// `n` copies of the same batch statement with the same bound values.
#[derive(Serialize, Deserialize, Clone, Debug)]
pub struct StmtRun {
    stmt: StmtD,
    values: Vec<ValRun>,
    n: usize,
}

#[derive(Serialize, Deserialize, Clone, Debug)]
pub struct BatchD {
    /// 0 logged, 1 unlogged, 2 counter
    btype: u8,
    stmts: Vec<StmtRun>,
    /// < 0: that many value lists are missing at the end; > 0: that many extra value lists
    lists_delta: i32,
    cl: u8,
    serial: Option<u8>,
    ts: Option<i64>,
    /// 0: own `RawBatchValues` writing cells through `RowWriter`; 1: `Vec<SerializedValues>`;
    /// 2: `RawBatchValuesAdapter` over `Vec<Vec<MaybeUnset<Option<Vec<u8>>>>>` with blob contexts
    provider: u8,
}

#[derive(Serialize, Deserialize, Clone, Debug)]
pub enum Case {
    Query { text: Text, params: Params },
    Execute { id: Blob, meta_id: Option<Blob>, params: Params, deprecated: bool },
    Batch(BatchD),
    Prepare { text: Text },
    /// explicit options plus `filler` generated entries "k<i>" -> "v<i>"
    Startup { options: Vec<(Text, Text)>, filler: usize },
    /// event codes (0 topology, 1 status, 2 schema, 3 client routes (V2 only)), whole list repeated
    Register { events: Vec<u8>, repeat: usize, v2: bool },
    Options,
    AuthResponse { token: Option<Blob> },
}

#[derive(Serialize, Deserialize, Clone, Copy, Debug, PartialEq, Eq)]
pub enum Comp {
    Lz4,
    Snappy,
}

impl Comp {
    fn driver(self) -> Compression {
        match self {
            Comp::Lz4 => Compression::Lz4,
            Comp::Snappy => Compression::Snappy,
        }
    }
    fn wire(self) -> wf::Compression {
        match self {
            Comp::Lz4 => wf::Compression::Lz4,
            Comp::Snappy => wf::Compression::Snappy,
        }
    }
    fn name(self) -> &'static str {
        match self {
            Comp::Lz4 => "lz4",
            Comp::Snappy => "snappy",
        }
    }
}

// Consistency codes from the protocol specification (section 3, [consistency]).
const CONSISTENCIES: [(Consistency, u16); 11] = [
    (Consistency::Any, 0),
    (Consistency::One, 1),
    (Consistency::Two, 2),
    (Consistency::Three, 3),
    (Consistency::Quorum, 4),
    (Consistency::All, 5),
    (Consistency::LocalQuorum, 6),
    (Consistency::EachQuorum, 7),
    (Consistency::Serial, 8),
    (Consistency::LocalSerial, 9),
    (Consistency::LocalOne, 10),
];
const SERIALS: [(SerialConsistency, u16); 2] = [(SerialConsistency::Serial, 8), (SerialConsistency::LocalSerial, 9)];
const EVENT_NAMES: [&str; 4] = ["TOPOLOGY_CHANGE", "STATUS_CHANGE", "SCHEMA_CHANGE", "CLIENT_ROUTES_CHANGE"];

const OP_STARTUP: u8 = 0x01;
const OP_OPTIONS: u8 = 0x05;
const OP_QUERY: u8 = 0x07;
const OP_PREPARE: u8 = 0x09;
const OP_EXECUTE: u8 = 0x0A;
const OP_REGISTER: u8 = 0x0B;
const OP_BATCH: u8 = 0x0D;
const OP_AUTH_RESPONSE: u8 = 0x0F;

const MAX_SHORT: usize = 65535;
const MAX_INT: usize = i32::MAX as usize;

impl Case {
    fn kind(&self) -> &'static str {
        match self {
            Case::Query { .. } => "query",
            Case::Execute { deprecated: true, .. } => "execute-deprecated",
            Case::Execute { .. } => "execute",
            Case::Batch(_) => "batch",
            Case::Prepare { .. } => "prepare",
            Case::Startup { .. } => "startup",
            Case::Register { .. } => "register",
            Case::Options => "options",
            Case::AuthResponse { .. } => "auth_response",
        }
    }
}

// ---------------------------------------------------------------------------------------------
// The model: what the specification says the body must be (or that no frame can say it)
// ---------------------------------------------------------------------------------------------

pub struct Model {
    opcode: u8,
    body: Vec<u8>,
    req: wr::Request,
    ext: wr::Extensions,
    /// STARTUP: the order of map entries is not determined by the request
    unordered: bool,
}

fn w_values(w: &mut Writer, vals: &[WV]) {
    w.short(vals.len() as u16);
    for v in vals {
        v.write(w);
    }
}

fn model_params(w: &mut Writer, p: &Params) -> Result<wr::QueryParams, &'static str> {
    let n = vals_count(&p.values);
    if n > MAX_SHORT {
        return Err("values>65535");
    }
    if let Some(ps) = &p.paging {
        if ps.len() > MAX_INT {
            return Err("paging-state>2GiB");
        }
    }
    let vals = expand_vals(&p.values);
    let mut flags = 0u8;
    if !vals.is_empty() {
        flags |= wr::QF_VALUES;
    }
    if p.skip_meta {
        flags |= wr::QF_SKIP_METADATA;
    }
    if p.page_size.is_some() {
        flags |= wr::QF_PAGE_SIZE;
    }
    if p.paging.is_some() {
        flags |= wr::QF_PAGING_STATE;
    }
    if p.serial.is_some() {
        flags |= wr::QF_SERIAL;
    }
    if p.ts.is_some() {
        flags |= wr::QF_TIMESTAMP;
    }
    let cl = CONSISTENCIES[p.cl as usize].1;
    w.short(cl);
    w.byte(flags);
    if !vals.is_empty() {
        w_values(w, &vals);
    }
    if let Some(ps) = p.page_size {
        w.int(ps);
    }
    let paging = p.paging.as_ref().map(|b| b.get());
    if let Some(b) = &paging {
        w.bytes(b);
    }
    let serial = p.serial.map(|s| SERIALS[s as usize].1);
    if let Some(s) = serial {
        w.short(s);
    }
    if let Some(t) = p.ts {
        w.long(t);
    }
    Ok(wr::QueryParams {
        consistency: cl,
        flags,
        values: if vals.is_empty() { None } else { Some(vals) },
        names: None,
        skip_metadata: p.skip_meta,
        page_size: p.page_size,
        paging_state: paging,
        serial_consistency: serial,
        timestamp: p.ts,
    })
}

fn startup_map(options: &[(Text, Text)], filler: usize) -> Vec<(String, String)> {
    // later entries with an equal key replace earlier ones (map semantics)
    let mut m: BTreeMap<String, String> = BTreeMap::new();
    for (k, v) in options {
        m.insert(k.get(), v.get());
    }
    for i in 0..filler {
        m.insert(format!("k{i}"), format!("v{i}"));
    }
    m.into_iter().collect()
}

fn register_events(events: &[u8], repeat: usize) -> Vec<u8> {
    let mut v = Vec::with_capacity(events.len() * repeat);
    for _ in 0..repeat {
        v.extend_from_slice(events);
    }
    v
}

/// `Err(reason)`: no CQL v4 frame can express the request — the driver must refuse it.
pub fn model(case: &Case) -> Result<Model, &'static str> {
    let mut w = Writer::new();
    let mut ext = wr::Extensions::default();
    let mut unordered = false;
    let (opcode, req) = match case {
        Case::Query { text, params } => {
            if text.len() > MAX_INT {
                return Err("text>2GiB");
            }
            let q = text.get();
            w.long_string(&q);
            let p = model_params(&mut w, params)?;
            (OP_QUERY, wr::Request::Query { query: q, params: p })
        }
        Case::Execute { id, meta_id, params, .. } => {
            if id.len() > MAX_SHORT {
                return Err("id>65535");
            }
            if meta_id.as_ref().is_some_and(|m| m.len() > MAX_SHORT) {
                return Err("result-metadata-id>65535");
            }
            let idb = id.get();
            w.short_bytes(&idb);
            let mid = meta_id.as_ref().map(|m| m.get());
            if let Some(m) = &mid {
                w.short_bytes(m);
                ext.metadata_id = true;
            }
            let p = model_params(&mut w, params)?;
            (OP_EXECUTE, wr::Request::Execute { id: idb, result_metadata_id: mid, params: p })
        }
        Case::Batch(b) => {
            let n: usize = b.stmts.iter().map(|r| r.n).sum();
            if n > MAX_SHORT {
                return Err("statements>65535");
            }
            for r in &b.stmts {
                if r.n == 0 {
                    continue;
                }
                match &r.stmt {
                    StmtD::Q(t) if t.len() > MAX_INT => return Err("text>2GiB"),
                    StmtD::P(id) if id.len() > MAX_SHORT => return Err("id>65535"),
                    _ => {}
                }
                if vals_count(&r.values) > MAX_SHORT {
                    return Err("statement-values>65535");
                }
            }
            if b.lists_delta < 0 {
                return Err("fewer-value-lists-than-statements");
            }
            if b.lists_delta > 0 {
                return Err("more-value-lists-than-statements");
            }
            w.byte(b.btype);
            w.short(n as u16);
            let mut statements = Vec::with_capacity(n);
            for r in &b.stmts {
                let vals = expand_vals(&r.values);
                let st = match &r.stmt {
                    StmtD::Q(t) => wr::BatchStatement::Query { query: t.get(), values: vals },
                    StmtD::P(id) => wr::BatchStatement::Prepared { id: id.get(), values: vals },
                };
                for _ in 0..r.n {
                    match &st {
                        wr::BatchStatement::Query { query, values } => {
                            w.byte(0);
                            w.long_string(query);
                            w_values(&mut w, values);
                        }
                        wr::BatchStatement::Prepared { id, values } => {
                            w.byte(1);
                            w.short_bytes(id);
                            w_values(&mut w, values);
                        }
                    }
                    statements.push(st.clone());
                }
            }
            let cl = CONSISTENCIES[b.cl as usize].1;
            let serial = b.serial.map(|s| SERIALS[s as usize].1);
            let flags = (if serial.is_some() { wr::QF_SERIAL } else { 0 }) | (if b.ts.is_some() { wr::QF_TIMESTAMP } else { 0 });
            w.short(cl);
            w.byte(flags);
            if let Some(s) = serial {
                w.short(s);
            }
            if let Some(t) = b.ts {
                w.long(t);
            }
            (
                OP_BATCH,
                wr::Request::Batch { batch_type: b.btype, statements, consistency: cl, flags, serial_consistency: serial, timestamp: b.ts },
            )
        }
        Case::Prepare { text } => {
            if text.len() > MAX_INT {
                return Err("text>2GiB");
            }
            let q = text.get();
            w.long_string(&q);
            (OP_PREPARE, wr::Request::Prepare { query: q })
        }
        Case::Startup { options, filler } => {
            let m = startup_map(options, *filler);
            if m.len() > MAX_SHORT {
                return Err("map-entries>65535");
            }
            if m.iter().any(|(k, v)| k.len() > MAX_SHORT || v.len() > MAX_SHORT) {
                return Err("string>65535");
            }
            let bm: BTreeMap<String, String> = m.into_iter().collect();
            w.string_map(&bm);
            unordered = true;
            (OP_STARTUP, wr::Request::Startup { options: bm })
        }
        Case::Register { events, repeat, .. } => {
            let ev = register_events(events, *repeat);
            if ev.len() > MAX_SHORT {
                return Err("list-entries>65535");
            }
            let names: Vec<String> = ev.iter().map(|e| EVENT_NAMES[*e as usize].to_owned()).collect();
            w.string_list(&names);
            (OP_REGISTER, wr::Request::Register { events: names })
        }
        Case::Options => (OP_OPTIONS, wr::Request::Options),
        Case::AuthResponse { token } => {
            if token.as_ref().is_some_and(|t| t.len() > MAX_INT) {
                return Err("token>2GiB");
            }
            let t = token.as_ref().map(|t| t.get());
            w.bytes_opt(t.as_deref());
            (OP_AUTH_RESPONSE, wr::Request::AuthResponse { token: t })
        }
    };
    Ok(Model { opcode, body: w.into_inner(), req, ext, unordered })
}

// ---------------------------------------------------------------------------------------------
// Building the request with the driver's public API
// ---------------------------------------------------------------------------------------------

fn write_cells(w: &mut RowWriter, vals: &[WV]) -> Result<(), SerializationError> {
    for v in vals {
        let cw = w.make_cell_writer();
        match v {
            WV::Null => {
                cw.set_null();
            }
            WV::NotSet => {
                cw.set_unset();
            }
            WV::Bytes(b) => {
                cw.set_value(b).map_err(SerializationError::new)?;
            }
        }
    }
    Ok(())
}

fn build_values(vals: &[WV], via_add: bool) -> Result<SerializedValues, String> {
    if via_add {
        let typ = ColumnType::Native(NativeType::Blob);
        let mut sv = SerializedValues::new();
        for v in vals {
            match v {
                WV::Null => sv.add_value(&None::<Vec<u8>>, &typ),
                WV::NotSet => sv.add_value(&MaybeUnset::<Vec<u8>>::Unset, &typ),
                WV::Bytes(b) => sv.add_value(b, &typ),
            }
            .map_err(|e| format!("add_value: {e}"))?;
        }
        Ok(sv)
    } else {
        SerializedValues::from_closure(|w| write_cells(w, vals))
            .map(|(sv, ())| sv)
            .map_err(|e| format!("from_closure: {e}"))
    }
}

fn build_params<'a>(p: &Params, sv: &'a SerializedValues) -> QueryParameters<'a> {
    QueryParameters {
        consistency: CONSISTENCIES[p.cl as usize].0,
        serial_consistency: p.serial.map(|s| SERIALS[s as usize].0),
        timestamp: p.ts,
        page_size: p.page_size,
        paging_state: match &p.paging {
            None => PagingState::start(),
            Some(b) => PagingState::new_from_raw_bytes(b.get()),
        },
        skip_metadata: p.skip_meta,
        values: Cow::Borrowed(sv),
    }
}

fn frame<R: SerializableRequest>(req: &R, comp: Option<Comp>, tracing: bool, stream: i16) -> Result<Vec<u8>, String> {
    let mut sr = SerializedRequest::make(req, comp.map(|c| c.driver()), tracing).map_err(|e| format!("make: {e}"))?;
    sr.set_stream(stream);
    Ok(sr.get_data().to_vec())
}

/// Own implementation of the public `RawBatchValues` trait: value lists written cell by cell.
struct GenLists<'a>(&'a [Vec<WV>]);
struct GenIter<'r>(std::slice::Iter<'r, Vec<WV>>);

impl RawBatchValues for GenLists<'_> {
    type RawBatchValuesIter<'r>
        = GenIter<'r>
    where
        Self: 'r;
    fn batch_values_iter(&self) -> GenIter<'_> {
        GenIter(self.0.iter())
    }
}

impl<'r> RawBatchValuesIterator<'r> for GenIter<'r> {
    fn serialize_next(&mut self, w: &mut RowWriter) -> Option<Result<(), SerializationError>> {
        let l = self.0.next()?;
        Some(write_cells(w, l))
    }
    fn is_empty_next(&mut self) -> Option<bool> {
        self.0.next().map(|l| l.is_empty())
    }
    fn skip_next(&mut self) -> Option<()> {
        self.0.next().map(|_| ())
    }
}

fn build_batch(b: &BatchD, comp: Option<Comp>, tracing: bool, stream: i16) -> Result<Vec<u8>, String> {
    let mut statements: Vec<BatchStatement<'static>> = Vec::new();
    let mut lists: Vec<Vec<WV>> = Vec::new();
    for r in &b.stmts {
        let st = match &r.stmt {
            StmtD::Q(t) => BatchStatement::Query { text: Cow::Owned(t.get()) },
            StmtD::P(id) => BatchStatement::Prepared { id: Cow::Owned(id.get()) },
        };
        let vals = expand_vals(&r.values);
        for _ in 0..r.n {
            statements.push(st.clone());
            lists.push(vals.clone());
        }
    }
    let per_stmt_counts: Vec<usize> = lists.iter().map(|l| l.len()).collect();
    if b.lists_delta < 0 {
        let drop = (-b.lists_delta) as usize;
        lists.truncate(lists.len().saturating_sub(drop));
    } else {
        for i in 0..b.lists_delta {
            lists.push(if i % 2 == 0 { vec![WV::Null] } else { vec![] });
        }
    }
    let batch_type = match b.btype {
        0 => BatchType::Logged,
        1 => BatchType::Unlogged,
        _ => BatchType::Counter,
    };
    let consistency = CONSISTENCIES[b.cl as usize].0;
    let serial_consistency = b.serial.map(|s| SERIALS[s as usize].0);
    match b.provider {
        1 => {
            let mut svs = Vec::with_capacity(lists.len());
            for l in &lists {
                svs.push(build_values(l, false)?);
            }
            let req = Batch { statements: Cow::Borrowed(&statements[..]), batch_type, consistency, serial_consistency, timestamp: b.ts, values: svs };
            frame(&req, comp, tracing, stream)
        }
        2 => {
            let max = per_stmt_counts.iter().copied().max().unwrap_or(0);
            let specs: Vec<ColumnSpec<'static>> = (0..max)
                .map(|_| ColumnSpec::borrowed("c", ColumnType::Native(NativeType::Blob), TableSpec::borrowed("ks", "t")))
                .collect();
            let typed: Vec<Vec<MaybeUnset<Option<Vec<u8>>>>> = lists
                .iter()
                .map(|l| {
                    l.iter()
                        .map(|v| match v {
                            WV::Null => MaybeUnset::Set(None),
                            WV::NotSet => MaybeUnset::Unset,
                            WV::Bytes(b) => MaybeUnset::Set(Some(b.clone())),
                        })
                        .collect()
                })
                .collect();
            let specs_ref = &specs;
            let ctxs = per_stmt_counts.iter().map(move |n| RowSerializationContext::from_specs(&specs_ref[..*n]));
            let values = RawBatchValuesAdapter::new(&typed, ctxs);
            let req = Batch { statements: Cow::Borrowed(&statements[..]), batch_type, consistency, serial_consistency, timestamp: b.ts, values };
            frame(&req, comp, tracing, stream)
        }
        _ => {
            let req = Batch {
                statements: Cow::Borrowed(&statements[..]),
                batch_type,
                consistency,
                serial_consistency,
                timestamp: b.ts,
                values: GenLists(&lists),
            };
            frame(&req, comp, tracing, stream)
        }
    }
}

/// Builds the frame with the driver. `Err` = the driver refused (at any stage of the public API).
pub fn build(case: &Case, comp: Option<Comp>, tracing: bool, stream: i16) -> Result<Vec<u8>, String> {
    match case {
        Case::Query { text, params } => {
            let sv = build_values(&expand_vals(&params.values), params.via_add)?;
            let q = text.get();
            let req = Query { contents: Cow::Borrowed(&q), parameters: build_params(params, &sv) };
            frame(&req, comp, tracing, stream)
        }
        Case::Execute { id, meta_id, params, deprecated } => {
            let sv = build_values(&expand_vals(&params.values), params.via_add)?;
            let idb = id.get();
            if *deprecated {
                #[allow(deprecated)]
                let req = scylla_cql::frame::request::execute::Execute { id: bytes::Bytes::from(idb), parameters: build_params(params, &sv) };
                #[allow(deprecated)]
                let r = frame(&req, comp, tracing, stream);
                r
            } else {
                let mid = meta_id.as_ref().map(|m| m.get());
                let req = ExecuteV2 {
                    id: CowBytes::from(&idb[..]),
                    result_metadata_id: mid.as_ref().map(|m| CowBytes::from(&m[..])),
                    parameters: build_params(params, &sv),
                };
                frame(&req, comp, tracing, stream)
            }
        }
        Case::Batch(b) => build_batch(b, comp, tracing, stream),
        Case::Prepare { text } => {
            let q = text.get();
            frame(&Prepare { query: &q }, comp, tracing, stream)
        }
        Case::Startup { options, filler } => {
            let mut m: HashMap<Cow<'static, str>, Cow<'static, str>> = HashMap::new();
            for (k, v) in options {
                m.insert(Cow::Owned(k.get()), Cow::Owned(v.get()));
            }
            for i in 0..*filler {
                m.insert(Cow::Owned(format!("k{i}")), Cow::Owned(format!("v{i}")));
            }
            frame(&Startup { options: m }, comp, tracing, stream)
        }
        Case::Register { events, repeat, v2 } => {
            let ev = register_events(events, *repeat);
            if *v2 {
                let l = ev
                    .iter()
                    .map(|e| match e {
                        0 => EventTypeV2::TopologyChange,
                        1 => EventTypeV2::StatusChange,
                        2 => EventTypeV2::SchemaChange,
                        _ => EventTypeV2::ClientRoutesChange,
                    })
                    .collect();
                frame(&RegisterV2 { event_types_to_register_for: l }, comp, tracing, stream)
            } else {
                let l = ev
                    .iter()
                    .map(|e| match e {
                        0 => EventType::TopologyChange,
                        1 => EventType::StatusChange,
                        _ => EventType::SchemaChange,
                    })
                    .collect();
                frame(&Register { event_types_to_register_for: l }, comp, tracing, stream)
            }
        }
        Case::Options => frame(&Options, comp, tracing, stream),
        Case::AuthResponse { token } => frame(&AuthResponse { response: token.as_ref().map(|t| t.get()) }, comp, tracing, stream),
    }
}

// ---------------------------------------------------------------------------------------------
// Reading the frame back and comparing
// ---------------------------------------------------------------------------------------------

/// Per-worker coverage counters (flushed into the outcome once; keeps the hot loop cheap).
#[derive(Default)]
struct Cov(HashMap<&'static str, u64>);

impl Cov {
    fn hit(&mut self, c: &'static str) {
        *self.0.entry(c).or_insert(0) += 1;
    }
    fn flush(self, o: &mut Outcome) {
        for (k, v) in self.0 {
            o.class_n(k, v);
        }
    }
}

fn replay_json(case: &Case, comp: Option<Comp>, tracing: bool, stream: i16) -> J {
    json!({"case": case, "comp": comp, "tracing": tracing, "stream": stream})
}

fn short_dbg<T: std::fmt::Debug>(v: &T) -> String {
    let s = format!("{v:?}");
    if s.len() > 300 { format!("{}…({} chars)", s.chars().take(300).collect::<String>(), s.len()) } else { s }
}

/// Compares one field; on mismatch registers the violation and returns false.
fn fld<T: PartialEq + std::fmt::Debug>(o: &mut Outcome, kind: &str, field: &str, got: &T, want: &T, rp: &dyn Fn() -> J) -> bool {
    if got == want {
        return true;
    }
    o.violation(
        format!("{kind}:{field}:mismatch"),
        format!("{kind} frame: field {field} reads back as {} but the caller asked for {}", short_dbg(got), short_dbg(want)),
        rp(),
    );
    false
}

fn cmp_params(o: &mut Outcome, kind: &str, got: &wr::QueryParams, want: &wr::QueryParams, rp: &dyn Fn() -> J) -> bool {
    // An empty value list may legally be sent either without the VALUES flag or with the flag
    // and <n> = 0; both say "no values".
    let mut got = got.clone();
    if want.values.is_none() && got.values.as_ref().is_some_and(|v| v.is_empty()) {
        got.values = None;
        got.flags &= !wr::QF_VALUES;
    }
    fld(o, kind, "consistency", &got.consistency, &want.consistency, rp)
        && fld(o, kind, "flags", &got.flags, &want.flags, rp)
        && fld(o, kind, "values.count", &got.values.as_ref().map(|v| v.len()), &want.values.as_ref().map(|v| v.len()), rp)
        && cmp_values(o, kind, "values", got.values.as_deref().unwrap_or(&[]), want.values.as_deref().unwrap_or(&[]), rp)
        && fld(o, kind, "value-names", &got.names, &want.names, rp)
        && fld(o, kind, "skip_metadata", &got.skip_metadata, &want.skip_metadata, rp)
        && fld(o, kind, "page_size", &got.page_size, &want.page_size, rp)
        && fld(o, kind, "paging_state", &got.paging_state, &want.paging_state, rp)
        && fld(o, kind, "serial_consistency", &got.serial_consistency, &want.serial_consistency, rp)
        && fld(o, kind, "timestamp", &got.timestamp, &want.timestamp, rp)
}

fn cmp_values(o: &mut Outcome, kind: &str, field: &str, got: &[WV], want: &[WV], rp: &dyn Fn() -> J) -> bool {
    if got.len() != want.len() {
        return fld(o, kind, &format!("{field}.count"), &got.len(), &want.len(), rp);
    }
    for (i, (g, w)) in got.iter().zip(want).enumerate() {
        if g != w {
            o.violation(
                format!("{kind}:{field}:mismatch"),
                format!("{kind} frame: bound value #{i} reads back as {} but the caller bound {}", short_dbg(g), short_dbg(w)),
                rp(),
            );
            return false;
        }
    }
    true
}

fn cmp_request(o: &mut Outcome, kind: &str, got: &wr::Request, want: &wr::Request, rp: &dyn Fn() -> J) -> bool {
    use wr::Request as R;
    match (got, want) {
        (R::Query { query: gq, params: gp }, R::Query { query: wq, params: wp }) => fld(o, kind, "statement-text", gq, wq, rp) && cmp_params(o, kind, gp, wp, rp),
        (R::Execute { id: gi, result_metadata_id: gm, params: gp }, R::Execute { id: wi, result_metadata_id: wm, params: wp }) => {
            fld(o, kind, "statement-id", gi, wi, rp) && fld(o, kind, "result-metadata-id", gm, wm, rp) && cmp_params(o, kind, gp, wp, rp)
        }
        (
            R::Batch { batch_type: gt, statements: gs, consistency: gc, flags: gf, serial_consistency: gsc, timestamp: gts },
            R::Batch { batch_type: wt, statements: ws, consistency: wc, flags: wf_, serial_consistency: wsc, timestamp: wts },
        ) => {
            if !(fld(o, kind, "batch-type", gt, wt, rp) && fld(o, kind, "statement-count", &gs.len(), &ws.len(), rp)) {
                return false;
            }
            for (i, (g, w)) in gs.iter().zip(ws).enumerate() {
                use wr::BatchStatement as S;
                let ok = match (g, w) {
                    (S::Query { query: gq, values: gv }, S::Query { query: wq, values: wv }) => {
                        fld(o, kind, "statement-text", gq, wq, rp) && cmp_values(o, kind, "statement-values", gv, wv, rp)
                    }
                    (S::Prepared { id: gi, values: gv }, S::Prepared { id: wi, values: wv }) => {
                        fld(o, kind, "statement-id", gi, wi, rp) && cmp_values(o, kind, "statement-values", gv, wv, rp)
                    }
                    _ => {
                        o.violation(
                            format!("{kind}:statement-kind:mismatch"),
                            format!("batch statement #{i} reads back as {} but the caller gave {}", short_dbg(g), short_dbg(w)),
                            rp(),
                        );
                        false
                    }
                };
                if !ok {
                    return false;
                }
            }
            fld(o, kind, "consistency", gc, wc, rp)
                && fld(o, kind, "flags", gf, wf_, rp)
                && fld(o, kind, "serial_consistency", gsc, wsc, rp)
                && fld(o, kind, "timestamp", gts, wts, rp)
        }
        (R::Prepare { query: g }, R::Prepare { query: w }) => fld(o, kind, "statement-text", g, w, rp),
        (R::Startup { options: g }, R::Startup { options: w }) => fld(o, kind, "options", g, w, rp),
        (R::Register { events: g }, R::Register { events: w }) => fld(o, kind, "event-types", g, w, rp),
        (R::Options, R::Options) => true,
        (R::AuthResponse { token: g }, R::AuthResponse { token: w }) => fld(o, kind, "token", g, w, rp),
        _ => {
            o.violation(format!("{kind}:request-kind:mismatch"), format!("body parsed as {} for a {kind} request", short_dbg(got)), rp());
            false
        }
    }
}

/// Checks one frame against the model. `plain_body`: the uncompressed body the driver produced
/// for the same request (compression cases). Returns true when everything agreed.
fn check_frame(
    o: &mut Outcome,
    kind: &str,
    m: &Model,
    comp: Option<Comp>,
    tracing: bool,
    stream: i16,
    data: &[u8],
    plain_body: Option<&[u8]>,
    rp: &dyn Fn() -> J,
) -> bool {
    let Ok(h) = wf::FrameHeader::parse(data) else {
        o.violation(format!("{kind}:header:short"), format!("frame of {} bytes has no 9-byte header", data.len()), rp());
        return false;
    };
    let actual = data.len() - 9;
    if !(fld(o, kind, "header.version", &h.version, &0x04, rp)
        && fld(o, kind, "header.opcode", &h.opcode, &m.opcode, rp)
        && fld(o, kind, "header.stream", &h.stream, &stream, rp))
    {
        return false;
    }
    let want_flags = (if comp.is_some() { wf::FLAG_COMPRESSION } else { 0 }) | (if tracing { wf::FLAG_TRACING } else { 0 });
    if !fld(o, kind, "header.flags", &h.flags, &want_flags, rp) {
        return false;
    }
    if h.length as usize != actual {
        o.violation(
            format!("{kind}:header.length:mismatch"),
            format!("header length field says {} but the frame carries {} body bytes", h.length, actual),
            rp(),
        );
        return false;
    }
    let raw = &data[9..];
    let decompressed;
    let body: &[u8] = match comp {
        None => raw,
        Some(c) => match wf::decompress(c.wire(), raw) {
            Ok(b) => {
                decompressed = b;
                &decompressed
            }
            Err(e) => {
                o.violation(format!("{kind}:compressed-body-undecodable:{}", c.name()), format!("{} body does not decompress: {}", c.name(), e.0), rp());
                return false;
            }
        },
    };
    let got = match wr::parse_request(h.opcode, body, &m.ext) {
        Ok(r) => r,
        Err(e) => {
            o.violation(
                format!("{kind}:body-unparseable"),
                format!("the independent parser cannot read the {kind} body ({} bytes): {}; spec encoding would be {} bytes", body.len(), e.0, m.body.len()),
                rp(),
            );
            return false;
        }
    };
    if !cmp_request(o, kind, &got, &m.req, rp) {
        return false;
    }
    // byte-exact comparison with the specification encoding
    let empty_values_with_flag = match &got {
        wr::Request::Query { params, .. } | wr::Request::Execute { params, .. } => params.values.as_ref().is_some_and(|v| v.is_empty()),
        _ => false,
    };
    if m.unordered {
        if body.len() != m.body.len() {
            o.violation(
                format!("{kind}:body-size-differs-from-spec-encoding"),
                format!("body has {} bytes, the spec encoding of the same entries has {}", body.len(), m.body.len()),
                rp(),
            );
            return false;
        }
    } else if !empty_values_with_flag && body != &m.body[..] {
        let at = body.iter().zip(&m.body).position(|(a, b)| a != b).unwrap_or(body.len().min(m.body.len()));
        o.violation(
            format!("{kind}:body-bytes-differ-from-spec-encoding"),
            format!("all parsed fields agree but the body ({} bytes) differs from the spec encoding ({} bytes) at offset {at}", body.len(), m.body.len()),
            rp(),
        );
        return false;
    }
    if let (Some(c), Some(p)) = (comp, plain_body) {
        if body != p {
            o.violation(
                format!("{kind}:compressed-body-differs-from-plain:{}", c.name()),
                format!("the {} body decompresses to {} bytes that differ from the {}-byte uncompressed serialization of the same request", c.name(), body.len(), p.len()),
                rp(),
            );
            return false;
        }
    }
    true
}

const ALL_COMBOS: [(Option<Comp>, bool); 6] =
    [(None, false), (None, true), (Some(Comp::Lz4), false), (Some(Comp::Lz4), true), (Some(Comp::Snappy), false), (Some(Comp::Snappy), true)];

fn classify(cov: &mut Cov, case: &Case) {
    fn params(cov: &mut Cov, p: &Params) {
        let n = vals_count(&p.values);
        cov.hit(match n {
            0 => "values:0",
            1 => "values:1",
            65535 => "values:65535",
            x if x > 65535 => "values:over-65535",
            _ => "values:many",
        });
        for r in &p.values {
            if r.n > 0 {
                cov.hit(match &r.v {
                    Val::Null => "value:null",
                    Val::Unset => "value:unset",
                    Val::B(b) if b.len() == 0 => "value:empty-bytes",
                    Val::B(_) => "value:bytes",
                });
            }
        }
        cov.hit(match &p.paging {
            None => "paging-state:none",
            Some(b) if b.len() == 0 => "paging-state:empty",
            Some(_) => "paging-state:bytes",
        });
    }
    fn text(cov: &mut Cov, t: &Text) {
        if t.multibyte() {
            cov.hit("text:multibyte-utf8");
        }
        if t.len() > 65535 {
            cov.hit("text:over-64KiB");
        }
    }
    match case {
        Case::Query { text: t, params: p } => {
            cov.hit("request:query");
            text(cov, t);
            params(cov, p);
        }
        Case::Execute { id, meta_id, params: p, deprecated } => {
            cov.hit(if *deprecated { "request:execute-deprecated" } else { "request:execute" });
            cov.hit(if meta_id.is_some() { "execute:result-metadata-id" } else { "execute:no-result-metadata-id" });
            if id.len() == 65535 || meta_id.as_ref().is_some_and(|m| m.len() == 65535) {
                cov.hit("id:65535-bytes");
            }
            params(cov, p);
        }
        Case::Batch(b) => {
            cov.hit("request:batch");
            let n: usize = b.stmts.iter().map(|r| r.n).sum();
            cov.hit(match n {
                0 => "batch:0-statements",
                65535 => "batch:65535-statements",
                x if x > 65535 => "batch:over-65535-statements",
                _ => "batch:n-statements",
            });
            let q = b.stmts.iter().any(|r| r.n > 0 && matches!(r.stmt, StmtD::Q(_)));
            let p = b.stmts.iter().any(|r| r.n > 0 && matches!(r.stmt, StmtD::P(_)));
            if q && p {
                cov.hit("batch:mixed-prepared-unprepared");
            }
            for r in &b.stmts {
                if let StmtD::Q(t) = &r.stmt {
                    text(cov, t);
                }
                if let StmtD::P(id) = &r.stmt {
                    if id.len() == 65535 {
                        cov.hit("id:65535-bytes");
                    }
                }
                if vals_count(&r.values) == 65535 {
                    cov.hit("values:65535");
                }
            }
            cov.hit(match b.provider {
                1 => "batch:values-from-Vec<SerializedValues>",
                2 => "batch:values-from-RawBatchValuesAdapter",
                _ => "batch:values-from-custom-RawBatchValues",
            });
        }
        Case::Prepare { text: t } => {
            cov.hit("request:prepare");
            text(cov, t);
        }
        Case::Startup { options, .. } => {
            cov.hit("request:startup");
            if options.iter().any(|(k, v)| k.multibyte() || v.multibyte()) {
                cov.hit("text:multibyte-utf8");
            }
        }
        Case::Register { v2, .. } => cov.hit(if *v2 { "request:register-v2" } else { "request:register" }),
        Case::Options => cov.hit("request:options"),
        Case::AuthResponse { .. } => cov.hit("request:auth_response"),
    }
}

/// Runs one case through the given (compression, tracing) combinations. The first combination
/// must be uncompressed: its body is the reference for the compressed ones.
fn run_case(o: &mut Outcome, cov: &mut Cov, case: &Case, combos: &[(Option<Comp>, bool)], stream: i16) {
    let kind = case.kind();
    let m = model(case);
    classify(cov, case);
    let key = match &m {
        Ok(m) => fw::hash64(&m.body) ^ ((m.opcode as u64) << 56) ^ fw::hash_str(kind),
        Err(_) => fw::hash_str(&serde_json::to_string(case).unwrap_or_default()),
    };
    o.case(key, !matches!(case, Case::Options));
    o.evals(combos.len() as u64 - 1);
    let mut plain: Option<Vec<u8>> = None;
    for (i, (comp, tracing)) in combos.iter().copied().enumerate() {
        let stream = stream.wrapping_add(i as i16 * 257);
        let rp = || replay_json(case, comp, tracing, stream);
        let built = fw::catch(|| build(case, comp, tracing, stream));
        match comp {
            None => cov.hit("compression:none"),
            Some(Comp::Lz4) => cov.hit("compression:lz4"),
            Some(Comp::Snappy) => cov.hit("compression:snappy"),
        }
        if tracing {
            cov.hit("tracing:on");
        }
        match (&m, built) {
            (_, Err(p)) => {
                o.violation(format!("{kind}:panic"), format!("building the {kind} frame panicked: {}", fw::first_line(&p)), rp());
                return;
            }
            (Err(reason), Ok(Err(_e))) => {
                cov.hit("refused:unrepresentable-request");
                cov.hit(match *reason {
                    "values>65535" | "statement-values>65535" => "refused:65536th-value",
                    "id>65535" | "result-metadata-id>65535" => "refused:id-65536-bytes",
                    "statements>65535" => "refused:65536-statements",
                    "fewer-value-lists-than-statements" => "refused:fewer-value-lists",
                    "more-value-lists-than-statements" => "refused:more-value-lists",
                    "string>65535" => "refused:string-65536-bytes",
                    "map-entries>65535" | "list-entries>65535" => "refused:65536-entries",
                    _ => "refused:other",
                });
            }
            (Err(reason), Ok(Ok(data))) => {
                let h = wf::FrameHeader::parse(&data).ok();
                o.violation(
                    format!("{kind}:{reason}:not-refused"),
                    format!("the request cannot be expressed in a v4 frame ({reason}) but a {}-byte frame was produced (header {h:?}) instead of an error", data.len()),
                    rp(),
                );
                return;
            }
            (Ok(_), Ok(Err(e))) => {
                o.violation(format!("{kind}:valid-request-refused"), format!("a representable {kind} request was refused: {e}"), rp());
                return;
            }
            (Ok(m), Ok(Ok(data))) => {
                let ok = check_frame(o, kind, m, comp, tracing, stream, &data, plain.as_deref(), &rp);
                if !ok {
                    return;
                }
                if comp.is_none() && plain.is_none() {
                    plain = Some(data[9..].to_vec());
                }
            }
        }
    }
}

// ---------------------------------------------------------------------------------------------
// Generators
// ---------------------------------------------------------------------------------------------

const SNIPPETS: [&str; 8] = [
    "SELECT * FROM ks.t WHERE pk = ?",
    "INSERT INTO ks.t (a, b, c) VALUES (?, ?, ?) IF NOT EXISTS",
    "UPDATE ks.\"Tä\" SET v = 'ключ' WHERE k = ? AND c > ?",
    "SELECT \"漢字\" FROM \"😀\".t LIMIT 1",
    "DELETE FROM ks.t WHERE pk IN ?",
    "SELECT now() FROM system.local",
    "x",
    "",
];
const CHARS: [char; 16] = ['a', 'Z', ' ', '?', '\'', '\u{0}', '\u{7f}', '\u{80}', 'é', '\u{7ff}', '\u{800}', '漢', '\u{ffff}', '\u{10000}', '😀', '\u{10ffff}'];

fn gen_string(rng: &mut Rng, max_chars: usize) -> String {
    let n = rng.usize(0, max_chars);
    (0..n).map(|_| *rng.pick(&CHARS)).collect()
}

fn gen_text(rng: &mut Rng) -> Text {
    match rng.below(400) {
        0 => Text::rep("x", 65535),
        1 => Text::rep("é", 32768),
        2 => Text::rep("漢", 21846),
        3 => Text::rep("SELECT 😀 ", 7000),
        4..=200 => Text::lit(*rng.pick(&SNIPPETS)),
        _ => Text::lit(&gen_string(rng, 60)),
    }
}

fn gen_blob(rng: &mut Rng, max: usize) -> Blob {
    let n = match rng.below(10) {
        0 => 0,
        1 => 1,
        2..=6 => rng.usize(2, 16.min(max.max(2))),
        _ => rng.usize(0, max),
    };
    Blob::lit(rng.bytes(n))
}

fn gen_val(rng: &mut Rng) -> Val {
    match rng.below(8) {
        0 | 1 => Val::Null,
        2 => Val::Unset,
        3 => Val::B(Blob::lit(vec![])),
        _ => Val::B(gen_blob(rng, 64)),
    }
}

fn gen_vals(rng: &mut Rng, allow_empty: bool) -> Vec<ValRun> {
    let n = match rng.below(20) {
        0..=3 if allow_empty => 0,
        0..=7 => 1,
        8..=17 => rng.usize(2, 12),
        18 => rng.usize(13, 300),
        _ => rng.usize(300, 2000),
    };
    if n > 40 {
        // long lists as a few runs
        let mut left = n;
        let mut v = Vec::new();
        while left > 0 {
            let k = rng.usize(1, left);
            v.push(ValRun { v: gen_val(rng), n: k });
            left -= k;
        }
        v
    } else {
        (0..n).map(|_| ValRun { v: gen_val(rng), n: 1 }).collect()
    }
}

fn gen_i32(rng: &mut Rng) -> i32 {
    match rng.below(6) {
        0 => *rng.pick(&[i32::MIN, -1, 0, 1, i32::MAX, 5000, 256, 65536]),
        1 | 2 => rng.range(1, 10000) as i32,
        _ => rng.u32() as i32,
    }
}

/// mask bits: 0 values, 1 skip_metadata, 2 page_size, 3 paging_state, 4 serial, 5 timestamp
fn gen_params(rng: &mut Rng, mask: u8) -> Params {
    Params {
        cl: rng.below(11) as u8,
        serial: (mask & 16 != 0).then(|| rng.below(2) as u8),
        ts: (mask & 32 != 0).then(|| rng.i64_boundary()),
        page_size: (mask & 4 != 0).then(|| gen_i32(rng)),
        paging: (mask & 8 != 0).then(|| if rng.chance(1, 4) { Blob::lit(vec![]) } else { gen_blob(rng, 120) }),
        skip_meta: mask & 2 != 0,
        values: if mask & 1 != 0 { gen_vals(rng, false) } else { vec![] },
        via_add: rng.bool(),
    }
}

fn gen_id(rng: &mut Rng) -> Blob {
    match rng.below(200) {
        0 => Blob::lit(vec![]),
        1 => Blob::fill(0xab, 65535),
        2..=150 => Blob::lit(rng.bytes(16)),
        _ => gen_blob(rng, 40),
    }
}

fn gen_batch(rng: &mut Rng) -> BatchD {
    let n = match rng.below(10) {
        0 => 0,
        1 | 2 => 1,
        3..=8 => rng.usize(2, 8),
        _ => rng.usize(9, 60),
    };
    let provider = rng.below(3) as u8;
    let stmts: Vec<StmtRun> = (0..n)
        .map(|_| StmtRun {
            stmt: if rng.bool() { StmtD::Q(gen_text(rng)) } else { StmtD::P(gen_id(rng)) },
            values: {
                let mut v = gen_vals(rng, true);
                if provider == 2 && vals_count(&v) > 100 {
                    v.truncate(1);
                    v[0].n = v[0].n.min(100);
                }
                v
            },
            n: 1,
        })
        .collect();
    let lists_delta = match rng.below(12) {
        0 if n > 0 => -(rng.usize(1, n) as i32),
        1 => rng.range(1, 3) as i32,
        _ => 0,
    };
    BatchD {
        btype: rng.below(3) as u8,
        stmts,
        lists_delta,
        cl: rng.below(11) as u8,
        serial: rng.chance(1, 2).then(|| rng.below(2) as u8),
        ts: rng.chance(1, 2).then(|| rng.i64_boundary()),
        provider,
    }
}

const STARTUP_KEYS: [&str; 8] =
    ["CQL_VERSION", "COMPRESSION", "DRIVER_NAME", "DRIVER_VERSION", "APPLICATION_NAME", "CLIENT_ID", "SCYLLA_SHARD_AWARE_PORT", "NO_COMPACT"];

fn gen_case(rng: &mut Rng) -> Case {
    match rng.below(100) {
        0..=29 => {
            let mask = rng.below(64) as u8;
            Case::Query { text: gen_text(rng), params: gen_params(rng, mask) }
        }
        30..=59 => {
            let deprecated = rng.chance(1, 5);
            let mask = rng.below(64) as u8;
            Case::Execute {
                id: gen_id(rng),
                meta_id: (!deprecated && rng.bool()).then(|| gen_id(rng)),
                params: gen_params(rng, mask),
                deprecated,
            }
        }
        60..=84 => Case::Batch(gen_batch(rng)),
        85..=89 => Case::Prepare { text: gen_text(rng) },
        90..=93 => {
            let n = rng.usize(0, 6);
            let options = (0..n)
                .map(|_| {
                    let k = if rng.chance(2, 3) { Text::lit(*rng.pick(&STARTUP_KEYS)) } else { Text::lit(&gen_string(rng, 12)) };
                    let v = if rng.chance(1, 2) { Text::lit(*rng.pick(&["3.0.0", "4.0.0", "lz4", "snappy", "ScyllaDB Rust Driver", ""])) } else { Text::lit(&gen_string(rng, 20)) };
                    (k, v)
                })
                .collect();
            Case::Startup { options, filler: if rng.chance(1, 5) { rng.usize(1, 30) } else { 0 } }
        }
        94..=96 => {
            let v2 = rng.bool();
            let n = rng.usize(0, 5);
            Case::Register { events: (0..n).map(|_| rng.below(if v2 { 4 } else { 3 }) as u8).collect(), repeat: 1, v2 }
        }
        97 => Case::Options,
        _ => Case::AuthResponse { token: if rng.chance(1, 5) { None } else { Some(gen_blob(rng, 200)) } },
    }
}

/// STARTUP and OPTIONS precede the negotiation of compression: the specification forbids
/// compressing STARTUP, and the driver itself frames both with `compression = None`
/// (connection.rs passes `compress = false`), so these are only built uncompressed.
fn combos_for(case: &Case, all: bool, rng: &mut Rng) -> Vec<(Option<Comp>, bool)> {
    if matches!(case, Case::Startup { .. } | Case::Options) {
        return if all { vec![(None, false), (None, true)] } else { vec![(None, rng.bool())] };
    }
    if all { ALL_COMBOS.to_vec() } else { vec![(None, rng.bool()), (Some(Comp::Lz4), rng.bool()), (Some(Comp::Snappy), rng.bool())] }
}

/// The complete grid: every subset of the six optional QUERY/EXECUTE fields x value-list shape x
/// paging-state shape x entry point (QUERY, EXECUTE with/without result-metadata id, deprecated
/// Execute).
fn grid_cases(rng: &mut Rng) -> Vec<Case> {
    let mut out = Vec::new();
    for mask in 0u8..64 {
        let value_shapes: Vec<Vec<ValRun>> = if mask & 1 != 0 {
            vec![
                vec![ValRun { v: Val::B(Blob::lit(rng.bytes(5))), n: 1 }],
                vec![ValRun { v: Val::Null, n: 1 }],
                vec![ValRun { v: Val::Unset, n: 1 }],
                vec![
                    ValRun { v: Val::B(Blob::lit(rng.bytes(3))), n: 1 },
                    ValRun { v: Val::Null, n: 2 },
                    ValRun { v: Val::B(Blob::lit(vec![])), n: 1 },
                    ValRun { v: Val::Unset, n: 1 },
                    ValRun { v: Val::B(Blob::lit(rng.bytes(300))), n: 1 },
                ],
            ]
        } else {
            vec![vec![]]
        };
        let paging_shapes: Vec<Option<Blob>> =
            if mask & 8 != 0 { vec![Some(Blob::lit(vec![])), Some(Blob::lit({
                let n = rng.usize(1, 64);
                rng.bytes(n)
            }))] } else { vec![None] };
        for vs in &value_shapes {
            for ps in &paging_shapes {
                for entry in 0..4 {
                    let mut p = gen_params(rng, mask);
                    p.values = vs.clone();
                    p.paging = ps.clone();
                    out.push(match entry {
                        0 => Case::Query { text: Text::lit(*rng.pick(&SNIPPETS)), params: p },
                        1 => Case::Execute { id: Blob::lit(rng.bytes(16)), meta_id: None, params: p, deprecated: false },
                        2 => Case::Execute { id: Blob::lit(rng.bytes(16)), meta_id: Some(Blob::lit(rng.bytes(16))), params: p, deprecated: false },
                        _ => Case::Execute { id: Blob::lit(rng.bytes(16)), meta_id: None, params: p, deprecated: true },
                    });
                }
            }
        }
    }
    out
}

fn plain_params(values: Vec<ValRun>, via_add: bool) -> Params {
    Params { cl: 6, serial: None, ts: None, page_size: Some(5000), paging: None, skip_meta: false, values, via_add }
}

/// Cases at the 16-bit (and, as far as cheap, 32-bit) boundaries.
fn boundary_cases() -> Vec<Case> {
    let mut out = Vec::new();
    let b = |n: usize| Blob::fill(0x5a, n);
    let one = |v: Val, n: usize| vec![ValRun { v, n }];
    let mixed = |last: usize| {
        vec![
            ValRun { v: Val::Null, n: 20000 },
            ValRun { v: Val::Unset, n: 20000 },
            ValRun { v: Val::B(Blob::lit(vec![7, 7])), n: 25534 },
            ValRun { v: Val::B(Blob::lit(vec![])), n: last },
        ]
    };
    // bound values: 65535 accepted, the 65536th refused (both ways of building the list)
    for via_add in [false, true] {
        for vals in [one(Val::Null, 65535), mixed(1), one(Val::Null, 65536), mixed(2), one(Val::B(Blob::lit(vec![1])), 65537)] {
            out.push(Case::Query { text: Text::lit("INSERT"), params: plain_params(vals.clone(), via_add) });
            out.push(Case::Execute { id: b(16), meta_id: Some(b(16)), params: plain_params(vals, via_add), deprecated: false });
        }
    }
    // statement ids and result-metadata ids: 65535 bytes accepted, 65536 refused
    for n in [0usize, 1, 65534, 65535, 65536, 65537, 131072] {
        let p = || plain_params(one(Val::B(Blob::lit(vec![1, 2, 3])), 2), false);
        out.push(Case::Execute { id: b(n), meta_id: None, params: p(), deprecated: false });
        out.push(Case::Execute { id: b(n), meta_id: Some(b(16)), params: p(), deprecated: false });
        out.push(Case::Execute { id: b(16), meta_id: Some(b(n)), params: p(), deprecated: false });
        out.push(Case::Execute { id: b(n), meta_id: None, params: p(), deprecated: true });
        for provider in 0..3 {
            out.push(Case::Batch(BatchD {
                btype: 0,
                stmts: vec![
                    StmtRun { stmt: StmtD::Q(Text::lit("INSERT")), values: one(Val::Null, 1), n: 1 },
                    StmtRun { stmt: StmtD::P(b(n)), values: one(Val::B(Blob::lit(vec![9])), 2), n: 1 },
                ],
                lists_delta: 0,
                cl: 4,
                serial: Some(1),
                ts: Some(-1),
                provider,
            }));
        }
    }
    // batch: 65535 statements accepted, 65536 refused (not truncated to 0)
    for provider in 0..2 {
        for (n1, n2) in [(65535usize, 0usize), (30000, 35535), (65536, 0), (30000, 35536), (65535, 2), (131072, 0)] {
            out.push(Case::Batch(BatchD {
                btype: 1,
                stmts: vec![
                    StmtRun { stmt: StmtD::P(b(2)), values: one(Val::B(Blob::lit(vec![1])), 1), n: n1 },
                    StmtRun { stmt: StmtD::Q(Text::lit("é")), values: vec![], n: n2 },
                ],
                lists_delta: 0,
                cl: 1,
                serial: None,
                ts: Some(i64::MAX),
                provider,
            }));
        }
        // one statement with 65535 / 65536 values
        for nv in [65535usize, 65536, 65537] {
            out.push(Case::Batch(BatchD {
                btype: 2,
                stmts: vec![
                    StmtRun { stmt: StmtD::P(b(16)), values: one(Val::Unset, 1), n: 1 },
                    StmtRun { stmt: StmtD::Q(Text::lit("UPDATE")), values: one(Val::Null, nv), n: 1 },
                ],
                lists_delta: 0,
                cl: 10,
                serial: None,
                ts: None,
                provider,
            }));
        }
    }
    // batch: number of value lists differs from the number of statements
    for provider in 0..3 {
        for n in 0usize..5 {
            let mut deltas: Vec<i32> = (1..=n as i32).map(|d| -d).collect();
            deltas.extend([0, 1, 2, 5]);
            for d in deltas {
                out.push(Case::Batch(BatchD {
                    btype: (n % 3) as u8,
                    stmts: (0..n)
                        .map(|i| StmtRun {
                            stmt: if i % 2 == 0 { StmtD::Q(Text::lit("INSERT INTO t (a) VALUES (?)")) } else { StmtD::P(b(16)) },
                            values: one(Val::B(Blob::lit(vec![i as u8])), i % 3),
                            n: 1,
                        })
                        .collect(),
                    lists_delta: d,
                    cl: 6,
                    serial: (n % 2 == 0).then_some(0),
                    ts: (d % 2 == 0).then_some(1_700_000_000_000_000),
                    provider,
                }));
            }
        }
    }
    // [long string] statement texts beyond 64 KiB are legal
    for t in [Text::rep("x", 65535), Text::rep("x", 65536), Text::rep("é", 32768), Text::rep("漢", 21846), Text::rep("SELECT 😀 ", 100_000)] {
        out.push(Case::Query { text: t.clone(), params: plain_params(one(Val::Null, 1), false) });
        out.push(Case::Prepare { text: t.clone() });
        out.push(Case::Batch(BatchD {
            btype: 0,
            stmts: vec![StmtRun { stmt: StmtD::Q(t), values: vec![], n: 2 }],
            lists_delta: 0,
            cl: 0,
            serial: None,
            ts: None,
            provider: 0,
        }));
    }
    // STARTUP: [string] keys / values of 65535 / 65536 bytes; 65535 / 65536 entries
    for n in [65535usize, 65536] {
        out.push(Case::Startup { options: vec![(Text::rep("k", n), Text::lit("v"))], filler: 0 });
        out.push(Case::Startup { options: vec![(Text::lit("CQL_VERSION"), Text::rep("é", n / 2)), (Text::lit("K"), Text::rep("v", n))], filler: 3 });
        out.push(Case::Startup { options: vec![], filler: n });
        out.push(Case::Register { events: vec![0], repeat: n, v2: false });
        out.push(Case::Register { events: vec![3, 2, 1, 0, 3], repeat: n / 5 + (n % 5 != 0) as usize, v2: true });
    }
    out.push(Case::Startup { options: vec![], filler: 0 });
    out.push(Case::Register { events: vec![], repeat: 1, v2: false });
    out.push(Case::Register { events: vec![0, 1, 2, 3], repeat: 1, v2: true });
    out.push(Case::Options);
    // AUTH_RESPONSE tokens and paging states
    for t in [None, Some(Blob::lit(vec![])), Some(Blob::lit(b"\0cassandra\0cassandra".to_vec())), Some(Blob::fill(0xee, 1 << 20))] {
        out.push(Case::AuthResponse { token: t });
    }
    for ps in [Blob::lit(vec![]), Blob::fill(1, 1), Blob::fill(0xff, 100_000)] {
        let mut p = plain_params(vec![], false);
        p.paging = Some(ps);
        out.push(Case::Query { text: Text::lit("SELECT"), params: p.clone() });
        out.push(Case::Execute { id: b(16), meta_id: None, params: p, deprecated: false });
    }
    // extreme scalars
    for (ps, ts) in [(i32::MIN, i64::MIN), (-1, -1), (0, 0), (i32::MAX, i64::MAX)] {
        let mut p = plain_params(vec![], false);
        p.page_size = Some(ps);
        p.ts = Some(ts);
        p.serial = Some(1);
        p.skip_meta = true;
        out.push(Case::Query { text: Text::lit("SELECT"), params: p.clone() });
        out.push(Case::Execute { id: b(16), meta_id: Some(b(0)), params: p, deprecated: false });
    }
    out
}

// ---------------------------------------------------------------------------------------------
// Oversize bodies (thorough tier, one child process at a time)
// ---------------------------------------------------------------------------------------------

const BIG_BLOB: usize = 1_500_000_000;
pub const SIG_F5: &str = "frame-length:body-over-4GiB-truncated";

/// `verif-harness child c09-big <mode>`; prints one JSON object on stdout.
/// modes: text2g | body4g | body4g-lz4 | body4g-snappy
pub fn child_big(args: &[String]) -> i32 {
    let mode = args.first().map(|s| s.as_str()).unwrap_or("");
    let out = match mode {
        "text2g" => {
            // 2^31 bytes: one more than a [long string] length (a signed [int]) can say
            let text = "a".repeat(1usize << 31);
            let q = fw::catch(|| {
                let req = Query { contents: Cow::Borrowed(&text), parameters: QueryParameters::default() };
                SerializedRequest::make(&req, None, false).map(|sr| {
                    let d = sr.get_data();
                    (d.len(), d[..d.len().min(13)].to_vec())
                })
            });
            let p = fw::catch(|| {
                SerializedRequest::make(&Prepare { query: &text }, None, false).map(|sr| {
                    let d = sr.get_data();
                    (d.len(), d[..d.len().min(13)].to_vec())
                })
            });
            let show = |r: Result<Result<(usize, Vec<u8>), _>, String>| match r {
                Err(p) => json!({"end": "panic", "panic": fw::first_line(&p)}),
                Ok(Err(e)) => {
                    let e: scylla_cql::frame::frame_errors::CqlRequestSerializationError = e;
                    json!({"end": "refused", "error": e.to_string()})
                }
                Ok(Ok((len, head))) => json!({"end": "frame", "frame_len": len, "head": fw::hex(&head)}),
            };
            json!({"mode": mode, "text_len": text.len(), "query": show(q), "prepare": show(p)})
        }
        "body4g" | "body4g-lz4" | "body4g-snappy" => {
            let comp = match mode {
                "body4g-lz4" => Some(Comp::Lz4),
                "body4g-snappy" => Some(Comp::Snappy),
                _ => None,
            };
            let blob = vec![0u8; BIG_BLOB];
            let sv = SerializedValues::from_closure(|w| {
                for _ in 0..3 {
                    w.make_cell_writer().set_value(&blob).map_err(SerializationError::new)?;
                }
                Ok(())
            });
            drop(blob);
            match sv {
                Err(e) => json!({"mode": mode, "end": "refused", "error": format!("from_closure: {e}")}),
                Ok((sv, ())) => {
                    // <long string "INSERT"> <consistency> <flags> <n=3> 3 x (<int> + 1.5e9 bytes)
                    let body_len: u64 = 4 + 6 + 2 + 1 + 2 + 3 * (4 + BIG_BLOB as u64);
                    let req = Query {
                        contents: Cow::Borrowed("INSERT"),
                        parameters: QueryParameters { values: Cow::Borrowed(&sv), ..Default::default() },
                    };
                    let r = fw::catch(|| SerializedRequest::make(&req, comp.map(|c| c.driver()), false));
                    match r {
                        Err(p) => json!({"mode": mode, "end": "panic", "panic": fw::first_line(&p), "body_len": body_len}),
                        Ok(Err(e)) => json!({"mode": mode, "end": "refused", "error": e.to_string(), "body_len": body_len}),
                        Ok(Ok(sr)) => {
                            let d = sr.get_data();
                            let h = wf::FrameHeader::parse(d).unwrap();
                            let prefix = if comp == Some(Comp::Lz4) && d.len() >= 13 { Some(u32::from_be_bytes([d[9], d[10], d[11], d[12]])) } else { None };
                            json!({"mode": mode, "end": "frame", "body_len": body_len, "frame_body_bytes": (d.len() - 9) as u64,
                                   "header_length": h.length, "header_flags": h.flags, "header_opcode": h.opcode, "header_version": h.version,
                                   "lz4_prefix": prefix})
                        }
                    }
                }
            }
        }
        _ => {
            eprintln!("c09-big: unknown mode {mode:?}");
            return 2;
        }
    };
    println!("{out}");
    0
}

fn mem_available_gb() -> f64 {
    std::fs::read_to_string("/proc/meminfo")
        .ok()
        .and_then(|s| {
            s.lines().find(|l| l.starts_with("MemAvailable:")).and_then(|l| l.split_whitespace().nth(1).and_then(|x| x.parse::<f64>().ok()))
        })
        .map(|kb| kb / 1048576.0)
        .unwrap_or(0.0)
}

fn run_big_mode(o: &mut Outcome, mode: &str) {
    use crate::fw::children::{ChildEnd, run_self};
    let need = match mode {
        "text2g" => 8.0,
        "body4g-lz4" => 16.0,
        _ => 12.0,
    };
    let avail = mem_available_gb();
    if avail < need {
        o.inconclusive(format!("C09 oversize case {mode} skipped: {avail:.1} GB memory available, {need} GB needed"));
        return;
    }
    let limit = ((avail * 0.9).min(28.0) * 1073741824.0) as u64;
    let r = run_self(&["child".into(), "c09-big".into(), mode.into()], &[], std::time::Duration::from_secs(900), limit);
    o.note(&format!("big:{mode}:wall_s"), json!(r.wall.as_secs_f64()));
    let rp = json!({"big": mode});
    let v: J = match (&r.end, serde_json::from_slice::<J>(&r.stdout)) {
        (ChildEnd::Exit(0), Ok(v)) => v,
        (end, _) => {
            // killed (OOM), allocation failure abort, watchdog: a resource problem of the harness
            o.inconclusive(format!("C09 oversize case {mode}: harness resource error, child ended {end:?}: {}", fw::first_line(r.stderr.trim())));
            return;
        }
    };
    o.note(&format!("big:{mode}"), v.clone());
    o.case(fw::hash_str(mode), true);
    if mode == "text2g" {
        o.class("text:2GiB-statement");
        for k in ["query", "prepare"] {
            match v[k]["end"].as_str() {
                Some("refused") => o.class("refused:text-2GiB"),
                Some("panic") => o.violation(format!("{k}:panic"), format!("{k} with a 2^31-byte statement panicked: {}", v[k]["panic"]), rp.clone()),
                _ => o.violation(
                    format!("{k}:text>2GiB:not-refused"),
                    format!("a 2^31-byte statement text was framed ({}) instead of being refused", v[k]),
                    rp.clone(),
                ),
            }
        }
        return;
    }
    o.class("frame:body-over-4GiB");
    match v["end"].as_str() {
        Some("refused") => o.class("refused:body-over-4GiB"),
        Some("panic") => o.violation(
            format!("query:panic:body-over-4GiB:{mode}"),
            format!("framing a {}-byte QUERY body ({mode}) panicked: {}", v["body_len"], v["panic"]),
            rp,
        ),
        _ => {
            let body_len = v["body_len"].as_u64().unwrap_or(0);
            let carried = v["frame_body_bytes"].as_u64().unwrap_or(0);
            let hl = v["header_length"].as_u64().unwrap_or(0);
            if hl != carried {
                o.violation(
                    if mode == "body4g" { SIG_F5.to_string() } else { format!("frame-length:body-over-4GiB-truncated:{mode}") },
                    format!("QUERY with three 1.5 GB blob values: the frame carries {carried} body bytes but its 32-bit length field says {hl} — truncated instead of refused"),
                    rp,
                );
            } else if mode == "body4g" {
                // cannot happen for an uncompressed body > u32::MAX
                o.violation("frame-length:body-over-4GiB-inconsistent", format!("unexpected report {v}"), rp);
            } else if mode == "body4g-lz4" {
                let prefix = v["lz4_prefix"].as_u64().unwrap_or(0);
                if prefix != body_len {
                    o.violation(
                        "lz4-length-prefix:body-over-4GiB-truncated",
                        format!("LZ4 frame for a {body_len}-byte body: the 4-byte uncompressed-length prefix says {prefix} — the body cannot decompress to the request; truncated instead of refused"),
                        rp,
                    );
                }
            } else {
                o.violation(
                    format!("compressed-body:over-4GiB-not-refused:{mode}"),
                    format!("a {body_len}-byte body was framed with snappy ({v}); snappy cannot describe more than 2^32-1 bytes"),
                    rp,
                );
            }
        }
    }
}

// ---------------------------------------------------------------------------------------------
// Entry points
// ---------------------------------------------------------------------------------------------

fn replay(path: &str) -> Outcome {
    let mut o = Outcome::new();
    let v: J = match std::fs::read_to_string(path).ok().and_then(|s| serde_json::from_str(&s).ok()) {
        Some(v) => v,
        None => {
            o.inconclusive("unreadable replay file");
            return o;
        }
    };
    let r = &v["replay"];
    if let Some(mode) = r["big"].as_str() {
        run_big_mode(&mut o, mode);
        return o;
    }
    let case: Case = match serde_json::from_value(r["case"].clone()) {
        Ok(c) => c,
        Err(e) => {
            o.inconclusive(format!("unrecognised replay file: {e}"));
            return o;
        }
    };
    let comp: Option<Comp> = serde_json::from_value(r["comp"].clone()).unwrap_or(None);
    let tracing = r["tracing"].as_bool().unwrap_or(false);
    let stream = r["stream"].as_i64().unwrap_or(0) as i16;
    let mut cov = Cov::default();
    // the uncompressed frame first (reference body), then the recorded combination
    let mut combos = vec![(None, tracing)];
    if comp.is_some() {
        combos.push((comp, tracing));
    }
    // `run_case` derives the stream of combination i as stream + 257*i
    let base = stream.wrapping_sub((combos.len() as i16 - 1) * 257);
    run_case(&mut o, &mut cov, &case, &combos, base);
    cov.flush(&mut o);
    o
}

pub fn run(ctx: &Ctx) -> Outcome {
    if let Some(p) = &ctx.replay {
        return replay(p);
    }
    if ctx.part.as_deref() == Some("b") {
        return crate::checks::session_e2e::run_c09_b(ctx);
    }
    let mut pre = Outcome::new();
    if let Err(e) = crate::wire::self_test() {
        pre.inconclusive(format!("the independent codec failed its self-test: {e}"));
        return pre;
    }
    let workers = ctx.workers.max(1);
    let n_random = ctx.vol(320_000, 5_000_000);
    let miri = ctx.miri();
    let mut out = fw::par(ctx, workers, |w, mut rng| {
        let mut o = Outcome::new();
        let mut cov = Cov::default();
        // (1) complete grid over the optional fields
        let mut grid_rng = ctx.rng(7);
        let grid = grid_cases(&mut grid_rng);
        let mut masks_seen = [false; 64];
        for (i, case) in grid.iter().enumerate() {
            if i % workers != w || (miri && i % 40 != 0) {
                continue;
            }
            if let Case::Query { params, .. } | Case::Execute { params, .. } = case {
                let mask = (!params.values.is_empty()) as usize
                    | (params.skip_meta as usize) << 1
                    | (params.page_size.is_some() as usize) << 2
                    | (params.paging.is_some() as usize) << 3
                    | (params.serial.is_some() as usize) << 4
                    | (params.ts.is_some() as usize) << 5;
                masks_seen[mask] = true;
            }
            run_case(&mut o, &mut cov, case, &ALL_COMBOS, rng.u32() as i16);
        }
        o.note_add("grid:cases", grid.len() as u64 / workers as u64);
        // (2) boundary cases
        if !miri {
            let bc = boundary_cases();
            for (i, case) in bc.iter().enumerate() {
                if i % workers != w {
                    continue;
                }
                let combos = combos_for(case, false, &mut rng);
                run_case(&mut o, &mut cov, case, &combos, rng.u32() as i16);
            }
        }
        // (3) random cases
        let n = if miri { 20 } else { n_random / workers as u64 };
        for _ in 0..n {
            let case = gen_case(&mut rng);
            let combos = combos_for(&case, false, &mut rng);
            run_case(&mut o, &mut cov, &case, &combos, rng.u32() as i16);
        }
        cov.flush(&mut o);
        o
    });
    // grid completeness is a fact about the generator: all 64 masks x 4 entry points
    {
        let mut r = ctx.rng(7);
        let g = grid_cases(&mut r);
        let mut masks = std::collections::BTreeSet::new();
        for c in &g {
            if let Case::Query { params, .. } | Case::Execute { params, .. } = c {
                masks.insert((
                    c.kind(),
                    matches!(c, Case::Execute { meta_id: Some(_), .. }),
                    !params.values.is_empty(),
                    params.skip_meta,
                    params.page_size.is_some(),
                    params.paging.is_some(),
                    params.serial.is_some(),
                    params.ts.is_some(),
                ));
            }
        }
        out.note("grid:distinct (entry point, optional-field subset)", json!(masks.len()));
        if masks.len() == 256 && !miri {
            out.class("grid:all-64-subsets-x-4-entry-points");
        }
    }
    for c in [
        "grid:all-64-subsets-x-4-entry-points",
        "request:query",
        "request:execute",
        "request:execute-deprecated",
        "execute:result-metadata-id",
        "request:batch",
        "request:prepare",
        "request:startup",
        "request:register",
        "request:register-v2",
        "request:options",
        "request:auth_response",
        "values:0",
        "values:1",
        "values:many",
        "values:65535",
        "value:null",
        "value:unset",
        "value:empty-bytes",
        "paging-state:none",
        "paging-state:empty",
        "paging-state:bytes",
        "compression:none",
        "compression:lz4",
        "compression:snappy",
        "tracing:on",
        "text:multibyte-utf8",
        "text:over-64KiB",
        "id:65535-bytes",
        "batch:0-statements",
        "batch:mixed-prepared-unprepared",
        "batch:65535-statements",
        "refused:65536th-value",
        "refused:id-65536-bytes",
        "refused:65536-statements",
        "refused:fewer-value-lists",
        "refused:more-value-lists",
        "refused:string-65536-bytes",
        "refused:65536-entries",
    ] {
        if !miri {
            out.require_class(c);
        }
    }
    out.sample(json!({"query": "SELECT 1", "consistency": "ONE", "page_size": 100, "timestamp": 7,
        "spec_body_hex": "0000000853454c4543542031000124000000640000000000000007", "note": "flags 0x24 = PAGE_SIZE|TIMESTAMP, fields in flag order"}));
    out.sample(json!({"execute": {"id_len": 65536}, "expected": "refused (a [short bytes] length is 16 bits)"}));
    out.sample(json!({"batch": {"statements": 3, "value_lists": 2}, "expected": "refused: value lists != statements"}));
    out.sample(json!({"batch": {"statements": 65536}, "expected": "refused, never a frame whose <n> says 0"}));
    out.sample(json!({"query": {"values": ["null(-1)", "unset(-2)", "empty(0)", "03 616263"]}, "compression": "lz4", "expected": "4-byte BE length + LZ4 block that decompresses to the uncompressed body"}));
    out.sample(json!({"query": {"values": "3 x 1.5 GB blobs"}, "expected": "refused (body > 2^32-1 bytes); thorough tier, child process"}));
    out.exhaustive = Some(false);
    out.note(
        "exhaustive_part",
        json!("QUERY / EXECUTE (with, without result-metadata id, deprecated Execute): all 64 subsets of {values, skip_metadata, page_size, paging_state, serial_consistency, timestamp} x value-list shapes x paging-state shapes x {none, lz4, snappy} x tracing"),
    );
    // (4) oversize bodies: thorough tier only, after everything else, one child at a time,
    //     the uncompressed > 4 GiB body last.
    //     `--big=0` (used by extra build variants) skips them: they need 9 GB and decide the
    //     same fact in every variant.
    let big = ctx.extra.get("big").map(|s| s.as_str()) != Some("0");
    if !ctx.quick() && !miri && big {
        for mode in ["text2g", "body4g-snappy", "body4g-lz4", "body4g"] {
            run_big_mode(&mut out, mode);
        }
        out.require_class("frame:body-over-4GiB");
        out.require_class("text:2GiB-statement");
    }
    out
}
