//! C03 — the routing token equals the server-side partitioner's token for the bound key.
//!
//! Oracle: `refmodel::murmur3` (one-shot Cassandra Murmur3 / composite encoding / CDC
//! token, validated against pinned Cassandra vectors before anything is judged).
//!
//! Workload A drives the public streaming hashers (`scylla::routing::partitioner`)
//! with the same bytes cut into chunks in every / many ways (part "A"). Workload M feeds
//! crafted PREPARED results to the public scylla-cql decoder (part "M"). Workload P
//! (part "P") obtains real `PreparedStatement`s and a real `ClusterState` from a session
//! that talks to a ~300-line private CQL responder (`c03/responder.rs`), whose PREPARE
//! answers carry 0..12 key components at any permutation of up to 16 blob bind markers;
//! `check_prepared` is the monitor for `PreparedStatement::{compute_partition_key,
//! calculate_token}` and is public so that the shared mock cluster can feed it as well;
//! `ClusterState::compute_token` is judged for tables with 1..8 key columns. (The
//! `compute_token_preserialized*` functions and `internal_testing` are behind
//! `cfg(scylla_unstable)` + features and are therefore not used.)
use crate::fw::{self, Ctx, Outcome, Rng};
use crate::refmodel::murmur3 as model;
use scylla::cluster::ClusterState;
use scylla::frame::response::result::{ColumnType, NativeType};
use scylla::routing::partitioner::{CDCPartitioner, Murmur3Partitioner, Partitioner, PartitionerHasher, PartitionerName};
use scylla::statement::prepared::PreparedStatement;
use serde_json::{Value, json};

pub mod responder;
use responder::{Shape, TableDesc};

const TABLE_PATH: &str = "/verif/tables/murmur3.json";
const DISTINCT_CAP_PER_WORKER: usize = 300_000;

/// Hot-path coverage counters (a `BTreeMap<String, _>` update per case would dominate
/// the run); flushed into the outcome by `flush_cls`.
const HOT: [&str; 14] = ["A:cdc-first8-is-i64-min", "A:cdc-key-8-or-longer", "A:cdc-key-shorter-than-8", "A:chunk-appended-to-nonempty-buffer", "A:chunk-completes-a-pending-block", "A:chunk-crosses-boundary-and-leaves-a-rest", "A:chunk-ends-exactly-on-block-boundary", "A:empty-chunk", "A:finish-called-mid-stream", "A:len-multiple-of-16", "A:raw-hash-is-i64-min", "A:signed-tail-changes-the-hash", "A:tail-has-byte>=0x80", "A:tail-longer-than-8"];
thread_local! {
    static HOT_COUNTS: std::cell::RefCell<[u64; 14]> = const { std::cell::RefCell::new([0; 14]) };
}
fn cls(name: &'static str) {
    let i = HOT.iter().position(|h| *h == name).expect("hot class registered");
    HOT_COUNTS.with(|c| c.borrow_mut()[i] += 1);
}
fn flush_cls(o: &mut Outcome) {
    HOT_COUNTS.with(|c| {
        for (i, n) in c.borrow_mut().iter_mut().enumerate() {
            if *n > 0 {
                o.class_n(HOT[i], *n);
                *n = 0;
            }
        }
    });
}
thread_local! {
    static BEYOND_CAP: std::cell::Cell<u64> = const { std::cell::Cell::new(0) };
}

// ---------------------------------------------------------------------------
// Which public partitioner is driven
// ---------------------------------------------------------------------------

#[derive(Clone, Copy, PartialEq, Eq, Debug)]
enum Part {
    /// `Murmur3Partitioner` (concrete hasher)
    M3,
    /// `PartitionerName::Murmur3` (enum-dispatched hasher, the one requests use)
    M3Any,
    Cdc,
    CdcAny,
}

const PARTS: [Part; 4] = [Part::M3, Part::M3Any, Part::Cdc, Part::CdcAny];

impl Part {
    fn name(self) -> &'static str {
        match self {
            Part::M3 => "murmur3",
            Part::M3Any => "murmur3-any",
            Part::Cdc => "cdc",
            Part::CdcAny => "cdc-any",
        }
    }
    fn from_name(s: &str) -> Option<Part> {
        PARTS.iter().copied().find(|p| p.name() == s)
    }
    fn is_cdc(self) -> bool {
        matches!(self, Part::Cdc | Part::CdcAny)
    }
    fn idx(self) -> u8 {
        self as u8
    }
}

fn want_token(part: Part, data: &[u8]) -> i64 {
    if part.is_cdc() { model::cdc_token(data).value() } else { model::murmur3_token(data) }
}

/// Feeds `data` cut at `cuts` (sorted positions in 0..=len; k cuts give k+1 chunks, equal
/// neighbours give empty chunks). With `mid`, `finish()` is also called after every
/// chunk but the last; those values are returned too.
fn feed<P: Partitioner>(p: &P, data: &[u8], cuts: &[usize], mid: bool) -> (i64, Vec<i64>) {
    let mut h = p.build_hasher();
    let mut mids = Vec::new();
    let mut start = 0usize;
    for &c in cuts {
        h.write(&data[start..c]);
        if mid {
            mids.push(h.finish().value());
        }
        start = c;
    }
    h.write(&data[start..]);
    let first = h.finish().value();
    // finish() takes &self: a second call must see the same state (reported separately)
    let second = h.finish().value();
    if first != second {
        std::panic::panic_any(format!("finish() is not repeatable: {first} then {second}"));
    }
    (first, mids)
}

fn run_stream(part: Part, data: &[u8], cuts: &[usize], mid: bool) -> Result<(i64, Vec<i64>), String> {
    fw::catch(|| match part {
        Part::M3 => feed(&Murmur3Partitioner, data, cuts, mid),
        Part::M3Any => feed(&PartitionerName::Murmur3, data, cuts, mid),
        Part::Cdc => feed(&CDCPartitioner, data, cuts, mid),
        Part::CdcAny => feed(&PartitionerName::CDC, data, cuts, mid),
    })
}

fn hash_one(part: Part, data: &[u8]) -> Result<i64, String> {
    fw::catch(|| match part {
        Part::M3 => Murmur3Partitioner.hash_one(data).value(),
        Part::M3Any => PartitionerName::Murmur3.hash_one(data).value(),
        Part::Cdc => CDCPartitioner.hash_one(data).value(),
        Part::CdcAny => PartitionerName::CDC.hash_one(data).value(),
    })
}

fn stream_replay(part: Part, data: &[u8], cuts: &[usize], mid: bool) -> Value {
    json!({"kind":"stream","part":part.name(),"data":fw::hex(data),"cuts":cuts,"mid":mid})
}

fn case_key(tag: u8, part: Part, mid: bool, data: &[u8], cuts: &[usize]) -> u64 {
    let mut b = Vec::with_capacity(data.len() + 2 * cuts.len() + 4);
    b.push(tag);
    b.push(part.idx());
    b.push(mid as u8);
    b.extend_from_slice(data);
    b.push(0xfe);
    for c in cuts {
        b.extend_from_slice(&(*c as u32).to_le_bytes());
    }
    fw::hash64(&b)
}

/// `Outcome::case` with the distinct-tracking cap (see `check_stream`).
fn case_capped(o: &mut Outcome, key_bytes: &[u8], nontrivial: bool) {
    if o.distinct.len() < DISTINCT_CAP_PER_WORKER {
        o.case(fw::hash64(key_bytes), nontrivial);
    } else {
        o.evals(1);
        BEYOND_CAP.with(|c| c.set(c.get() + 1));
    }
}

/// Data-level coverage classes (independent of the chunking).
fn classify_data(part: Part, data: &[u8]) {
    let len = data.len();
    if part.is_cdc() {
        match model::cdc_token(data) {
            model::CdcToken::Minimum => cls("A:cdc-key-shorter-than-8"),
            model::CdcToken::Key(_) => {
                cls("A:cdc-key-8-or-longer");
                if data[..8] == [0x80, 0, 0, 0, 0, 0, 0, 0] {
                    cls("A:cdc-first8-is-i64-min");
                }
            }
        }
        return;
    }
    if len % 16 == 0 && len > 0 {
        cls("A:len-multiple-of-16");
    }
    if len % 16 > 8 {
        cls("A:tail-longer-than-8");
    }
    let tail = &data[len - len % 16..];
    if tail.iter().any(|b| *b >= 0x80) {
        cls("A:tail-has-byte>=0x80");
    }
    if model::hash128(data, 0, model::Tail::Signed) != model::hash128(data, 0, model::Tail::Unsigned) {
        cls("A:signed-tail-changes-the-hash");
    }
    if model::raw_hash(data) == i64::MIN {
        cls("A:raw-hash-is-i64-min");
    }
}

/// Chunking-level coverage classes for the 16-byte-block hasher.
fn classify_cuts(len: usize, cuts: &[usize]) {
    let mut start = 0usize;
    let mut completes = false;
    let mut crosses_with_rest = false;
    let mut stays = false;
    let mut empty = false;
    let mut exact = false;
    for e in cuts.iter().copied().chain(std::iter::once(len)) {
        let s = start;
        if e == s {
            empty = true;
        } else if s % 16 != 0 {
            let boundary = (s / 16 + 1) * 16;
            if e < boundary {
                stays = true;
            } else {
                completes = true;
                if e == boundary {
                    exact = true;
                } else if e % 16 != 0 {
                    crosses_with_rest = true;
                }
            }
        }
        start = e;
    }
    if completes {
        cls("A:chunk-completes-a-pending-block");
    }
    if exact {
        cls("A:chunk-ends-exactly-on-block-boundary");
    }
    if crosses_with_rest {
        cls("A:chunk-crosses-boundary-and-leaves-a-rest");
    }
    if stays {
        cls("A:chunk-appended-to-nonempty-buffer");
    }
    if empty {
        cls("A:empty-chunk");
    }
}

/// One (partitioner, bytes, chunking, mid-finish) execution judged against the model.
fn check_stream(o: &mut Outcome, part: Part, data: &[u8], cuts: &[usize], mid: bool, want: i64, classify: bool) {
    // distinct cases are tracked in a hash set; beyond a per-worker cap further cases are
    // only counted as evaluations (the reported distinct count is then a lower bound)
    if o.distinct.len() < DISTINCT_CAP_PER_WORKER {
        o.case(case_key(1, part, mid, data, cuts), !data.is_empty());
    } else {
        o.evals(1);
        BEYOND_CAP.with(|c| c.set(c.get() + 1));
    }
    if classify && !part.is_cdc() {
        classify_cuts(data.len(), cuts);
    }
    if mid && !cuts.is_empty() {
        cls("A:finish-called-mid-stream");
    }
    match run_stream(part, data, cuts, mid) {
        Err(p) => o.violation(
            format!("A:{}:panic", part.name()),
            format!("{} hasher panicked on {} bytes cut at {:?} (mid-finish={mid}): {}", part.name(), data.len(), cuts, fw::first_line(&p)),
            stream_replay(part, data, cuts, mid),
        ),
        Ok((got, mids)) => {
            if got != want {
                let class = if !part.is_cdc() && model::raw_hash(data) == i64::MIN && got == i64::MIN {
                    "min-not-normalised"
                } else if part.is_cdc() && want == i64::MAX && got == i64::MIN {
                    "min-not-normalised"
                } else if cuts.is_empty() {
                    "oneshot-vs-model"
                } else {
                    "chunked-vs-model"
                };
                o.violation(
                    format!("A:{}:{class}", part.name()),
                    format!(
                        "{} hasher: {} bytes {} cut at {:?} (mid-finish={mid}) gave token {got}, the server-side partitioner gives {want}",
                        part.name(),
                        data.len(),
                        fw::hex(&data[..data.len().min(48)]),
                        cuts
                    ),
                    stream_replay(part, data, cuts, mid),
                );
            }
            if mid {
                // every prefix is judged unless that costs more than ~8 KiB of model hashing;
                // then the first three and the last three
                let all = cuts.len() * data.len() <= 8192;
                for (i, m) in mids.iter().enumerate().take(cuts.len()) {
                    if !all && i >= 3 && i + 3 < cuts.len() {
                        continue;
                    }
                    let w = want_token(part, &data[..cuts[i]]);
                    if *m != w {
                        o.violation(
                            format!("A:{}:mid-finish-vs-model", part.name()),
                            format!(
                                "{} hasher: finish() after the first {} of {} bytes (cuts {:?}) gave {m}, the token of that prefix is {w}",
                                part.name(),
                                cuts[i],
                                data.len(),
                                cuts
                            ),
                            stream_replay(part, data, cuts, mid),
                        );
                        break;
                    }
                }
            }
        }
    }
}

/// `hash_one` (the trait's convenience one-shot) against the model.
fn check_hash_one(o: &mut Outcome, part: Part, data: &[u8], want: i64) {
    o.case(case_key(2, part, false, data, &[]), !data.is_empty());
    match hash_one(part, data) {
        Err(p) => o.violation(
            format!("A:{}:hash_one-panic", part.name()),
            format!("{}::hash_one panicked on {} bytes: {}", part.name(), data.len(), fw::first_line(&p)),
            json!({"kind":"hash_one","part":part.name(),"data":fw::hex(data)}),
        ),
        Ok(got) if got != want => o.violation(
            format!("A:{}:hash_one-vs-model", part.name()),
            format!("{}::hash_one({}) = {got}, the server-side partitioner gives {want}", part.name(), fw::hex(&data[..data.len().min(48)])),
            json!({"kind":"hash_one","part":part.name(),"data":fw::hex(data)}),
        ),
        Ok(_) => {}
    }
}

// ---------------------------------------------------------------------------
// Generators
// ---------------------------------------------------------------------------

/// 0..=70 and every multiple of 16 up to 208 with its two neighbours.
fn grid_lengths(max_dense: usize, max_mult: usize) -> Vec<usize> {
    let mut v: Vec<usize> = (0..=max_dense).collect();
    let mut m = 16;
    while m <= max_mult {
        v.extend([m - 1, m, m + 1]);
        m += 16;
    }
    v.sort_unstable();
    v.dedup();
    v
}

const BYTE_CLASSES: [&str; 9] = ["00", "7f", "80", "ff", "random", "random2", "random-high", "index", "lastneg"];

fn bytes_of_class(class: &str, len: usize, rng: &mut Rng) -> Vec<u8> {
    match class {
        "00" => vec![0x00; len],
        "7f" => vec![0x7f; len],
        "80" => vec![0x80; len],
        "ff" => vec![0xff; len],
        "random" | "random2" => rng.bytes(len),
        "random-high" => rng.bytes(len).into_iter().map(|b| b | 0x80).collect(),
        // position-dependent bytes, every other one negative: detects misplaced bytes
        "index" => (0..len).map(|i| ((i as u8).wrapping_mul(7).wrapping_add(1)) ^ if i % 2 == 1 { 0x80 } else { 0 }).collect(),
        // only the very last byte is >= 0x80: the smallest witness of the sign extension
        _ => {
            let mut v: Vec<u8> = rng.bytes(len).into_iter().map(|b| b & 0x7f).collect();
            if let Some(l) = v.last_mut() {
                *l |= 0x80;
            }
            if len >= 2 {
                v[len - 2] |= 0x80;
            }
            v
        }
    }
}

fn random_len(rng: &mut Rng) -> usize {
    match rng.below(10) {
        0..=3 => rng.usize(0, 70),
        4..=7 => {
            let m = 16 * if rng.chance(1, 8) { rng.usize(1, 64) } else { rng.usize(1, 16) };
            (m as i64 + rng.range(-2, 2)).max(0) as usize
        }
        _ => rng.usize(0, 600),
    }
}

fn random_cuts(rng: &mut Rng, len: usize) -> Vec<usize> {
    let k = match rng.below(4) {
        0 => rng.usize(1, 3),
        1 => rng.usize(1, 12),
        2 => rng.usize(1, (len + 1).min(40)),
        _ => rng.usize(0, 6),
    };
    let mut cuts: Vec<usize> = (0..k)
        .map(|_| {
            if rng.bool() || len < 16 {
                rng.usize(0, len)
            } else {
                // near a block boundary
                let b = 16 * rng.usize(0, len / 16);
                ((b as i64 + rng.range(-2, 2)).max(0) as usize).min(len)
            }
        })
        .collect();
    cuts.sort_unstable();
    cuts
}

fn fixed_chunking(len: usize, step: usize) -> Vec<usize> {
    (1..).map(|i| i * step).take_while(|c| *c < len).collect()
}

// ---------------------------------------------------------------------------
// Workload A
// ---------------------------------------------------------------------------

struct AParams {
    classes: Vec<&'static str>,
    parts: Vec<Part>,
    lens: Vec<usize>,
    two_cut_max: usize,
    three_cut_max: usize,
    random_chunkings_per_data: usize,
    random_cases: u64,
    min_preimages: u64,
}

fn a_params(ctx: &Ctx) -> AParams {
    if ctx.miri() {
        // the interpreter runs ~10^4 times slower and threads one at a time
        return AParams {
            classes: vec!["ff", "random"],
            parts: vec![Part::M3, Part::Cdc],
            lens: vec![0, 1, 7, 8, 9, 15, 16, 17, 33],
            two_cut_max: 9,
            three_cut_max: 0,
            random_chunkings_per_data: 1,
            random_cases: 60,
            min_preimages: 4,
        };
    }
    AParams {
        classes: BYTE_CLASSES.to_vec(),
        parts: PARTS.to_vec(),
        lens: grid_lengths(70, 208),
        two_cut_max: if ctx.quick() { 48 } else { 97 },
        three_cut_max: if ctx.quick() { 20 } else { 33 },
        random_chunkings_per_data: if ctx.quick() { 60 } else { 600 },
        random_cases: ctx.vol(3_000_000, 60_000_000),
        min_preimages: ctx.vol(20_000, 1_000_000),
    }
}

/// Everything that is run for one byte string on the grid.
fn a_grid_one(o: &mut Outcome, p: &AParams, part: Part, data: &[u8], rng: &mut Rng) {
    let len = data.len();
    let want = want_token(part, data);
    classify_data(part, data);
    check_hash_one(o, part, data, want);
    check_stream(o, part, data, &[], false, want, true);
    // every single cut, with and without mid-stream finish()
    for c in 0..=len {
        check_stream(o, part, data, &[c], false, want, true);
        check_stream(o, part, data, &[c], true, want, false);
    }
    // every 2-cut chunking (three chunks, empty ones included)
    if len <= p.two_cut_max {
        for a in 0..=len {
            for b in a..=len {
                check_stream(o, part, data, &[a, b], false, want, true);
                check_stream(o, part, data, &[a, b], true, want, false);
            }
        }
        o.class("A:all-2-cut-chunkings-of-a-string");
    }
    if len <= p.three_cut_max && !part.is_cdc() {
        for a in 0..=len {
            for b in a..=len {
                for c in b..=len {
                    check_stream(o, part, data, &[a, b, c], false, want, false);
                }
            }
        }
        o.class("A:all-3-cut-chunkings-of-a-string");
    }
    for step in [1usize, 2, 3, 5, 7, 8, 9, 15, 16, 17, 31, 32, 33] {
        if step < len {
            let cuts = fixed_chunking(len, step);
            check_stream(o, part, data, &cuts, step % 2 == 1, want, true);
        }
    }
    for _ in 0..p.random_chunkings_per_data {
        let cuts = random_cuts(rng, len);
        let mid = rng.chance(1, 4);
        check_stream(o, part, data, &cuts, mid, want, true);
    }
}

fn min_preimage(rng: &mut Rng) -> Vec<u8> {
    let blocks = rng.usize(0, 3);
    let prefix = rng.bytes(16 * blocks);
    let tail = match rng.below(3) {
        0 => Vec::new(),
        _ => {
            let n = rng.usize(1, 15);
            rng.bytes(n)
        }
    };
    model::preimage(&prefix, &tail, 1u64 << 63, rng.u64()).expect("preimage shape")
}

fn workload_a(ctx: &Ctx, w: usize, workers: usize, mut rng: Rng) -> Outcome {
    let mut o = Outcome::new();
    let p = a_params(ctx);
    // (1) grid: lengths x byte classes x parts, chunkings enumerated
    let mut job = 0usize;
    'grid: for (li, len) in p.lens.iter().enumerate() {
        for (ci, class) in p.classes.iter().enumerate() {
            for part in p.parts.iter().copied() {
                job += 1;
                if job % workers != w {
                    continue;
                }
                if fw::stop_early(&mut o) {
                    break 'grid;
                }
                // the data of a grid cell depends only on (seed, length, class), not on the worker count
                let mut drng = ctx.rng(50_000 + (li * BYTE_CLASSES.len() + ci) as u64);
                let data = bytes_of_class(class, *len, &mut drng);
                a_grid_one(&mut o, &p, part, &data, &mut rng);
            }
        }
    }
    // (2) keys whose raw Murmur3 value is exactly Long.MIN_VALUE (built by inverting the hash)
    for i in 0..p.min_preimages {
        if i as usize % workers != w {
            continue;
        }
        let data = min_preimage(&mut rng);
        let part = if rng.bool() { Part::M3 } else { Part::M3Any };
        let want = want_token(part, &data);
        classify_data(part, &data);
        check_hash_one(&mut o, part, &data, want);
        check_stream(&mut o, part, &data, &[], false, want, true);
        for _ in 0..3 {
            let cuts = random_cuts(&mut rng, data.len());
            check_stream(&mut o, part, &data, &cuts, rng.bool(), want, true);
        }
    }
    // CDC keys whose first 8 bytes are i64::MIN (normalised like every token)
    if w == 0 {
        for extra in [0usize, 1, 8, 40] {
            let mut data = vec![0x80u8, 0, 0, 0, 0, 0, 0, 0];
            data.extend(rng.bytes(extra));
            for part in [Part::Cdc, Part::CdcAny] {
                let want = want_token(part, &data);
                classify_data(part, &data);
                check_hash_one(&mut o, part, &data, want);
                for c in 0..=data.len() {
                    check_stream(&mut o, part, &data, &[c], true, want, false);
                }
            }
        }
    }
    // (3) random: length, bytes, partitioner, chunking
    let n = p.random_cases / workers as u64;
    let mut i = 0u64;
    let mut next_stop_check = 0u64;
    while i < n {
        if i >= next_stop_check {
            if fw::stop_early(&mut o) {
                break;
            }
            next_stop_check = i + 4096;
        }
        let len = random_len(&mut rng);
        let class = *rng.pick(&BYTE_CLASSES);
        let data = bytes_of_class(class, len, &mut rng);
        let part = match rng.below(10) {
            0..=4 => Part::M3,
            5..=7 => Part::M3Any,
            8 => Part::Cdc,
            _ => Part::CdcAny,
        };
        let want = want_token(part, &data);
        classify_data(part, &data);
        let reps = 1 + rng.below(8);
        for _ in 0..reps {
            let cuts = random_cuts(&mut rng, len);
            let mid = rng.chance(1, 4);
            check_stream(&mut o, part, &data, &cuts, mid, want, true);
            i += 1;
        }
    }
    o.class("A:random");
    flush_cls(&mut o);
    o.note_add("cases_counted_beyond_the_distinct_tracking_cap", BEYOND_CAP.with(|c| c.replace(0)));
    o
}

// ---------------------------------------------------------------------------
// Workload M: the PREPARED metadata decoder (public scylla-cql API, no session)
// ---------------------------------------------------------------------------

fn random_shape(rng: &mut Rng, tables: &[&str]) -> Shape {
    let k = match rng.below(12) {
        0 => 0,
        1 => rng.usize(9, 12),
        _ => rng.usize(1, 8),
    };
    let markers = if rng.chance(1, 4) { k.max(1) } else { rng.usize(k.max(1), 16.max(k)) };
    let mut all: Vec<usize> = (0..markers).collect();
    rng.shuffle(&mut all);
    let mut key_markers: Vec<usize> = all[..k].to_vec();
    if rng.chance(1, 6) {
        key_markers.sort_unstable(); // markers in key order: the shape tests usually have
    }
    Shape { ks: "ks".into(), table: (*rng.pick(tables)).to_owned(), global: !rng.chance(1, 4), markers, key_markers }
}

fn shape_json(s: &Shape) -> Value {
    json!({"ks": s.ks, "table": s.table, "global": s.global, "markers": s.markers, "key_markers": s.key_markers})
}

fn shape_from_json(v: &Value) -> Option<Shape> {
    Some(Shape {
        ks: v["ks"].as_str()?.to_owned(),
        table: v["table"].as_str()?.to_owned(),
        global: v["global"].as_bool()?,
        markers: v["markers"].as_u64()? as usize,
        key_markers: v["key_markers"].as_array()?.iter().map(|x| x.as_u64().map(|x| x as usize)).collect::<Option<Vec<_>>>()?,
    })
}

/// A crafted RESULT/PREPARED body through the real decoder: the (marker, key position)
/// pairs it reports must be the ones the body carries.
fn check_metadata_decode(o: &mut Outcome, shape: &Shape) {
    use scylla_cql::frame::protocol_features::ProtocolFeatures;
    use scylla_cql::frame::response::result as cqlres;
    let body = responder::prepared_result_body(shape, b"id");
    o.case(fw::hash64(format!("M:{}", shape.statement_text()).as_bytes()), !shape.key_markers.is_empty());
    o.class("M:prepared-metadata-decoded");
    let replay = json!({"kind":"metadata","shape": shape_json(shape)});
    let r = fw::catch(|| cqlres::deserialize_with_features(bytes::Bytes::from(body), None, &ProtocolFeatures::default()));
    match r {
        Err(p) => o.violation("M:decode-panic", format!("decoding a PREPARED result for {} panicked: {}", shape.statement_text(), fw::first_line(&p)), replay),
        Ok(Err(e)) => o.violation("M:decode-error", format!("decoding a well-formed PREPARED result for {} failed: {e}", shape.statement_text()), replay),
        Ok(Ok(cqlres::Result::Prepared(p))) => {
            let mut got: Vec<(usize, usize)> = p.prepared_metadata.pk_indexes.iter().map(|x| (x.index as usize, x.sequence as usize)).collect();
            got.sort_unstable();
            let mut want: Vec<(usize, usize)> = shape.key_markers.iter().enumerate().map(|(seq, m)| (*m, seq)).collect();
            want.sort_unstable();
            if got != want || p.prepared_metadata.col_specs.len() != shape.markers {
                o.violation(
                    "M:pk-indexes-decoded-wrong",
                    format!("PREPARED metadata carries (marker, key position) pairs {want:?} over {} markers; decoded {got:?} over {}", shape.markers, p.prepared_metadata.col_specs.len()),
                    replay,
                );
            }
        }
        Ok(Ok(_)) => o.violation("M:decode-kind", "a PREPARED result decoded as another result kind".to_string(), replay),
    }
}

fn workload_m(ctx: &Ctx, mut rng: Rng) -> Outcome {
    let mut o = Outcome::new();
    let n = if ctx.miri() { 30 } else { ctx.vol(100_000, 2_000_000) };
    for i in 0..n {
        if i % 4096 == 0 && fw::stop_early(&mut o) {
            break;
        }
        let s = random_shape(&mut rng, &["m3", "cdc"]);
        check_metadata_decode(&mut o, &s);
    }
    o
}

// ---------------------------------------------------------------------------
// Workload P: prepared statements and ClusterState::compute_token over a session that
// talks to the private responder (checks/c03/responder.rs)
// ---------------------------------------------------------------------------

const P_TABLES: [(&str, ExpectedPartitioner); 5] = [
    ("m3", ExpectedPartitioner::Murmur3),
    ("cdc", ExpectedPartitioner::Cdc),
    ("nullpart", ExpectedPartitioner::Murmur3),
    ("unkpart", ExpectedPartitioner::Murmur3),
    ("ghost", ExpectedPartitioner::Murmur3), // not in the schema at all
];

/// Column names of the k partition-key columns of table `pk<k>`, in key order; chosen so
/// that name order differs from key order.
fn pk_names(k: usize) -> Vec<String> {
    (0..k).map(|i| format!("c{}_{i}", (i * 5 + 3) % 7)).collect()
}

fn served_tables() -> Vec<TableDesc> {
    let mut t = vec![
        TableDesc { name: "m3".into(), pk_names: vec!["k0".into()], partitioner: Some(Some(responder::MURMUR3_NAME.into())) },
        TableDesc { name: "cdc".into(), pk_names: vec!["k0".into()], partitioner: Some(Some(responder::CDC_NAME.into())) },
        TableDesc { name: "nullpart".into(), pk_names: vec!["k0".into()], partitioner: Some(None) },
        TableDesc { name: "unkpart".into(), pk_names: vec!["k0".into()], partitioner: Some(Some(responder::UNKNOWN_NAME.into())) },
    ];
    for k in 1..=8 {
        t.push(TableDesc { name: format!("pk{k}"), pk_names: pk_names(k), partitioner: if k % 2 == 0 { None } else { Some(Some(responder::MURMUR3_NAME.into())) } });
    }
    t
}

struct MockSession {
    rt: tokio::runtime::Runtime,
    session: scylla::client::session::Session,
    responder: responder::Responder,
}

const NET_TIMEOUT: std::time::Duration = std::time::Duration::from_secs(20);

fn mock_session() -> Result<MockSession, String> {
    let responder = responder::Responder::start(served_tables()).map_err(|e| format!("responder: {e}"))?;
    let rt = tokio::runtime::Builder::new_current_thread().enable_all().build().map_err(|e| e.to_string())?;
    let addr = responder.addr;
    let session = rt
        .block_on(async {
            tokio::time::timeout(NET_TIMEOUT, scylla::client::session_builder::SessionBuilder::new().known_node_addr(addr).build()).await
        })
        .map_err(|_| "session build timed out".to_string())?
        .map_err(|e| format!("session build failed: {e}"))?;
    Ok(MockSession { rt, session, responder })
}

fn prepare(ms: &MockSession, shape: &Shape) -> Result<PreparedStatement, String> {
    let text = shape.statement_text();
    ms.rt
        .block_on(async { tokio::time::timeout(NET_TIMEOUT, ms.session.prepare(text)).await })
        .map_err(|_| "prepare timed out".to_string())?
        .map_err(|e| format!("prepare failed: {e}"))
}

fn random_marker_values(rng: &mut Rng, shape: &Shape) -> Vec<Option<Vec<u8>>> {
    (0..shape.markers)
        .map(|i| {
            let is_key = shape.key_markers.contains(&i);
            if !is_key && rng.chance(1, 5) {
                return None;
            }
            let l = component_len(rng);
            let class = *rng.pick(&BYTE_CLASSES);
            Some(bytes_of_class(class, l, rng))
        })
        .collect()
}

fn component_len(rng: &mut Rng) -> usize {
    match rng.below(200) {
        0..=19 => 0,
        20..=109 => rng.usize(1, 70),
        110..=169 => (16 * rng.usize(1, 13) as i64 + rng.range(-1, 1)) as usize,
        170..=189 => *rng.pick(&[255usize, 256, 257, 511, 512]),
        190..=197 => rng.usize(0, 2000),
        198 => 4096,
        _ => *rng.pick(&[65535usize, 65534, 32768, 32767]),
    }
}

fn prepared_replay(shape: &Shape, values: &[Option<Vec<u8>>]) -> Value {
    json!({"kind":"prepared","shape": shape_json(shape),
           "values": values.iter().map(|v| v.as_ref().map(|b| fw::hex(b))).collect::<Vec<_>>()})
}

fn expected_partitioner(table: &str) -> ExpectedPartitioner {
    P_TABLES.iter().find(|t| t.0 == table).map(|t| t.1).unwrap_or(ExpectedPartitioner::Murmur3)
}

fn run_prepared_case(o: &mut Outcome, ps: &PreparedStatement, shape: &Shape, values: &[Option<Vec<u8>>]) {
    let case = PreparedCase { marker_values: values, key_markers: &shape.key_markers, partitioner: expected_partitioner(&shape.table) };
    check_prepared(o, ps, &case, &|| prepared_replay(shape, values));
}

/// `ClusterState::compute_token(ks, table, values in key order)` for table `pk<k>`.
fn check_compute_token(o: &mut Outcome, state: &ClusterState, comps: &[Vec<u8>]) {
    let k = comps.len();
    let table = format!("pk{k}");
    let refs: Vec<&[u8]> = comps.iter().map(|c| &c[..]).collect();
    let mut kb = vec![5u8, k as u8];
    for c in comps {
        kb.extend_from_slice(&(c.len() as u32).to_le_bytes());
        kb.extend_from_slice(c);
    }
    case_capped(o, &kb, true);
    o.class(&format!("T:compute_token-components={k}"));
    let Some(key) = model::composite(&refs) else { return };
    let want = model::murmur3_token(&key);
    let replay = || json!({"kind":"compute_token","components": comps.iter().map(|c| fw::hex(c)).collect::<Vec<_>>()});
    let lens: Vec<usize> = comps.iter().map(|c| c.len()).collect();
    let values: Vec<Vec<u8>> = comps.to_vec();
    match fw::catch(|| state.compute_token("ks", &table, &values).map(|t| t.value())) {
        Err(p) => o.violation("T:compute_token:panic", format!("ClusterState::compute_token panicked for component lengths {lens:?}: {}", fw::first_line(&p)), replay()),
        Ok(Err(e)) => o.violation("T:compute_token:error", format!("ClusterState::compute_token(ks.{table}) failed for component lengths {lens:?}: {e}"), replay()),
        Ok(Ok(got)) if got != want => o.violation(
            format!("T:compute_token:{}-vs-model", if k > 1 { "composite" } else { "single" }),
            format!("ClusterState::compute_token(ks.{table}) for component lengths {lens:?} is {got}; the server computes {want}"),
            replay(),
        ),
        Ok(Ok(_)) => {}
    }
}

fn workload_p(ctx: &Ctx, w: usize, workers: usize, mut rng: Rng) -> Outcome {
    let mut o = Outcome::new();
    let ms = match mock_session() {
        Ok(ms) => ms,
        Err(e) => {
            o.inconclusive(format!("workload P: no session with the private responder: {}", fw::first_line(&e)));
            return o;
        }
    };
    let tables: Vec<&str> = P_TABLES.iter().map(|t| t.0).collect();
    // (1) prepared shapes
    let shapes = ctx.vol(48_000, 600_000) / workers as u64;
    let values_per_shape = 6;
    let mut failures = 0u32;
    for i in 0..shapes {
        if i % 64 == 0 && fw::stop_early(&mut o) {
            break;
        }
        let mut shape = random_shape(&mut rng, &tables);
        if shape.table == "cdc" {
            // CDC log tables have a single partition-key column
            shape.key_markers.truncate(1);
        }
        // every permutation of a 3-component key over 3..=4 markers appears early and deterministically
        if i < 30 && w == 0 {
            let perms: [[usize; 3]; 6] = [[0, 1, 2], [0, 2, 1], [1, 0, 2], [1, 2, 0], [2, 0, 1], [2, 1, 0]];
            let p = perms[(i % 6) as usize];
            let shift = (i / 6 % 2) as usize;
            shape = Shape { ks: "ks".into(), table: "m3".into(), global: i % 4 != 3, markers: 3 + shift + (i / 12) as usize, key_markers: p.iter().map(|m| m + shift).collect() };
        }
        let ps = match prepare(&ms, &shape) {
            Ok(ps) => ps,
            Err(e) => {
                failures += 1;
                if failures > 3 {
                    o.inconclusive(format!("workload P: prepare keeps failing against the private responder: {}", fw::first_line(&e)));
                    break;
                }
                continue;
            }
        };
        for _ in 0..values_per_shape {
            let values = random_marker_values(&mut rng, &shape);
            run_prepared_case(&mut o, &ps, &shape, &values);
        }
    }
    // (2) ClusterState::compute_token with the schema the responder served
    let state = ms.session.get_cluster_state();
    let n = ctx.vol(200_000, 4_000_000) / workers as u64;
    for i in 0..n {
        if i % 4096 == 0 && fw::stop_early(&mut o) {
            break;
        }
        let k = rng.usize(1, 8);
        let comps: Vec<Vec<u8>> = (0..k)
            .map(|_| {
                let l = component_len(&mut rng);
                let class = *rng.pick(&BYTE_CLASSES);
                bytes_of_class(class, l, &mut rng)
            })
            .collect();
        check_compute_token(&mut o, &state, &comps);
    }
    // systematic: two components, every split of a string (framing lands on every offset mod 16)
    if w == 0 {
        for len in [0usize, 1, 13, 14, 15, 16, 17, 29, 30, 31, 32, 45, 61] {
            let data = bytes_of_class("random-high", len, &mut rng);
            for cut in 0..=len {
                check_compute_token(&mut o, &state, &[data[..cut].to_vec(), data[cut..].to_vec()]);
            }
        }
    }
    o.note_add("cases_counted_beyond_the_distinct_tracking_cap", BEYOND_CAP.with(|c| c.replace(0)));
    o.note_add("P_prepares_served_by_responder", ms.responder.prepares_served.load(std::sync::atomic::Ordering::Relaxed));
    let unknown = ms.responder.unknown_statements.lock().unwrap().clone();
    if !unknown.is_empty() {
        o.note("P_statements_the_responder_did_not_know", json!(unknown.into_iter().take(5).collect::<Vec<_>>()));
    }
    o
}

// ---------------------------------------------------------------------------
// Prepared statements (needs a PreparedStatement from a (mock) session)
// ---------------------------------------------------------------------------

/// Which partitioner the table of the statement uses according to what the mock served
/// in `system_schema.scylla_tables` (absent / unknown name: the default, Murmur3).
#[derive(Clone, Copy, PartialEq, Eq, Debug)]
pub enum ExpectedPartitioner {
    Murmur3,
    Cdc,
}

/// One bound-values case for a prepared statement whose bind markers are ALL of type
/// blob (so that any byte string can be bound).
pub struct PreparedCase<'a> {
    /// one value per bind marker, in marker order (`None` = NULL; never for a key marker)
    pub marker_values: &'a [Option<Vec<u8>>],
    /// for each partition-key component, in PARTITION-KEY order (as in
    /// `PRIMARY KEY ((k0, k1, ..), ..)`), the index of the bind marker that carries it
    pub key_markers: &'a [usize],
    pub partitioner: ExpectedPartitioner,
}

/// Judges `PreparedStatement::{compute_partition_key, calculate_token}` for one case.
/// `replay()` is stored verbatim with a violation (the caller knows how to rebuild the
/// statement from it). Returns false when the statement does not have the shape the case
/// assumes (the mock served something else): nothing is judged then.
pub fn check_prepared(o: &mut Outcome, ps: &PreparedStatement, case: &PreparedCase<'_>, replay: &dyn Fn() -> Value) -> bool {
    let markers = case.marker_values.len();
    // the metadata the driver decoded must be the shape the case was generated for
    let specs = ps.get_variable_col_specs();
    let pki = ps.get_variable_pk_indexes();
    let shape_ok = specs.len() == markers
        && pki.len() == case.key_markers.len()
        && case.key_markers.iter().all(|m| *m < markers && case.marker_values[*m].is_some())
        && specs.iter().all(|s| matches!(s.typ(), ColumnType::Native(NativeType::Blob)));
    if !shape_ok {
        o.inconclusive(format!(
            "check_prepared: statement has {} markers / {} key indexes, the case expects {} / {} (all blob)",
            specs.len(),
            pki.len(),
            markers,
            case.key_markers.len()
        ));
        return false;
    }
    // what the driver decoded from the PREPARED response, as (marker, position in key) pairs
    let mut decoded: Vec<(usize, usize)> = pki.iter().map(|p| (p.index as usize, p.sequence as usize)).collect();
    decoded.sort_unstable();
    let mut served: Vec<(usize, usize)> = case.key_markers.iter().enumerate().map(|(seq, m)| (*m, seq)).collect();
    served.sort_unstable();
    let k = case.key_markers.len();
    let comps: Vec<&[u8]> = case.key_markers.iter().map(|m| &case.marker_values[*m].as_ref().unwrap()[..]).collect();
    let mut kb = vec![4u8, case.partitioner as u8, markers as u8];
    for m in case.key_markers {
        kb.push(*m as u8);
    }
    for c in &comps {
        kb.extend_from_slice(&(c.len() as u32).to_le_bytes());
        kb.extend_from_slice(c);
    }
    case_capped(o, &kb, k > 0);
    o.class(&format!("P:key-components={}", k.min(9)));
    if case.key_markers.windows(2).any(|w| w[0] > w[1]) {
        o.class("P:markers-not-in-key-order");
    }
    if markers > k {
        o.class("P:non-key-markers-interleaved");
    }
    if case.partitioner == ExpectedPartitioner::Cdc {
        o.class("P:cdc-partitioner");
    }
    if comps.iter().any(|c| c.is_empty()) {
        o.class("P:empty-component");
    }
    if k > 1 && comps.iter().any(|c| c.len() >= 256) {
        o.class("P:component-length-needs-both-length-bytes");
    }
    if decoded != served {
        o.violation(
            "P:pk-indexes-decoded-wrong",
            format!("PREPARED metadata said (marker, key position) = {served:?}, get_variable_pk_indexes() reports {decoded:?}"),
            replay(),
        );
    }
    let name_ok = matches!(
        (ps.get_partitioner_name(), case.partitioner),
        (PartitionerName::Murmur3, ExpectedPartitioner::Murmur3) | (PartitionerName::CDC, ExpectedPartitioner::Cdc)
    );
    if !name_ok {
        o.violation(
            "P:partitioner-name",
            format!("statement uses partitioner {:?}, the table's partitioner is {:?}", ps.get_partitioner_name(), case.partitioner),
            replay(),
        );
    }
    let values: Vec<Option<Vec<u8>>> = case.marker_values.to_vec();
    if k == 0 {
        // no partition-key marker: there is no token to compute
        match fw::catch(|| ps.calculate_token(&values).map(|t| t.map(|t| t.value()))) {
            Ok(Ok(None)) => {}
            other => o.violation(
                "P:token-without-key-markers",
                format!("calculate_token on a statement without partition-key markers returned {other:?}"),
                replay(),
            ),
        }
        return true;
    }
    let Some(key) = model::composite(&comps) else {
        o.class("P:component-over-65535-not-judged");
        return true;
    };
    let want = match case.partitioner {
        ExpectedPartitioner::Murmur3 => model::murmur3_token(&key),
        ExpectedPartitioner::Cdc => model::cdc_token(&key).value(),
    };
    let lens: Vec<usize> = comps.iter().map(|c| c.len()).collect();
    match fw::catch(|| ps.compute_partition_key(&values).map(|b| b.to_vec())) {
        Err(p) => o.violation("P:compute_partition_key:panic", format!("compute_partition_key panicked (key markers {:?}): {}", case.key_markers, fw::first_line(&p)), replay()),
        Ok(Err(e)) => o.violation("P:compute_partition_key:error", format!("compute_partition_key failed (key markers {:?}, lengths {lens:?}): {e}", case.key_markers), replay()),
        Ok(Ok(got)) if got != key => {
            // is it the marker-order encoding?
            let mut by_marker: Vec<usize> = case.key_markers.to_vec();
            by_marker.sort_unstable();
            let marker_order: Vec<&[u8]> = by_marker.iter().map(|m| &case.marker_values[*m].as_ref().unwrap()[..]).collect();
            let class = if model::composite(&marker_order).as_deref() == Some(&got[..]) { "components-in-marker-order" } else { "encoding" };
            o.violation(
                format!("P:compute_partition_key:{class}"),
                format!(
                    "partition key for key markers {:?} (component lengths {lens:?}) encoded as {}, the server's encoding is {}",
                    case.key_markers,
                    fw::hex(&got[..got.len().min(48)]),
                    fw::hex(&key[..key.len().min(48)])
                ),
                replay(),
            );
        }
        Ok(Ok(_)) => {}
    }
    match fw::catch(|| ps.calculate_token(&values).map(|t| t.map(|t| t.value()))) {
        Err(p) => o.violation("P:calculate_token:panic", format!("calculate_token panicked (key markers {:?}): {}", case.key_markers, fw::first_line(&p)), replay()),
        Ok(Err(e)) => o.violation("P:calculate_token:error", format!("calculate_token failed (key markers {:?}, lengths {lens:?}): {e}", case.key_markers), replay()),
        Ok(Ok(None)) => o.violation("P:calculate_token:none", format!("calculate_token returned None although markers {:?} carry the partition key", case.key_markers), replay()),
        Ok(Ok(Some(got))) if got != want => o.violation(
            format!("P:calculate_token:{}-vs-model", if k > 1 { "composite" } else { "single" }),
            format!("token for key markers {:?} (component lengths {lens:?}) is {got}; the server computes {want}", case.key_markers),
            replay(),
        ),
        Ok(Ok(Some(_))) => {}
    }
    // every handle of the statement is the statement: a copy (what `execute_iter(prepared.clone(), ..)` or
    // `batch.append_statement(prepared.clone())` work with) computes the same token with the same partitioner
    let copy = ps.clone();
    o.class("P:token-through-a-copy-of-the-handle");
    if std::mem::discriminant(&copy.get_partitioner_name().clone()) != std::mem::discriminant(&ps.get_partitioner_name().clone()) {
        o.violation("P:copy:partitioner-name", format!("a copy of the prepared statement uses partitioner {:?}, the statement itself {:?}", copy.get_partitioner_name(), ps.get_partitioner_name()), replay());
    }
    match fw::catch(|| copy.calculate_token(&values).map(|t| t.map(|t| t.value()))) {
        Ok(Ok(Some(got))) if got == want => {}
        other => o.violation(
            "P:copy:calculate_token-vs-model",
            format!("a copy of the prepared statement computes {other:?} for key markers {:?} (component lengths {lens:?}); the server computes {want}", case.key_markers),
            replay(),
        ),
    }
    true
}

// ---------------------------------------------------------------------------
// Replay, self-test, entry
// ---------------------------------------------------------------------------

fn replay(ctx: &Ctx, path: &str) -> Outcome {
    let mut o = Outcome::new();
    let v: Value = serde_json::from_str(&std::fs::read_to_string(path).expect("replay file")).expect("json");
    let r = &v["replay"];
    let hexs = |x: &Value| fw::unhex(x.as_str().unwrap_or(""));
    match r["kind"].as_str() {
        Some("stream") => {
            let Some(part) = Part::from_name(r["part"].as_str().unwrap_or("")) else {
                o.inconclusive("unrecognised replay file");
                return o;
            };
            let data = hexs(&r["data"]);
            let cuts: Vec<usize> = r["cuts"].as_array().map(|a| a.iter().map(|c| c.as_u64().unwrap_or(0) as usize).collect()).unwrap_or_default();
            let want = want_token(part, &data);
            check_stream(&mut o, part, &data, &cuts, r["mid"].as_bool().unwrap_or(false), want, true);
        }
        Some("hash_one") => {
            let Some(part) = Part::from_name(r["part"].as_str().unwrap_or("")) else {
                o.inconclusive("unrecognised replay file");
                return o;
            };
            let data = hexs(&r["data"]);
            let want = want_token(part, &data);
            check_hash_one(&mut o, part, &data, want);
        }
        Some("metadata") => match shape_from_json(&r["shape"]) {
            Some(shape) => check_metadata_decode(&mut o, &shape),
            None => o.inconclusive("unrecognised replay file"),
        },
        Some("prepared") => {
            let values: Vec<Option<Vec<u8>>> = r["values"].as_array().map(|a| a.iter().map(|x| x.as_str().map(fw::unhex)).collect()).unwrap_or_default();
            match (shape_from_json(&r["shape"]), mock_session()) {
                (Some(shape), Ok(ms)) => match prepare(&ms, &shape) {
                    Ok(ps) => run_prepared_case(&mut o, &ps, &shape, &values),
                    Err(e) => o.inconclusive(format!("replay: {e}")),
                },
                (None, _) => o.inconclusive("unrecognised replay file"),
                (_, Err(e)) => o.inconclusive(format!("replay: {e}")),
            }
        }
        Some("compute_token") => {
            let comps: Vec<Vec<u8>> = r["components"].as_array().map(|a| a.iter().map(hexs).collect()).unwrap_or_default();
            match mock_session() {
                Ok(ms) if (1..=8).contains(&comps.len()) => check_compute_token(&mut o, &ms.session.get_cluster_state(), &comps),
                Ok(_) => o.inconclusive("unrecognised replay file"),
                Err(e) => o.inconclusive(format!("replay: {e}")),
            }
        }
        _ => o.inconclusive("unrecognised replay file"),
    }
    flush_cls(&mut o);
    let _ = ctx;
    o
}

/// The oracle is validated before it judges anything. A failure here is a harness error
/// (non-zero exit, no result file), never a verdict about the driver.
fn validate_oracle() -> u64 {
    if let Err(e) = model::self_test() {
        eprintln!("HARNESS-ERROR: C03 reference model failed its self-test: {e}");
        std::process::exit(3);
    }
    let mut extra = 0u64;
    // the committed table (same vectors, kept as data for reviewers); optional at run time
    if let Ok(text) = std::fs::read_to_string(TABLE_PATH) {
        let Ok(v) = serde_json::from_str::<Value>(&text) else {
            eprintln!("HARNESS-ERROR: {TABLE_PATH} is not valid JSON");
            std::process::exit(3);
        };
        for (member, cdc) in [("murmur3", false), ("cdc", true)] {
            for e in v[member].as_array().cloned().unwrap_or_default() {
                let data = fw::unhex(e["key_hex"].as_str().unwrap_or(""));
                let want = e["token"].as_i64();
                let got = if cdc { model::cdc_token(&data).value() } else { model::murmur3_token(&data) };
                if want != Some(got) {
                    eprintln!("HARNESS-ERROR: C03 reference model disagrees with {TABLE_PATH}: {member} key {} -> {got}, table says {want:?}", fw::hex(&data));
                    std::process::exit(3);
                }
                extra += 1;
            }
        }
    }
    extra
}

pub fn run(ctx: &Ctx) -> Outcome {
    let table_vectors = validate_oracle();
    if let Some(p) = &ctx.replay {
        return replay(ctx, p);
    }
    let workers = ctx.workers.max(1);
    let part = ctx.part.as_deref();
    let do_a = part.map(|p| p == "A").unwrap_or(true);
    let do_m = part.map(|p| p == "M").unwrap_or(true) && !ctx.miri() || part == Some("M");
    // P opens loopback sockets and threads: not under miri
    let do_p = part.map(|p| p == "P").unwrap_or(true) && !ctx.miri();
    let mut out = Outcome::new();
    if do_a {
        out.merge(fw::par(ctx, workers, |w, rng| workload_a(ctx, w, workers, rng)));
        for c in [
            "A:all-2-cut-chunkings-of-a-string",
            "A:chunk-completes-a-pending-block",
            "A:chunk-ends-exactly-on-block-boundary",
            "A:chunk-crosses-boundary-and-leaves-a-rest",
            "A:chunk-appended-to-nonempty-buffer",
            "A:empty-chunk",
            "A:finish-called-mid-stream",
            "A:len-multiple-of-16",
            "A:tail-longer-than-8",
            "A:signed-tail-changes-the-hash",
            "A:raw-hash-is-i64-min",
            "A:cdc-key-shorter-than-8",
            "A:cdc-key-8-or-longer",
            "A:cdc-first8-is-i64-min",
        ] {
            out.require_class(c);
        }
    }
    if do_m {
        out.merge(workload_m(ctx, ctx.rng(900)));
        out.require_class("M:prepared-metadata-decoded");
    }
    if do_p {
        let p = {
            // rng streams separate from workload A's
            let ctx_p = Ctx { seed: ctx.seed ^ 0xb0b0_b0b0, ..ctx.clone() };
            let pw = workers.min(8);
            fw::par(&ctx_p, pw, |w, rng| workload_p(ctx, w, pw, rng))
        };
        out.merge(p);
        for k in 1..=8 {
            out.require_class(&format!("P:key-components={k}"));
            out.require_class(&format!("T:compute_token-components={k}"));
        }
        for c in ["P:markers-not-in-key-order", "P:non-key-markers-interleaved", "P:cdc-partitioner", "P:key-components=0", "P:empty-component", "P:component-length-needs-both-length-bytes"] {
            out.require_class(c);
        }
    }
    // literal sample cases (oracle values are the model's); each is also evaluated here
    if do_a {
        let pre = model::preimage(b"", b"", 1u64 << 63, 7).unwrap();
        let comp = model::composite(&[b"ab", b"", &[0x80, 0x81]]).unwrap();
        let literal: [(Part, &[u8], &[usize]); 6] = [
            (Part::M3, "kremówki".as_bytes(), &[3, 3]),
            (Part::M3, &[0xff], &[]),
            (Part::M3Any, &pre, &[5]),
            (Part::M3Any, &comp, &[2, 4, 5, 7, 7, 8, 10, 12]),
            (Part::CdcAny, &[0x80, 0, 0, 0, 0, 0, 0, 0, 0xaa, 0xbb], &[4]),
            (Part::Cdc, &[1, 2, 3, 4, 5, 6, 7], &[7]),
        ];
        for (part, data, cuts) in literal {
            let want = want_token(part, data);
            check_hash_one(&mut out, part, data, want);
            check_stream(&mut out, part, data, cuts, true, want, false);
        }
        flush_cls(&mut out);
    }
    out.sample(json!({"hasher":"murmur3","key_hex": fw::hex("kremówki".as_bytes()), "chunks":[3,0,6], "oracle_token": model::murmur3_token("kremówki".as_bytes()), "source":"Cassandra vector pinned in partitioner.rs"}));
    out.sample(json!({"hasher":"murmur3","key_hex":"ff", "oracle_token": model::murmur3_token(&[0xff]), "unsigned_tail_would_give": model::hash128(&[0xff], 0, model::Tail::Unsigned).0 as i64}));
    {
        let k = model::preimage(b"", b"", 1u64 << 63, 7).unwrap();
        out.sample(json!({"hasher":"murmur3","key_hex": fw::hex(&k), "raw_hash": model::raw_hash(&k), "oracle_token": model::murmur3_token(&k)}));
    }
    {
        let comps: [&[u8]; 3] = [b"ab", b"", &[0x80, 0x81]];
        let key = model::composite(&comps).unwrap();
        out.sample(json!({"composite_components_hex":["6162","","8081"], "encoded_key_hex": fw::hex(&key), "oracle_token": model::murmur3_token(&key)}));
    }
    out.sample(json!({"hasher":"cdc","key_hex":"8000000000000000aabb", "oracle_token": model::cdc_token(&fw::unhex("8000000000000000aabb")).value()}));
    out.sample(json!({"hasher":"cdc","key_hex":"01020304050607", "oracle_token": model::cdc_token(&[1,2,3,4,5,6,7]).value(), "meaning":"shorter than 8 bytes: minimum-token sentinel"}));
    out.exhaustive = Some(false);
    let p = a_params(ctx);
    out.note(
        "exhaustive_part",
        json!(format!(
            "hashers: for every length in 0..=70 and 16k-1,16k,16k+1 up to 209, 9 byte classes, 4 hasher types: every 1-cut chunking (with and without mid-stream finish); every 2-cut chunking for len <= {}; every 3-cut chunking for len <= {} (murmur3 hashers). Prepared statements: the 6 permutations of a 3-component key at two marker offsets; everything else is sampled",
            p.two_cut_max, p.three_cut_max
        )),
    );
    out.note("oracle_vectors_validated", json!(model::CASSANDRA_VECTORS.len() + model::REFERENCE_VECTORS.len() + model::CDC_VECTORS.len()));
    out.note("oracle_table_vectors_validated", json!(table_vectors));
    out.note(
        "not_asserted",
        json!("a single EMPTY partition key (servers reject it; Cassandra special-cases it to the minimum token): only compared with plain Murmur3 of the empty string; composite components over 65535 bytes (no such row exists; the driver's error is not judged); NULL/unset partition-key values; multi-column keys under the CDC partitioner (CDC log tables have one key column); CDC keys of lengths other than 16 exist on no server: lengths >= 8 are judged by the documented first-8-bytes rule, < 8 bytes by the minimum-token sentinel i64::MIN documented in partitioner.rs; the sortedness of pk_indexes (internal); tokens of statements executed over the wire (C12's business)"),
    );
    out
}
