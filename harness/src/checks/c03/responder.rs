//! A deliberately tiny CQL v4 responder, private to C03: just enough of a "node" for
//! `SessionBuilder::build()` (handshake + the control connection's system queries) and
//! for PREPARE requests whose *statement text describes the PREPARED metadata to serve*.
//! It exists so that the real `Session::prepare` -> `deser_prepared_metadata` ->
//! `PreparedStatement` -> `PartitionKey` path can be driven without the shared mock
//! cluster; once that exists, `c03::check_prepared` can be fed from it instead.
//!
//! Blocking std::net, one thread per connection. Nothing here judges the driver.
use std::io::{Read, Write};
use std::net::{Ipv4Addr, SocketAddr, TcpListener, TcpStream};
use std::sync::Arc;
use std::sync::atomic::{AtomicBool, AtomicU64, Ordering};

pub const MURMUR3_NAME: &str = "org.apache.cassandra.dht.Murmur3Partitioner";
pub const CDC_NAME: &str = "com.scylladb.dht.CDCPartitioner";
pub const UNKNOWN_NAME: &str = "org.apache.cassandra.dht.RandomPartitioner";

/// One table of keyspace `ks` in the served schema: `pk` blob partition-key columns
/// (column `i` of the key is called `pk_names[i]`), one clustering and one regular column.
#[derive(Clone, Debug)]
pub struct TableDesc {
    pub name: String,
    pub pk_names: Vec<String>,
    /// row of `system_schema.scylla_tables`: None = no row at all, Some(None) = NULL
    pub partitioner: Option<Option<String>>,
}

/// Shape of the PREPARED metadata a statement text asks for.
#[derive(Clone, Debug, PartialEq, Eq)]
pub struct Shape {
    pub ks: String,
    pub table: String,
    /// global table spec flag in the prepared metadata
    pub global: bool,
    /// number of bind markers (all typed blob)
    pub markers: usize,
    /// marker index of each partition-key component, in partition-key order
    pub key_markers: Vec<usize>,
}

impl Shape {
    pub fn statement_text(&self) -> String {
        let pk: Vec<String> = self.key_markers.iter().map(|m| m.to_string()).collect();
        format!("C03 ks={} t={} g={} n={} pk={}", self.ks, self.table, self.global as u8, self.markers, pk.join("."))
    }
    pub fn parse(text: &str) -> Option<Shape> {
        let mut it = text.split(' ');
        if it.next()? != "C03" {
            return None;
        }
        let mut s = Shape { ks: String::new(), table: String::new(), global: true, markers: 0, key_markers: vec![] };
        for kv in it {
            let (k, v) = kv.split_once('=')?;
            match k {
                "ks" => s.ks = v.to_owned(),
                "t" => s.table = v.to_owned(),
                "g" => s.global = v == "1",
                "n" => s.markers = v.parse().ok()?,
                "pk" => s.key_markers = if v.is_empty() { vec![] } else { v.split('.').map(|x| x.parse().ok()).collect::<Option<Vec<_>>>()? },
                _ => return None,
            }
        }
        Some(s)
    }
}

// --- primitive encoders (CQL binary protocol v4, section 3 "Notations") ---

fn put_short(b: &mut Vec<u8>, v: u16) {
    b.extend_from_slice(&v.to_be_bytes());
}
fn put_int(b: &mut Vec<u8>, v: i32) {
    b.extend_from_slice(&v.to_be_bytes());
}
fn put_string(b: &mut Vec<u8>, s: &str) {
    put_short(b, s.len() as u16);
    b.extend_from_slice(s.as_bytes());
}
fn put_bytes(b: &mut Vec<u8>, v: Option<&[u8]>) {
    match v {
        None => put_int(b, -1),
        Some(v) => {
            put_int(b, v.len() as i32);
            b.extend_from_slice(v);
        }
    }
}

const T_BLOB: &[u8] = &[0, 0x03];
const T_BOOLEAN: &[u8] = &[0, 0x04];
const T_INT: &[u8] = &[0, 0x09];
const T_UUID: &[u8] = &[0, 0x0c];
const T_TEXT: &[u8] = &[0, 0x0d];
const T_INET: &[u8] = &[0, 0x10];
const T_LIST_TEXT: &[u8] = &[0, 0x20, 0, 0x0d];
const T_MAP_TEXT_TEXT: &[u8] = &[0, 0x21, 0, 0x0d, 0, 0x0d];
const T_SET_TEXT: &[u8] = &[0, 0x22, 0, 0x0d];

fn text(s: &str) -> Option<Vec<u8>> {
    Some(s.as_bytes().to_vec())
}
fn coll(items: &[&str]) -> Option<Vec<u8>> {
    let mut b = Vec::new();
    put_int(&mut b, items.len() as i32);
    for i in items {
        put_bytes(&mut b, Some(i.as_bytes()));
    }
    Some(b)
}

type Row = Vec<Option<Vec<u8>>>;

/// `<flags=global_tables_spec><col_count><ks><table>(<name><type>)*`
fn rows_metadata(b: &mut Vec<u8>, ks: &str, table: &str, cols: &[(&str, &[u8])]) {
    put_int(b, 0x0001);
    put_int(b, cols.len() as i32);
    put_string(b, ks);
    put_string(b, table);
    for (n, t) in cols {
        put_string(b, n);
        b.extend_from_slice(t);
    }
}

struct SystemAnswer {
    ks: &'static str,
    table: &'static str,
    cols: Vec<(&'static str, &'static [u8])>,
    rows: Vec<Row>,
}

/// PREPARED result body for a statement described by `shape`; `id` is echoed as the
/// prepared id. Spec 4.2.5.4: `<id><metadata><result_metadata>` with metadata
/// `<flags><columns_count><pk_count>[<pk_index_1>...][<global_table_spec>?<col_spec_1>...]`,
/// pk_index_i = index of the bind marker holding the i-th partition-key column.
pub fn prepared_result_body(shape: &Shape, id: &[u8]) -> Vec<u8> {
    let mut b = Vec::new();
    put_int(&mut b, 0x0004);
    put_short(&mut b, id.len() as u16);
    b.extend_from_slice(id);
    put_int(&mut b, if shape.global { 0x0001 } else { 0 });
    put_int(&mut b, shape.markers as i32);
    put_int(&mut b, shape.key_markers.len() as i32);
    for m in &shape.key_markers {
        put_short(&mut b, *m as u16);
    }
    if shape.global {
        put_string(&mut b, &shape.ks);
        put_string(&mut b, &shape.table);
    }
    for i in 0..shape.markers {
        if !shape.global {
            put_string(&mut b, &shape.ks);
            put_string(&mut b, &shape.table);
        }
        let name = match shape.key_markers.iter().position(|m| *m == i) {
            Some(seq) => format!("k{seq}"),
            None => format!("v{i}"),
        };
        put_string(&mut b, &name);
        b.extend_from_slice(T_BLOB);
    }
    // result metadata: no columns
    put_int(&mut b, 0);
    put_int(&mut b, 0);
    b
}

pub struct Responder {
    pub addr: SocketAddr,
    stop: Arc<AtomicBool>,
    pub prepares_served: Arc<AtomicU64>,
    pub unknown_statements: Arc<std::sync::Mutex<Vec<String>>>,
}

struct Shared {
    tables: Vec<TableDesc>,
    ip: Ipv4Addr,
    prepares_served: Arc<AtomicU64>,
    unknown: Arc<std::sync::Mutex<Vec<String>>>,
}

impl Responder {
    pub fn start(tables: Vec<TableDesc>) -> std::io::Result<Responder> {
        let ip = Ipv4Addr::new(127, 0, 0, 1);
        let listener = TcpListener::bind((ip, 0))?;
        let addr = listener.local_addr()?;
        let stop = Arc::new(AtomicBool::new(false));
        let prepares_served = Arc::new(AtomicU64::new(0));
        let unknown = Arc::new(std::sync::Mutex::new(Vec::new()));
        let shared = Arc::new(Shared { tables, ip, prepares_served: prepares_served.clone(), unknown: unknown.clone() });
        let stop2 = stop.clone();
        std::thread::Builder::new()
            .name("c03-responder".into())
            .spawn(move || {
                for conn in listener.incoming() {
                    if stop2.load(Ordering::SeqCst) {
                        break;
                    }
                    if let Ok(s) = conn {
                        let sh = shared.clone();
                        let _ = std::thread::Builder::new().name("c03-conn".into()).spawn(move || {
                            let _ = serve(s, &sh);
                        });
                    }
                }
            })?;
        Ok(Responder { addr, stop, prepares_served, unknown_statements: unknown })
    }
}

impl Drop for Responder {
    fn drop(&mut self) {
        self.stop.store(true, Ordering::SeqCst);
        let _ = TcpStream::connect(self.addr); // wakes the accept loop
    }
}

fn read_long_string(body: &[u8]) -> Option<(String, &[u8])> {
    if body.len() < 4 {
        return None;
    }
    let n = i32::from_be_bytes(body[..4].try_into().ok()?) as usize;
    if body.len() < 4 + n {
        return None;
    }
    Some((String::from_utf8_lossy(&body[4..4 + n]).into_owned(), &body[4 + n..]))
}

fn system_answer(sh: &Shared, q: &str) -> Option<SystemAnswer> {
    let ans = |ks, table, cols, rows| Some(SystemAnswer { ks, table, cols, rows });
    let node_cols: Vec<(&'static str, &'static [u8])> =
        vec![("host_id", T_UUID), ("rpc_address", T_INET), ("data_center", T_TEXT), ("rack", T_TEXT), ("tokens", T_SET_TEXT)];
    if q.contains("FROM system.peers") {
        return ans("system", "peers", node_cols, vec![]);
    }
    if q.contains("FROM system.local") && q.contains("cluster_name") {
        let mut cols = node_cols;
        cols.push(("cluster_name", T_TEXT));
        let row: Row = vec![
            Some(vec![0xc0, 0x03, 0, 0, 0, 0, 0x40, 0, 0x80, 0, 0, 0, 0, 0, 0, 1]),
            Some(sh.ip.octets().to_vec()),
            text("dc1"),
            text("r1"),
            coll(&["0"]),
            text("c03"),
        ];
        return ans("system", "local", cols, vec![row]);
    }
    if q.contains("schema_version") {
        return ans("system", "local", vec![("schema_version", T_UUID)], vec![vec![Some(vec![7u8; 16])]]);
    }
    if q.contains("SELECT host_id FROM system.local") {
        return ans("system", "local", vec![("host_id", T_UUID)], vec![vec![Some(vec![0xc0, 0x03, 0, 0, 0, 0, 0x40, 0, 0x80, 0, 0, 0, 0, 0, 0, 1])]]);
    }
    if q.contains("system_schema.keyspaces") {
        let mut m = Vec::new();
        put_int(&mut m, 2);
        for (k, v) in [("class", "org.apache.cassandra.locator.SimpleStrategy"), ("replication_factor", "1")] {
            put_bytes(&mut m, Some(k.as_bytes()));
            put_bytes(&mut m, Some(v.as_bytes()));
        }
        return ans(
            "system_schema",
            "keyspaces",
            vec![("keyspace_name", T_TEXT), ("replication", T_MAP_TEXT_TEXT), ("durable_writes", T_BOOLEAN)],
            vec![vec![text("ks"), Some(m), Some(vec![1])]],
        );
    }
    if q.contains("system_schema.tables") {
        let rows = sh.tables.iter().map(|t| vec![text("ks"), text(&t.name)]).collect();
        return ans("system_schema", "tables", vec![("keyspace_name", T_TEXT), ("table_name", T_TEXT)], rows);
    }
    if q.contains("system_schema.views") {
        return ans("system_schema", "views", vec![("keyspace_name", T_TEXT), ("view_name", T_TEXT), ("base_table_name", T_TEXT)], vec![]);
    }
    if q.contains("system_schema.types") {
        return ans(
            "system_schema",
            "types",
            vec![("keyspace_name", T_TEXT), ("type_name", T_TEXT), ("field_names", T_LIST_TEXT), ("field_types", T_LIST_TEXT)],
            vec![],
        );
    }
    if q.contains("system_schema.columns") {
        let mut rows: Vec<Row> = Vec::new();
        for t in &sh.tables {
            let mut trows: Vec<(String, Row)> = Vec::new();
            for (pos, n) in t.pk_names.iter().enumerate() {
                trows.push((n.clone(), vec![text("ks"), text(&t.name), text(n), text("partition_key"), Some((pos as i32).to_be_bytes().to_vec()), text("blob")]));
            }
            trows.push(("ck".into(), vec![text("ks"), text(&t.name), text("ck"), text("clustering"), Some(0i32.to_be_bytes().to_vec()), text("int")]));
            trows.push(("v".into(), vec![text("ks"), text(&t.name), text("v"), text("regular"), Some((-1i32).to_be_bytes().to_vec()), text("text")]));
            // a server returns them in clustering (column-name) order, not in key order
            trows.sort_by(|a, b| a.0.cmp(&b.0));
            rows.extend(trows.into_iter().map(|r| r.1));
        }
        return ans(
            "system_schema",
            "columns",
            vec![("keyspace_name", T_TEXT), ("table_name", T_TEXT), ("column_name", T_TEXT), ("kind", T_TEXT), ("position", T_INT), ("type", T_TEXT)],
            rows,
        );
    }
    if q.contains("system_schema.scylla_tables") {
        let rows = sh
            .tables
            .iter()
            .filter_map(|t| t.partitioner.as_ref().map(|p| vec![text("ks"), text(&t.name), p.as_ref().map(|s| s.as_bytes().to_vec())]))
            .collect();
        return ans("system_schema", "scylla_tables", vec![("keyspace_name", T_TEXT), ("table_name", T_TEXT), ("partitioner", T_TEXT)], rows);
    }
    if q.contains("system_schema.scylla_keyspaces") {
        return ans("system_schema", "scylla_keyspaces", vec![("keyspace_name", T_TEXT), ("initial_tablets", T_INT)], vec![]);
    }
    None
}

fn rows_body(a: &SystemAnswer) -> Vec<u8> {
    let mut b = Vec::new();
    put_int(&mut b, 0x0002);
    rows_metadata(&mut b, a.ks, a.table, &a.cols);
    put_int(&mut b, a.rows.len() as i32);
    for r in &a.rows {
        for v in r {
            put_bytes(&mut b, v.as_deref());
        }
    }
    b
}

fn error_body(code: i32, msg: &str) -> Vec<u8> {
    let mut b = Vec::new();
    put_int(&mut b, code);
    put_string(&mut b, msg);
    b
}

const OP_ERROR: u8 = 0x00;
const OP_READY: u8 = 0x02;
const OP_SUPPORTED: u8 = 0x06;
const OP_RESULT: u8 = 0x08;

fn serve(mut s: TcpStream, sh: &Shared) -> std::io::Result<()> {
    s.set_nodelay(true)?;
    loop {
        let mut h = [0u8; 9];
        s.read_exact(&mut h)?;
        let stream = [h[2], h[3]];
        let opcode = h[4];
        let len = u32::from_be_bytes([h[5], h[6], h[7], h[8]]) as usize;
        let mut body = vec![0u8; len];
        s.read_exact(&mut body)?;
        let (op, out): (u8, Vec<u8>) = match opcode {
            // OPTIONS
            0x05 => {
                let mut b = Vec::new();
                put_short(&mut b, 2);
                put_string(&mut b, "CQL_VERSION");
                put_short(&mut b, 1);
                put_string(&mut b, "3.0.0");
                put_string(&mut b, "COMPRESSION");
                put_short(&mut b, 0);
                (OP_SUPPORTED, b)
            }
            // STARTUP, REGISTER
            0x01 | 0x0b => (OP_READY, Vec::new()),
            // QUERY
            0x07 => match read_long_string(&body) {
                Some((q, _)) => match system_answer(sh, &q) {
                    Some(a) => (OP_RESULT, rows_body(&a)),
                    None => {
                        sh.unknown.lock().unwrap().push(format!("QUERY {q}"));
                        (OP_ERROR, error_body(0x2200, "c03 responder: unknown statement"))
                    }
                },
                None => (OP_ERROR, error_body(0x000a, "c03 responder: malformed QUERY")),
            },
            // PREPARE: the prepared id is the statement text itself (stable, collision-free)
            0x09 => match read_long_string(&body) {
                Some((q, _)) => {
                    if let Some(shape) = Shape::parse(&q) {
                        sh.prepares_served.fetch_add(1, Ordering::Relaxed);
                        (OP_RESULT, prepared_result_body(&shape, q.as_bytes()))
                    } else if let Some(a) = system_answer(sh, &q) {
                        let mut b = Vec::new();
                        put_int(&mut b, 0x0004);
                        put_short(&mut b, q.len() as u16);
                        b.extend_from_slice(q.as_bytes());
                        // prepared metadata: no bind markers
                        put_int(&mut b, 0);
                        put_int(&mut b, 0);
                        put_int(&mut b, 0);
                        rows_metadata(&mut b, a.ks, a.table, &a.cols);
                        (OP_RESULT, b)
                    } else {
                        sh.unknown.lock().unwrap().push(format!("PREPARE {q}"));
                        (OP_ERROR, error_body(0x2200, "c03 responder: unknown statement"))
                    }
                }
                None => (OP_ERROR, error_body(0x000a, "c03 responder: malformed PREPARE")),
            },
            // EXECUTE: [short bytes id] ...
            0x0a => {
                let n = if body.len() >= 2 { u16::from_be_bytes([body[0], body[1]]) as usize } else { 0 };
                let q = String::from_utf8_lossy(body.get(2..2 + n).unwrap_or(&[])).into_owned();
                match system_answer(sh, &q) {
                    Some(a) => (OP_RESULT, rows_body(&a)),
                    None => {
                        sh.unknown.lock().unwrap().push(format!("EXECUTE {q}"));
                        (OP_ERROR, error_body(0x2200, "c03 responder: cannot execute this"))
                    }
                }
            }
            other => (OP_ERROR, error_body(0x000a, &format!("c03 responder: opcode {other:#x} not supported"))),
        };
        let mut f = Vec::with_capacity(9 + out.len());
        f.push(0x84);
        f.push(0);
        f.extend_from_slice(&stream);
        f.push(op);
        f.extend_from_slice(&(out.len() as u32).to_be_bytes());
        f.extend_from_slice(&out);
        s.write_all(&f)?;
    }
}
