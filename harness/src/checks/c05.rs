//! C05 — default load-balancing plans are complete, duplicate-free and correctly ordered.
//!
//! The real `DefaultPolicy` (public builder) on real `ClusterState`s built from C04's generated
//! topologies, with per-node {enabled (host filter), connected (hook)} assignments. A plan is
//! observed through `Plan::new(..)` and through `LoadBalancingPolicy::{pick, fallback}` directly
//! (where the `Option<Shard>` is still visible); the oracle is `refmodel::plan::check` with the
//! replicas taken from `refmodel::replication`.
use crate::fw::{self, Ctx, Outcome, Rng};
use crate::gen_::topology::{self as topo, St, Topology};
use crate::refmodel::plan::{self as model, PNode, Pref, Req};
use crate::refmodel::replication as repl;
use scylla::cluster::ClusterState;
use scylla::cluster::metadata::Peer;
use scylla::frame::response::result::TableSpec;
use scylla::frame::types::{Consistency, SerialConsistency};
use scylla::policies::host_filter::HostFilter;
use scylla::policies::load_balancing::{DefaultPolicy, LoadBalancingPolicy, Plan, RoutingInfo};
use scylla::routing::{NodeLocationPreference, Token};
use scylla::verif_hooks::ClusterProbe;
use serde_json::{Value, json};
use std::collections::HashSet;
use std::sync::Arc;
use uuid::Uuid;

/// `Outcome::violation` keeps one report per signature; this skips building the (large) message
/// and replay document when the signature is already recorded.
macro_rules! viol {
    ($o:expr, $sig:expr, $msg:expr, $replay:expr $(,)?) => {{
        let s: String = ($sig).into();
        if !$o.violations.iter().any(|v| v.signature == s) {
            let m = $msg;
            let r = $replay;
            $o.violation(s, m, r);
        }
    }};
}


struct Accept(HashSet<Uuid>);
impl HostFilter for Accept {
    fn accept(&self, peer: &Peer) -> bool {
        self.0.contains(&peer.host_id)
    }
}

#[derive(Clone, Debug)]
struct PolicyCfg {
    token_aware: bool,
    /// policy-level preference; `None` = inherit the session-level one
    pref: Option<Pref>,
    failover: bool,
    shuffle: bool,
}

#[derive(Clone, Debug)]
struct ReqCfg {
    token: Option<i64>,
    /// 0: no table, 1: table of the known keyspace `k`, 2: table of a keyspace the driver does not
    /// know, 3: the table of the tablet-based keyspace
    table: u8,
    k: usize,
    lwt_flag: bool,
    consistency: Consistency,
    serial: Option<SerialConsistency>,
    session_pref: Pref,
}

const CONSISTENCIES: [Consistency; 9] = [
    Consistency::One,
    Consistency::Quorum,
    Consistency::All,
    Consistency::LocalQuorum,
    Consistency::LocalOne,
    Consistency::EachQuorum,
    Consistency::Serial,
    Consistency::LocalSerial,
    Consistency::Two,
];

fn pref_json(p: &Pref) -> Value {
    match p {
        Pref::Any => json!("any"),
        Pref::Dc(d) => json!({"dc": d}),
        Pref::DcRack(d, r) => json!({"dc": d, "rack": r}),
    }
}

fn pref_from(v: &Value) -> Pref {
    match (v["dc"].as_str(), v["rack"].as_str()) {
        (Some(d), Some(r)) => Pref::DcRack(d.to_owned(), r.to_owned()),
        (Some(d), None) => Pref::Dc(d.to_owned()),
        _ => Pref::Any,
    }
}

fn to_driver_pref(p: &Pref) -> NodeLocationPreference {
    match p {
        Pref::Any => NodeLocationPreference::Any,
        Pref::Dc(d) => NodeLocationPreference::Datacenter(d.clone()),
        Pref::DcRack(d, r) => NodeLocationPreference::DatacenterAndRack(d.clone(), r.clone()),
    }
}

impl PolicyCfg {
    fn build(&self) -> Arc<dyn LoadBalancingPolicy> {
        let b = DefaultPolicy::builder().token_aware(self.token_aware).permit_dc_failover(self.failover).enable_shuffling_replicas(self.shuffle);
        match &self.pref {
            None => b.inherit_location_preference(),
            Some(Pref::Any) => b.prefer_no_datacenter(),
            Some(Pref::Dc(d)) => b.prefer_datacenter(d.clone()),
            Some(Pref::DcRack(d, r)) => b.prefer_datacenter_and_rack(d.clone(), r.clone()),
        }
        .build()
    }
    fn to_json(&self) -> Value {
        json!({"token_aware": self.token_aware, "pref": self.pref.as_ref().map(pref_json), "failover": self.failover, "shuffle": self.shuffle})
    }
    fn from_json(v: &Value) -> PolicyCfg {
        PolicyCfg {
            token_aware: v["token_aware"].as_bool().unwrap_or(true),
            pref: if v["pref"].is_null() { None } else { Some(pref_from(&v["pref"])) },
            failover: v["failover"].as_bool().unwrap_or(false),
            shuffle: v["shuffle"].as_bool().unwrap_or(true),
        }
    }
}

impl ReqCfg {
    fn to_json(&self) -> Value {
        json!({"token": self.token, "table": self.table, "k": self.k, "lwt_flag": self.lwt_flag,
            "consistency": self.consistency as u16, "serial": self.serial.map(|s| s as i16), "session_pref": pref_json(&self.session_pref)})
    }
    fn from_json(v: &Value) -> ReqCfg {
        ReqCfg {
            token: v["token"].as_i64().map(topo::norm),
            table: v["table"].as_u64().unwrap_or(0) as u8,
            k: v["k"].as_u64().unwrap_or(0) as usize,
            lwt_flag: v["lwt_flag"].as_bool().unwrap_or(false),
            consistency: Consistency::try_from(v["consistency"].as_u64().unwrap_or(1) as u16).unwrap_or(Consistency::One),
            serial: v["serial"].as_i64().and_then(|s| SerialConsistency::try_from(s as i16).ok()),
            session_pref: pref_from(&v["session_pref"]),
        }
    }
}

#[derive(Clone, Debug)]
struct World {
    topo: Topology,
    strategies: Vec<St>,
    enabled: Vec<bool>,
    connected: Vec<bool>,
    /// The one tablet (covering every token) known for table `t` of the tablet-based keyspace
    /// `TABLET_KS`: replicas (node, shard) in definition order; `None`: no tablet known yet.
    tablet: Option<Vec<(usize, u32)>>,
}

const TABLET_KS: &str = "c05_tablets";

impl World {
    fn pnodes(&self) -> Vec<PNode> {
        self.topo
            .nodes
            .iter()
            .enumerate()
            .map(|(i, n)| PNode {
                dc: n.dc.clone(),
                rack: n.rack.clone(),
                owns_tokens: !n.tokens.is_empty(),
                enabled: self.enabled[i],
                // a node without a pool is never connected
                connected: self.enabled[i] && self.connected[i],
            })
            .collect()
    }
    fn to_json(&self) -> Value {
        json!({"topology": self.topo.to_json(), "strategies": self.strategies.iter().map(St::to_json).collect::<Vec<_>>(),
            "enabled": self.enabled, "connected": self.connected, "tablet": self.tablet})
    }
    fn from_json(v: &Value) -> Option<World> {
        let bools = |x: &Value| x.as_array().map(|a| a.iter().map(|b| b.as_bool().unwrap_or(false)).collect::<Vec<bool>>());
        let w = World {
            topo: Topology::from_json(&v["topology"])?,
            strategies: v["strategies"].as_array()?.iter().filter_map(St::from_json).collect(),
            enabled: bools(&v["enabled"])?,
            connected: bools(&v["connected"])?,
            tablet: v["tablet"].as_array().map(|a| a.iter().map(|x| (x[0].as_u64().unwrap_or(0) as usize, x[1].as_u64().unwrap_or(0) as u32)).collect()),
        };
        (w.enabled.len() == w.topo.nodes.len() && w.connected.len() == w.topo.nodes.len()).then_some(w)
    }
}

/// The `tablets-routing-v1` custom payload entry: the body of a
/// tuple<bigint, bigint, list<tuple<uuid, int>>> value.
fn tablet_payload(first: i64, last: i64, replicas: &[(usize, u32)]) -> std::collections::HashMap<String, bytes::Bytes> {
    fn cell(out: &mut Vec<u8>, body: &[u8]) {
        out.extend((body.len() as i32).to_be_bytes());
        out.extend(body);
    }
    let mut list: Vec<u8> = (replicas.len() as i32).to_be_bytes().to_vec();
    for (i, shard) in replicas {
        let mut pair = Vec::new();
        cell(&mut pair, topo::host_id(*i).as_bytes());
        cell(&mut pair, &(*shard as i32).to_be_bytes());
        cell(&mut list, &pair);
    }
    let mut body = Vec::new();
    cell(&mut body, &first.to_be_bytes());
    cell(&mut body, &last.to_be_bytes());
    cell(&mut body, &list);
    std::collections::HashMap::from([("tablets-routing-v1".to_owned(), bytes::Bytes::from(body))])
}

fn build_probe(rt: &tokio::runtime::Runtime, w: &World) -> Result<ClusterProbe, String> {
    let accept: HashSet<Uuid> = (0..w.topo.nodes.len()).filter(|i| w.enabled[*i]).map(topo::host_id).collect();
    let listed = vec![true; w.strategies.len()];
    let mut keyspaces = topo::keyspaces(&w.strategies, &listed);
    keyspaces.push(scylla::verif_hooks::KeyspaceDesc {
        name: TABLET_KS.to_owned(),
        strategy: St::Nts([("eu".to_owned(), 1)].into_iter().collect()).strategy(),
        tablet_based: true,
        tables: vec![topo::TABLE.to_owned()],
    });
    let mut probe = rt.block_on(ClusterProbe::new(&w.topo.peers(), &keyspaces, Some(Arc::new(Accept(accept)))));
    if let Some(reps) = &w.tablet {
        // (i64::MIN, i64::MAX]: every token a `Token` can carry
        match probe.add_tablet_from_payload(TABLET_KS, topo::TABLE, &tablet_payload(i64::MIN, i64::MAX, reps)) {
            Ok(true) => {}
            other => return Err(format!("the tablet payload was not accepted: {other:?}")),
        }
    }
    Ok(probe)
}

fn apply_connected(state: &ClusterState, w: &World) {
    for n in state.get_nodes_info() {
        let i = topo::index_of(n.host_id);
        n.verif_set_connected(Some(w.connected[i]));
    }
}

/// What the oracle needs to know about the request; also returns the candidate replica list
/// that the known defect F4 (C04: a node of an RF-0 datacenter heads the ring-ordered view of
/// an unrestricted NetworkTopologyStrategy replica set) would produce, if it differs.
fn model_request(w: &World, p: &PolicyCfg, r: &ReqCfg) -> (Req, Option<Vec<usize>>) {
    let nodes = &w.topo.nodes;
    let lwt = r.lwt_flag || matches!(r.consistency, Consistency::Serial | Consistency::LocalSerial);
    let mut f4 = None;
    let replicas = match (p.token_aware, r.token, r.table) {
        (true, Some(t), 1) => {
            let st = &w.strategies[r.k];
            let reps = match st {
                St::Simple(rf) => repl::simple(nodes, t, *rf),
                St::Nts(m) => repl::nts(nodes, t, m),
                St::Local | St::Other => repl::simple(nodes, t, 1),
            };
            if let St::Nts(m) = st {
                let first_named = repl::clockwise(nodes, t, |n| n.dc.as_ref().is_some_and(|d| m.contains_key(d))).first().copied();
                if let Some(x) = first_named {
                    if nodes[x].dc.as_ref().and_then(|d| m.get(d)) == Some(&0) {
                        let mut alt = vec![x];
                        alt.extend(reps.iter().copied());
                        f4 = Some(alt);
                    }
                }
            }
            Some(reps)
        }
        (true, Some(_), 3) => Some(w.tablet.as_ref().map(|t| t.iter().map(|(i, _)| *i).collect()).unwrap_or_default()),
        _ => None,
    };
    let local_consistency = matches!(r.consistency, Consistency::LocalQuorum | Consistency::LocalOne | Consistency::LocalSerial) || r.serial == Some(SerialConsistency::LocalSerial);
    let req = Req { replicas, lwt, pref: p.pref.clone().unwrap_or_else(|| r.session_pref.clone()), failover: p.failover, local_consistency };
    (req, f4)
}

struct Observed {
    plan: Vec<(usize, Option<u32>)>,
    picked: Option<(usize, Option<u32>)>,
    fallback: Vec<(usize, Option<u32>)>,
}

fn observe(policy: &dyn LoadBalancingPolicy, state: &ClusterState, w: &World, r: &ReqCfg) -> Result<Observed, String> {
    let ks = topo::keyspace_name(r.k);
    let spec = match r.table {
        1 => Some(TableSpec::borrowed(&ks, topo::TABLE)),
        2 => Some(TableSpec::borrowed("c05_unknown_keyspace", topo::TABLE)),
        3 => Some(TableSpec::borrowed(TABLET_KS, topo::TABLE)),
        _ => None,
    };
    let session_pref = to_driver_pref(&r.session_pref);
    let mut ri = RoutingInfo::default();
    ri.consistency = r.consistency;
    ri.serial_consistency = r.serial;
    ri.token = r.token.map(Token::new);
    ri.table = spec.as_ref();
    ri.is_confirmed_lwt = r.lwt_flag;
    ri.node_location_preference = &session_pref;
    let _ = w;
    fw::catch(|| {
        let plan: Vec<(usize, Option<u32>)> = Plan::new(policy, &ri, state).take(200).map(|(n, s)| (topo::index_of(n.host_id), Some(s))).collect();
        let picked = policy.pick(&ri, state).map(|(n, s)| (topo::index_of(n.host_id), s));
        let fallback: Vec<(usize, Option<u32>)> = policy.fallback(&ri, state).take(200).map(|(n, s)| (topo::index_of(n.host_id), s)).collect();
        Observed { plan, picked, fallback }
    })
}

fn replica_prefix(plan: &[(usize, Option<u32>)], nodes: &[PNode], req: &Req) -> Vec<usize> {
    let Some(reps) = &req.replicas else { return Vec::new() };
    plan.iter().map(|(i, _)| *i).take_while(|i| reps.contains(i) && model::rank(&nodes[*i], true, req).is_some_and(|r| r < 3)).collect()
}

/// One (world, policy, request): observe and judge. `fresh`: number of fresh policies for LWT.
fn eval_plan(o: &mut Outcome, state: &ClusterState, w: &World, world_key: u64, nodes: &[PNode], p: &PolicyCfg, r: &ReqCfg, fresh: usize) {
    let (req, f4_alt) = model_request(w, p, r);
    let replay = || json!({"world": w.to_json(), "policy": p.to_json(), "request": r.to_json()});
    let describe = || format!("policy {} | request {} | nodes {} | strategy {}", p.to_json(), r.to_json(), json!(nodes.iter().enumerate().map(|(i, n)| json!({"i": i, "dc": n.dc, "rack": n.rack, "tokens": w.topo.nodes[i].tokens, "enabled": n.enabled, "connected": n.connected})).collect::<Vec<_>>()), if r.table == 1 { w.strategies[r.k].to_json() } else { json!(null) });
    let policy = p.build();
    let obs = match observe(&*policy, state, w, r) {
        Ok(x) => x,
        Err(e) => {
            viol!(o, "plan:panic", format!("the policy panicked: {e} | {}", describe()), replay());
            return;
        }
    };
    // coverage
    // a case = one world (ring + placement + enabled/connected assignment); every plan
    // (policy x request) observed in it counts as an evaluation
    o.case(world_key, obs.plan.len() >= 2);
    o.class(match (&p.pref, &req.pref) {
        (None, _) => "pref:inherited-from-session",
        (Some(_), Pref::Any) => "pref:none",
        (Some(_), Pref::Dc(_)) => "pref:dc",
        (Some(_), Pref::DcRack(..)) => "pref:dc+rack",
    });
    if req.pref != Pref::Any {
        o.class(if p.failover { "failover:permitted" } else { "failover:forbidden" });
        if nodes.iter().all(|n| model::location(n, &req.pref) == 2) {
            o.class("pref:datacenter-without-nodes");
        }
    }
    o.class(match (&req.replicas, p.token_aware, r.token, r.table) {
        (Some(_), ..) => "token-aware:active",
        (None, false, ..) => "token-aware:off-in-policy",
        (None, _, None, _) => "token-aware:no-token",
        (None, _, _, 0) => "token-aware:no-table",
        _ => "token-aware:unknown-keyspace",
    });
    if r.table == 3 && req.replicas.is_some() {
        o.class(if w.tablet.is_some() { "tablets:replicas-from-tablet" } else { "tablets:no-tablet-known" });
    }
    o.class(if r.lwt_flag { "lwt:flag" } else if req.lwt { "lwt:serial-consistency" } else { "lwt:no" });
    if obs.plan.is_empty() {
        o.class("plan:empty");
    }
    if obs.picked.is_none() && !obs.fallback.is_empty() {
        o.class("plan:pick-none-fallback-nonempty");
    }
    if let Some(reps) = &req.replicas {
        for (i, _) in &obs.plan {
            match model::rank(&nodes[*i], reps.contains(i), &req) {
                Some(0) => o.class("plan:live-local-rack-replica"),
                Some(1) => o.class("plan:live-local-replica"),
                Some(2) => o.class("plan:live-remote-replica"),
                Some(5) => o.class("plan:live-remote-node"),
                Some(6) => o.class("plan:down-node"),
                _ => {}
            }
        }
        if req.lwt {
            o.class("lwt:token-aware");
        }
    }
    // the relations, on each view of the plan
    let report = |o: &mut Outcome, view: &str, seq: &[(usize, Option<u32>)]| {
        let mut bad = model::check(seq, nodes, &req);
        if !bad.is_empty() && req.lwt {
            if let Some(alt) = &f4_alt {
                // Known consequence of C04's finding: explained iff assuming that the first ring
                // node of an RF-0 datacenter counts as the primary replica removes violations.
                let mut req2 = req.clone();
                req2.replicas = Some(alt.clone());
                let bad2 = model::check(seq, nodes, &req2);
                if bad2.len() < bad.len() {
                    o.class("finding:lwt-rf0-dc-node-treated-as-replica");
                    viol!(o, 
                        "lwt:rf0-dc-node-treated-as-replica",
                        format!("LWT {view} {seq:?} treats node {} as the first replica although its datacenter has replication factor 0 (replicas in ring order: {:?}); relations broken: {:?} | {}", alt[0], req.replicas, bad.iter().map(|b| b.0).collect::<Vec<_>>(), describe()),
                        replay(),
                    );
                    bad = bad2;
                }
            }
        }
        for (sig, msg) in bad {
            viol!(o, format!("{view}:{sig}"), format!("{msg} | plan {seq:?} | replicas in ring order {:?} | {}", req.replicas, describe()), replay());
        }
    };
    report(o, "plan", &obs.plan);
    report(o, "fallback", &obs.fallback);
    if let Some(p1) = obs.picked {
        // pick() alone: only membership relations apply to a single target
        for (sig, msg) in model::check(&[p1], nodes, &Req { replicas: None, lwt: false, ..req.clone() }).into_iter().filter(|(s, _)| *s == "host-filtered-node" || *s == "remote-node-without-failover") {
            viol!(o, format!("pick:{sig}"), format!("{msg} | pick() = {p1:?} | {}", describe()), replay());
        }
    }
    // LWT: the replica prefix is the same for every fresh policy (no dependence on random state)
    if req.lwt && req.replicas.is_some() {
        let first = replica_prefix(&obs.plan, nodes, &req);
        let first_fb = replica_prefix(&obs.fallback, nodes, &req);
        for _ in 1..fresh {
            let pol = p.build();
            match observe(&*pol, state, w, r) {
                Ok(x) => {
                    o.evals(1);
                    let (a, b) = (replica_prefix(&x.plan, nodes, &req), replica_prefix(&x.fallback, nodes, &req));
                    if a != first || b != first_fb {
                        viol!(o, 
                            "plan:lwt-replica-order-depends-on-random-state",
                            format!("two fresh policies gave replica prefixes {first:?} and {a:?} (fallback: {first_fb:?} and {b:?}) | {}", describe()),
                            replay(),
                        );
                        break;
                    }
                }
                Err(e) => {
                    viol!(o, "plan:panic", format!("the policy panicked: {e} | {}", describe()), replay());
                    break;
                }
            }
        }
    }
}

fn gen_pref(rng: &mut Rng, t: &Topology) -> Pref {
    let dcs = t.ring_dcs();
    let dc = if dcs.is_empty() || rng.chance(1, 12) { topo::GHOST_DC.to_owned() } else { rng.pick(&dcs).clone() };
    match rng.below(5) {
        0 => Pref::Any,
        1 | 2 => Pref::Dc(dc),
        _ => {
            let racks: Vec<String> = t.nodes.iter().filter(|n| n.dc.as_deref() == Some(dc.as_str())).filter_map(|n| n.rack.clone()).collect();
            let rack = if racks.is_empty() || rng.chance(1, 10) { "r9".to_owned() } else { rng.pick(&racks).clone() };
            Pref::DcRack(dc, rack)
        }
    }
}

fn gen_policy(rng: &mut Rng, t: &Topology) -> PolicyCfg {
    PolicyCfg { token_aware: !rng.chance(1, 5), pref: if rng.chance(1, 4) { None } else { Some(gen_pref(rng, t)) }, failover: rng.bool(), shuffle: !rng.chance(1, 4) }
}

fn gen_request(rng: &mut Rng, t: &Topology, strategies: &[St], tokens: &[i64]) -> ReqCfg {
    let consistency = if rng.chance(1, 2) { *rng.pick(&[Consistency::One, Consistency::Quorum]) } else { *rng.pick(&CONSISTENCIES) };
    ReqCfg {
        token: if rng.chance(1, 8) || tokens.is_empty() { None } else { Some(*rng.pick(tokens)) },
        table: *rng.pick(&[1u8, 1, 1, 1, 1, 1, 1, 3, 3, 2, 0]),
        k: rng.below(strategies.len() as u64) as usize,
        lwt_flag: rng.chance(1, 3),
        consistency,
        serial: *rng.pick(&[None, None, Some(SerialConsistency::Serial), Some(SerialConsistency::LocalSerial)]),
        session_pref: if rng.bool() { Pref::Any } else { gen_pref(rng, t) },
    }
}

fn gen_strategies(rng: &mut Rng, t: &Topology) -> Vec<St> {
    let all = topo::gen_strategies(rng, t);
    let (mut simple, mut nts, mut other): (Vec<St>, Vec<St>, Vec<St>) = (Vec::new(), Vec::new(), Vec::new());
    for s in all {
        match s {
            St::Simple(_) => simple.push(s),
            St::Nts(_) => nts.push(s),
            _ => other.push(s),
        }
    }
    rng.shuffle(&mut simple);
    rng.shuffle(&mut nts);
    simple.truncate(2);
    nts.truncate(4);
    let mut out = simple;
    out.extend(nts);
    out.extend(other);
    out
}

/// enabled / connected assignments of one topology
fn gen_flags(rng: &mut Rng, n: usize) -> Vec<bool> {
    match rng.below(10) {
        0..=3 => vec![true; n],
        4 => vec![false; n],
        5 | 6 => (0..n).map(|_| rng.chance(3, 4)).collect(),
        7 => {
            // exactly one off
            let mut v = vec![true; n];
            if n > 0 {
                v[rng.below(n as u64) as usize] = false;
            }
            v
        }
        _ => (0..n).map(|_| rng.bool()).collect(),
    }
}

fn drain(rt: &tokio::runtime::Runtime) {
    // lets the (aborted) pool tasks of dropped cluster states finish
    rt.block_on(async {
        for _ in 0..4 {
            tokio::task::yield_now().await;
        }
    });
}

fn eval_topology(o: &mut Outcome, rt: &tokio::runtime::Runtime, rng: &mut Rng, t: Topology, ctx: &Ctx) {
    let n = t.nodes.len();
    let strategies = gen_strategies(rng, &t);
    let tokens = topo::query_tokens(rng, &t, 24);
    // small clusters: every {disabled, down, up} assignment; larger ones: sampled
    let exhaustive_n = if ctx.quick() { 3 } else { 4 };
    let mut assignments: Vec<(Vec<bool>, Vec<Vec<bool>>)> = Vec::new();
    if n <= exhaustive_n && n > 0 {
        for e in 0..(1u32 << n) {
            let enabled: Vec<bool> = (0..n).map(|i| e >> i & 1 == 1).collect();
            let mut conns: Vec<Vec<bool>> = Vec::new();
            // connected only matters for enabled nodes
            let en: Vec<usize> = (0..n).filter(|i| enabled[*i]).collect();
            for c in 0..(1u32 << en.len()) {
                let mut v = vec![false; n];
                for (b, i) in en.iter().enumerate() {
                    v[*i] = c >> b & 1 == 1;
                }
                conns.push(v);
            }
            assignments.push((enabled, conns));
        }
        o.class("assignments:exhaustive");
    } else {
        for _ in 0..2 {
            assignments.push((gen_flags(rng, n), (0..3).map(|_| gen_flags(rng, n)).collect()));
        }
        o.class("assignments:sampled");
    }
    let (np, nr) = if assignments.len() > 2 { (3, 3) } else { (5, 5) };
    for (enabled, conns) in assignments {
        let tablet = if rng.chance(1, 3) || n == 0 {
            None
        } else {
            let mut ids: Vec<usize> = (0..n).collect();
            rng.shuffle(&mut ids);
            ids.truncate(rng.usize(1, n.min(5)));
            Some(ids.into_iter().map(|i| (i, rng.below(8) as u32)).collect())
        };
        let mut w = World { topo: t.clone(), strategies: strategies.clone(), enabled, connected: vec![false; n], tablet };
        let probe = match build_probe(rt, &w) {
            Ok(p) => p,
            Err(e) => {
                o.inconclusive(e);
                continue;
            }
        };
        let state = probe.state();
        for c in conns {
            w.connected = c;
            apply_connected(state, &w);
            let nodes = w.pnodes();
            let world_key = fw::hash64(w.to_json().to_string().as_bytes());
            if nodes.iter().any(|x| !x.enabled) {
                o.class("nodes:some-disabled");
            }
            if nodes.iter().any(|x| x.enabled && !x.connected) {
                o.class("nodes:some-down");
            }
            if !nodes.is_empty() && nodes.iter().all(|x| !x.connected) {
                o.class("nodes:none-live");
            }
            for _ in 0..np {
                let p = gen_policy(rng, &t);
                for _ in 0..nr {
                    let r = gen_request(rng, &t, &strategies, &tokens);
                    eval_plan(o, state, &w, world_key, &nodes, &p, &r, 8);
                }
            }
        }
        drop(probe);
        drain(rt);
    }
}

fn literal_worlds() -> Vec<(World, PolicyCfg, ReqCfg)> {
    let t = crate::checks::c04::repo_ring();
    let rf = |eu: usize, us: usize| St::Nts([("eu".to_owned(), eu), ("us".to_owned(), us)].into_iter().collect());
    let strategies = vec![St::Simple(2), rf(2, 2), rf(3, 3), rf(0, 2)];
    let w = World { topo: t, strategies, enabled: vec![true, true, true, true, true, false, true], connected: vec![true, false, true, true, true, true, true], tablet: Some(vec![(4, 3), (0, 1), (6, 2)]) };
    let req = |k: usize, token: i64, lwt: bool| ReqCfg { token: Some(token), table: 1, k, lwt_flag: lwt, consistency: Consistency::Quorum, serial: None, session_pref: Pref::Any };
    vec![
        (w.clone(), PolicyCfg { token_aware: true, pref: Some(Pref::DcRack("eu".into(), "r1".into())), failover: true, shuffle: true }, req(2, 160, false)),
        (w.clone(), PolicyCfg { token_aware: true, pref: Some(Pref::Dc("us".into())), failover: false, shuffle: true }, req(1, 160, true)),
        (w.clone(), PolicyCfg { token_aware: true, pref: None, failover: false, shuffle: false }, req(0, 701, true)),
        (w.clone(), PolicyCfg { token_aware: true, pref: Some(Pref::Any), failover: false, shuffle: true }, req(3, 40, true)),
        (w.clone(), PolicyCfg { token_aware: false, pref: Some(Pref::Dc("eu".into())), failover: true, shuffle: true }, req(1, 160, false)),
        (w, PolicyCfg { token_aware: true, pref: Some(Pref::Dc("eu".into())), failover: true, shuffle: true }, ReqCfg { table: 3, ..req(0, 160, true) }),
    ]
}

fn replay(path: &str) -> Outcome {
    let mut o = Outcome::new();
    let v: Value = serde_json::from_str(&std::fs::read_to_string(path).expect("replay file")).expect("json");
    let r = &v["replay"];
    let Some(w) = World::from_json(&r["world"]) else {
        o.inconclusive("unrecognised replay file");
        return o;
    };
    let (p, rq) = (PolicyCfg::from_json(&r["policy"]), ReqCfg::from_json(&r["request"]));
    if rq.table == 1 && rq.k >= w.strategies.len() {
        o.inconclusive("unrecognised replay file");
        return o;
    }
    let rt = tokio::runtime::Builder::new_current_thread().enable_all().build().expect("runtime");
    let probe = match build_probe(&rt, &w) {
        Ok(p) => p,
        Err(e) => {
            o.inconclusive(e);
            return o;
        }
    };
    apply_connected(probe.state(), &w);
    let nodes = w.pnodes();
    // random rotation / shuffling: re-draw a number of times
    for _ in 0..64 {
        eval_plan(&mut o, probe.state(), &w, 1, &nodes, &p, &rq, 8);
    }
    o
}

pub const REQUIRED: [&str; 29] = [
    "tablets:replicas-from-tablet",
    "tablets:no-tablet-known",
    "pref:inherited-from-session",
    "pref:none",
    "pref:dc",
    "pref:dc+rack",
    "pref:datacenter-without-nodes",
    "failover:permitted",
    "failover:forbidden",
    "token-aware:active",
    "token-aware:off-in-policy",
    "token-aware:no-token",
    "token-aware:no-table",
    "token-aware:unknown-keyspace",
    "lwt:flag",
    "lwt:serial-consistency",
    "lwt:no",
    "lwt:token-aware",
    "plan:empty",
    "plan:pick-none-fallback-nonempty",
    "plan:live-local-rack-replica",
    "plan:live-local-replica",
    "plan:live-remote-replica",
    "plan:live-remote-node",
    "plan:down-node",
    "nodes:some-disabled",
    "nodes:some-down",
    "nodes:none-live",
    "assignments:exhaustive",
];

pub fn run(ctx: &Ctx) -> Outcome {
    if let Some(p) = &ctx.replay {
        return replay(p);
    }
    let workers = ctx.workers;
    let total = if ctx.miri() { 2 } else { ctx.vol(100_000, 1_500_000) };
    let mut out = fw::par(ctx, workers, |wk, mut rng| {
        let mut o = Outcome::new();
        let rt = tokio::runtime::Builder::new_current_thread().enable_all().build().expect("runtime");
        if wk == 0 {
            for (w, p, r) in literal_worlds() {
                let probe = build_probe(&rt, &w).expect("literal world");
                apply_connected(probe.state(), &w);
                let nodes = w.pnodes();
                let (req, _) = model_request(&w, &p, &r);
                o.sample(json!({"world": w.to_json(), "policy": p.to_json(), "request": r.to_json(), "oracle_replicas_in_ring_order": req.replicas,
                    "oracle_ranks": nodes.iter().enumerate().map(|(i, n)| model::rank(n, req.replicas.as_ref().is_some_and(|x| x.contains(&i)), &req)).collect::<Vec<_>>()}));
                for _ in 0..16 {
                    eval_plan(&mut o, probe.state(), &w, fw::hash64(w.to_json().to_string().as_bytes()), &nodes, &p, &r, 8);
                }
                drop(probe);
                drain(&rt);
            }
        }
        let mine = (total as usize + workers - 1 - wk) / workers;
        for _ in 0..mine {
            let t = topo::gen_topology(&mut rng, 12, false);
            eval_topology(&mut o, &rt, &mut rng, t, ctx);
            o.note_add("topologies", 1);
        }
        o
    });
    for c in REQUIRED {
        out.require_class(c);
    }
    out.exhaustive = Some(false);
    out.note("enumerated", json!("every {disabled, down, up} assignment for clusters of <= 3 (quick) / <= 4 (thorough) nodes; larger clusters and policy/request settings are sampled"));
    out
}
