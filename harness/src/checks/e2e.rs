//! Shared pieces of the end-to-end checks: a real `Session` against the mock
//! cluster, client-side call/return logging at the API boundary, and the
//! "echo" handler whose responses carry the id of the request they answer.

use crate::mock::log::{Ev, EventLog};
use crate::mock::*;
use crate::wire::prim::Value;
use crate::wire::request::Request;
use crate::wire::response::*;
use scylla::client::session::Session;
use scylla::client::session_builder::SessionBuilder;
use std::sync::atomic::{AtomicU64, Ordering};
use std::sync::{Arc, Mutex};
use std::time::Duration;

pub fn runtime(threads: usize) -> tokio::runtime::Runtime {
    tokio::runtime::Builder::new_multi_thread()
        .worker_threads(threads.max(1))
        .enable_all()
        .build()
        .expect("tokio runtime")
}

pub async fn connect(cluster: &MockCluster, cfg: impl FnOnce(SessionBuilder) -> SessionBuilder) -> Result<Session, String> {
    let b = cfg(SessionBuilder::new().known_node_addr(cluster.contact_point()));
    match tokio::time::timeout(Duration::from_secs(30), b.build()).await {
        Err(_) => Err("session build did not finish within 30 s (watchdog)".into()),
        Ok(Err(e)) => Err(format!("session build failed: {e}")),
        Ok(Ok(s)) => Ok(s),
    }
}

pub static OP_IDS: AtomicU64 = AtomicU64::new(1);

pub fn next_op() -> u64 {
    OP_IDS.fetch_add(1, Ordering::SeqCst)
}

pub fn call(log: &EventLog, op: u64, api: &'static str, detail: impl Into<String>) {
    log.push(Ev::ClientCall { op, api, detail: detail.into() });
}
pub fn ret(log: &EventLog, op: u64, ok: bool, detail: impl Into<String>) {
    log.push(Ev::ClientReturn { op, ok, detail: detail.into() });
}

/// The payload every echo response carries for request id `id`: id ‖ !id, so that a
/// partial or foreign body is recognisable.
pub fn echo_payload(id: u64) -> Vec<u8> {
    let mut v = id.to_be_bytes().to_vec();
    v.extend_from_slice(&(!id).to_be_bytes());
    v
}

pub const ECHO_QUERY_PREFIX: &str = "SELECT id, payload FROM ks.echo WHERE id = ";

pub fn echo_cols() -> Vec<ColSpec> {
    vec![ColSpec::new("ks", "echo", "id", ColType::BigInt), ColSpec::new("ks", "echo", "payload", ColType::Blob)]
}

/// Extracts the logical request id of an echo request: from the statement text
/// (unprepared) or the first bound value (prepared).
pub fn echo_id(rq: &Rq) -> Option<u64> {
    match &*rq.request {
        Request::Query { query, .. } => query.strip_prefix(ECHO_QUERY_PREFIX).and_then(|s| s.trim().parse::<u64>().ok()),
        Request::Execute { params, .. } => match params.values.as_ref()?.first()? {
            Value::Bytes(b) if b.len() == 8 => Some(u64::from_be_bytes(b.as_slice().try_into().unwrap())),
            _ => None,
        },
        _ => None,
    }
}

pub fn echo_response(id: u64) -> Response {
    Response::Result(ResultBody::Rows {
        metadata: ResultMetadata { columns: echo_cols(), paging_state: None, no_metadata: false, global_spec: true, new_metadata_id: None },
        rows: vec![vec![Some((id as i64).to_be_bytes().to_vec()), Some(echo_payload(id))]],
    })
}

#[derive(Clone, Copy, Debug, PartialEq, Eq)]
pub enum EchoMode {
    /// answer as soon as the request arrives
    Immediate,
    /// keep requests until `release`
    Hold,
}

/// Handler that answers echo requests with their own id; in `Hold` mode the check
/// decides when and in which order they are answered.
pub struct Echo {
    pub mode: Mutex<EchoMode>,
    pub held: Mutex<Vec<(u64, Rq)>>,
    pub received: AtomicU64,
}

impl Echo {
    pub fn new(mode: EchoMode) -> Arc<Self> {
        Arc::new(Self { mode: Mutex::new(mode), held: Mutex::new(Vec::new()), received: AtomicU64::new(0) })
    }
    pub fn set_mode(&self, m: EchoMode) {
        *self.mode.lock().unwrap() = m;
    }
    pub fn held_count(&self) -> usize {
        self.held.lock().unwrap().len()
    }
    /// Takes the held requests out (the caller answers them in the order it likes).
    pub fn take_held(&self) -> Vec<(u64, Rq)> {
        std::mem::take(&mut *self.held.lock().unwrap())
    }
    pub fn answer(id: u64, rq: &Rq) {
        rq.reply_env_tag(&Default::default(), &echo_response(id), Some(id));
    }
}

impl Handler for Echo {
    fn statement(&self, _node: &MockNode, query: &str) -> Option<StatementDef> {
        if query.starts_with(ECHO_QUERY_PREFIX) {
            let mut d = StatementDef::new(query, &crate::fw::hash_str(query).to_be_bytes());
            d.bind = vec![ColSpec::new("ks", "echo", "id", ColType::BigInt)];
            d.pk_indexes = vec![0];
            d.result = echo_cols();
            Some(d)
        } else {
            None
        }
    }
    fn on_request(&self, rq: Rq) {
        self.received.fetch_add(1, Ordering::SeqCst);
        match echo_id(&rq) {
            None => rq.void(),
            Some(id) => {
                if *self.mode.lock().unwrap() == EchoMode::Immediate {
                    Echo::answer(id, &rq);
                } else {
                    self.held.lock().unwrap().push((id, rq));
                }
            }
        }
    }
}

/// What a client got back for an echo request.
#[derive(Debug, Clone, PartialEq, Eq)]
pub enum EchoOutcome {
    /// the row decoded to this id and the payload matched that id
    Ok(u64),
    /// the response decoded, but its contents are not a well-formed echo row
    Garbled(String),
    Err(String),
}

pub fn decode_echo(res: Result<scylla::response::query_result::QueryResult, scylla::errors::ExecutionError>) -> EchoOutcome {
    match res {
        Err(e) => EchoOutcome::Err(format!("{e}")),
        Ok(r) => match r.into_rows_result() {
            Err(e) => EchoOutcome::Garbled(format!("not rows: {e}")),
            Ok(rows) => match rows.rows::<(i64, Vec<u8>)>() {
                Err(e) => EchoOutcome::Garbled(format!("type check: {e}")),
                Ok(it) => {
                    let all: Vec<_> = it.collect();
                    if all.len() != 1 {
                        return EchoOutcome::Garbled(format!("{} rows", all.len()));
                    }
                    match &all[0] {
                        Err(e) => EchoOutcome::Garbled(format!("row: {e}")),
                        Ok((id, payload)) => {
                            // the payload must START with the id-dependent 16 bytes (the node may append more)
                            if payload.starts_with(&echo_payload(*id as u64)) {
                                EchoOutcome::Ok(*id as u64)
                            } else {
                                EchoOutcome::Garbled(format!("payload of id {id} does not match"))
                            }
                        }
                    }
                }
            },
        },
    }
}

/// Pacing helper (never a verdict): waits until `pred` or until the event log has been
/// quiet for `quiet`, at most `max`.
pub async fn settle(log: &EventLog, quiet: Duration, max: Duration, mut pred: impl FnMut() -> bool) -> bool {
    let t0 = std::time::Instant::now();
    let mut last = log.counter();
    let mut last_change = std::time::Instant::now();
    loop {
        if pred() {
            return true;
        }
        tokio::time::sleep(Duration::from_millis(1)).await;
        let c = log.counter();
        if c != last {
            last = c;
            last_change = std::time::Instant::now();
        }
        if last_change.elapsed() > quiet || t0.elapsed() > max {
            return pred();
        }
    }
}

/// One mock node, plain (no sharding), keyspace `ks`.
pub fn single_node_spec() -> ClusterSpec {
    ClusterSpec {
        nodes: vec![NodeSpec::simple("dc1", "r1", vec![0])],
        keyspaces: vec![KeyspaceDef::simple("ks", 1).with_table(TableDef::new("echo", &[("id", "bigint")], &[("payload", "blob")]))],
        cluster_name: "verif".into(),
    }
}
